package main

// One instance of the object under test: the real consensus.DPoVP over a real store.ChainDatabase,
// built the way chain.NewBlockChain builds it (minus the feed forwarding loop, which is channel
// plumbing), with buffered subscribers on the four feeds. Also the request bodies, the go-statement
// hook and the outcome rendering shared by the controlled, the sequential and the free-running mode.

import (
	"fmt"
	"os"
	"sort"
	"strings"
	"sync"
	"time"
	"unsafe"

	"verifmc/core"
	"verifmc/node"
	"verifmc/sched"
	"verifmc/vclock"
	"verifmc/vsync"
	"verifmc/vtask"

	"github.com/LemoFoundationLtd/lemochain-core/chain"
	"github.com/LemoFoundationLtd/lemochain-core/chain/account"
	"github.com/LemoFoundationLtd/lemochain-core/chain/consensus"
	"github.com/LemoFoundationLtd/lemochain-core/chain/deputynode"
	"github.com/LemoFoundationLtd/lemochain-core/chain/txpool"
	"github.com/LemoFoundationLtd/lemochain-core/chain/types"
	"github.com/LemoFoundationLtd/lemochain-core/common"
	"github.com/LemoFoundationLtd/lemochain-core/common/flag"
	mainnode "github.com/LemoFoundationLtd/lemochain-core/main/node"
	"github.com/LemoFoundationLtd/lemochain-core/network"
	"github.com/LemoFoundationLtd/lemochain-core/store"
)

type inst struct {
	w    *world
	dir  string
	db   *store.ChainDatabase
	dm   *deputynode.Manager
	pool *txpool.TxPool
	am   *account.Manager
	bc   *chain.BlockChain
	api  *mainnode.PublicChainAPI
	dp   *consensus.DPoVP

	confirmCh chan *network.BlockConfirmData
	fetchCh   chan []network.GetConfirmInfo
	stableCh  chan *types.Block
	currentCh chan *types.Block

	mu      sync.Mutex
	results map[string][]string // client -> results in program order
	mined   []*types.Block
}

func newInst(w *world) *inst {
	vclock.SetUnix(int64(node.GenesisTime) + clockOff)
	node.SetSelf(node.Deputy(selfIndex))
	in := &inst{w: w, results: map[string][]string{}}
	in.dir = core.ScratchDir("c19")
	in.db = node.OpenDB(in.dir)
	node.SetupGenesis(in.db, nDeputies)
	in.dm = deputynode.NewManager(nDeputies, in.db)
	in.pool = txpool.NewTxPool()
	// the chain object the network, miner and RPC threads talk to; its engine is the object under test
	bc, err := chain.NewBlockChain(chain.Config{ChainID: node.ChainID, MineTimeout: node.MineTimeout}, in.dm, in.db, flag.CmdFlags{}, in.pool)
	if err != nil {
		panic(err)
	}
	in.bc = bc
	in.dp = chain.VerifC19Engine(bc)
	in.am = bc.AccountManager()
	in.api = mainnode.NewPublicChainAPI(bc)
	in.confirmCh = make(chan *network.BlockConfirmData, 256)
	in.fetchCh = make(chan []network.GetConfirmInfo, 256)
	in.stableCh = make(chan *types.Block, 256)
	in.currentCh = make(chan *types.Block, 256)
	in.dp.SubscribeConfirm(in.confirmCh)
	in.dp.SubscribeFetchConfirm(in.fetchCh)
	in.dp.SubscribeStable(in.stableCh)
	in.dp.SubscribeCurrent(in.currentCh)
	return in
}

func (in *inst) destroy() {
	for i := 0; i < 40000; i++ {
		if store.VerifPendingWrites(in.db) == 0 {
			break
		}
		time.Sleep(250 * time.Microsecond)
	}
	in.bc.Stop()
	in.db.Close()
	os.RemoveAll(in.dir)
}

// ---------------------------------------------------------------------------------------------
// go statements of the engine

// bgKind classifies a go statement of chain/consensus by its site string.
func bgKind(site string) string {
	switch {
	case strings.Contains(site, "broadcastConfirm"):
		return "broadcast"
	case strings.Contains(site, "batchConfirmStable"):
		return "batch"
	case strings.Contains(site, "FetchRemoteConfirms"):
		return "fetch"
	case strings.Contains(site, "stableFeed.Send"):
		return "stablefeed"
	case strings.Contains(site, "currentFeed.Send"):
		return "currentfeed"
	case strings.Contains(site, "dpovp.go") && strings.Contains(site, "func"):
		return "judge"
	}
	return "other:" + site
}

// inlineKinds run at their go statement: they pass no scheduling point (checked by the gate) and
// their only effect is a send into a buffered feed subscriber, which the harness reads after the
// execution and compares as a multiset — so their position among the other threads is not observable.
var inlineKinds = map[string]bool{"broadcast": true, "stablefeed": true, "currentfeed": true}

type bgTask struct {
	kind string
	f    func()
}

var (
	hookMu     sync.Mutex
	spawnCount = map[string]int{} // per execution: parent name + kind -> n
	pendingBG  []bgTask           // uncontrolled mode: queued units
	spawnHits  = map[string]int64{}
	inlineOff  bool // gate: run the inline kinds as threads to check that they pass no scheduling point
)

// withTimer runs a go-statement body and then the timer callbacks it armed (FetchRemoteConfirms
// arms a 30s timer whose callback does the work: "any time later" is the thread going on).
func withTimer(kind string, f func()) func() {
	return func() {
		if freeRunning && kind == "fetch" {
			timerMu.Lock() // the pending-timer index below is not made for parallel callers
			defer timerMu.Unlock()
		}
		before := len(vtask.Pending())
		f()
		for len(vtask.Pending()) > before {
			vtask.Run(before)
		}
	}
}

func installHook() {
	vtask.SetPolicy(vtask.Real, "timer:", vtask.Gated)
	vtask.Spawn = func(site string, f func()) {
		kind := bgKind(site)
		hookMu.Lock()
		spawnHits["spawn/"+kind]++
		hookMu.Unlock()
		body := withTimer(kind, f)
		if s := sched.Active(); s != nil {
			if parent := s.CurrentName(); parent != "" {
				if inlineKinds[kind] && !inlineOff {
					body()
					return
				}
				hookMu.Lock()
				k := parent + ">" + kind
				n := spawnCount[k]
				spawnCount[k]++
				hookMu.Unlock()
				s.Go(fmt.Sprintf("%s#%d", k, n), body)
				return
			}
		}
		if freeRunning {
			freeWG.Add(1)
			go func() { defer freeWG.Done(); body() }()
			return
		}
		if inlineKinds[kind] {
			body()
			return
		}
		hookMu.Lock()
		pendingBG = append(pendingBG, bgTask{kind, body})
		hookMu.Unlock()
	}
}

func resetHook() {
	hookMu.Lock()
	spawnCount = map[string]int{}
	pendingBG = nil
	hookMu.Unlock()
	vtask.Reset()
}

func takeBG() []bgTask {
	hookMu.Lock()
	defer hookMu.Unlock()
	l := pendingBG
	pendingBG = nil
	return l
}

// drainBG runs queued background units first in, first out (units may queue further units).
func drainBG() {
	for {
		l := takeBG()
		if len(l) == 0 {
			return
		}
		for _, t := range l {
			t.f()
		}
	}
}

// ---------------------------------------------------------------------------------------------
// requests

// do performs one request and returns its result text.
//
//	ins X          InsertBlock(X)                      (network: handleBlocksMsg)
//	cf X i,j       InsertConfirms(X, sigs of d_i,d_j)   (network: handleConfirmMsg / handleConfirmsMsg)
//	mine           MineBlock                           (miner)
//	pool           TxPool.AddTx(the pool transaction)   (RPC sendTx)
//	stable|current StableBlock / CurrentBlock          (RPC, network status)
//	confirms X     BlockChain.GetBlockByHash(X) then read of its Confirms (network.handleGetConfirmsMsg)
//	blockat H      PublicChainAPI.GetBlockByHeight(H) = BlockChain.GetBlockByHeight, then read of its Confirms (RPC, block sender)
//	top X          BlockChain.GetCandidatesTop(X)
//	top30          PublicChainAPI.GetCandidateTop30()  (RPC)
//	acct           balance of u1 in the canonical (stable) state: AccountManager().GetCanonicalAccount (RPC)
func (in *inst) do(req string) string {
	w := in.w
	f := strings.Fields(req)
	switch f[0] {
	case "ins":
		b, err := in.dp.InsertBlock(w.block(f[1]))
		if err != nil {
			return err.Error()
		}
		return "ok:" + w.nameOf(b)
	case "cf":
		var sigs []types.SignData
		for _, s := range strings.Split(f[2], ",") {
			// "1": deputy 1's confirm; "f1": a second valid signature of deputy 1 over the same hash (another nonce);
			// "r1": the other encoding (r, n-s, v^1) of deputy 1's confirm
			var d int
			h := w.hash[f[1]]
			switch s[0] {
			case 'f':
				fmt.Sscanf(s[1:], "%d", &d)
				sigs = append(sigs, types.BytesToSignData(node.SignWithNonce(node.Deputy(d), h[:], 7)))
			case 'r':
				fmt.Sscanf(s[1:], "%d", &d)
				c := node.SignConfirm(node.Deputy(d), h)
				sigs = append(sigs, types.BytesToSignData(node.ReencodeSig(c[:])))
			default:
				fmt.Sscanf(s, "%d", &d)
				sigs = append(sigs, node.SignConfirm(node.Deputy(d), h))
			}
		}
		if err := in.dp.InsertConfirms(w.height[f[1]], w.hash[f[1]], sigs); err != nil {
			return err.Error()
		}
		return "ok"
	case "mine":
		b, err := in.dp.MineBlock(node.HugeTimeout)
		if err != nil {
			return err.Error()
		}
		in.mu.Lock()
		in.mined = append(in.mined, b)
		w.minedNames[b.Hash()] = w.nameOf(b)
		in.mu.Unlock()
		return fmt.Sprintf("%s signed-by-self=%v", w.nameOf(b), consensus.IsMinedByself(b))
	case "pool":
		if err := in.pool.AddTx(w.poolTx.Clone()); err != nil {
			return err.Error()
		}
		return "ok"
	case "stable":
		return w.nameOf(in.bc.StableBlock())
	case "current":
		return w.nameOf(in.bc.CurrentBlock())
	case "confirms":
		b := in.bc.GetBlockByHash(w.hash[f[1]])
		if b == nil {
			return "nil"
		}
		vsync.Access(unsafe.Pointer(&b.Confirms), false) // resMsg.Pack = block.Confirms
		pack := b.Confirms
		return fmt.Sprintf("%d confirms %s", len(pack), signers(b.Hash(), pack))
	case "blockat":
		var h uint32
		fmt.Sscanf(f[1], "%d", &h)
		b := in.api.GetBlockByHeight(h, true) // = BlockChain.GetBlockByHeight, also behind handleGetBlocksMsg / handleGetConfirmsMsg
		if b == nil {
			return "nil"
		}
		vsync.Access(unsafe.Pointer(&b.Confirms), false)
		pack := b.Confirms
		return fmt.Sprintf("%s with %d confirms %s", w.nameOf(b), len(pack), signers(b.Hash(), pack))
	case "top30":
		var l []string
		for _, c := range in.api.GetCandidateTop30() {
			l = append(l, c.CandidateAddress[len(c.CandidateAddress)-6:]+":"+c.Votes)
		}
		return strings.Join(l, ",")
	case "top":
		var l []string
		for _, c := range in.bc.GetCandidatesTop(w.hash[f[1]]) {
			a := c.GetAddress()
			l = append(l, fmt.Sprintf("%x:%s", a[16:], c.GetTotal()))
		}
		return strings.Join(l, ",")
	case "acct":
		return in.am.GetCanonicalAccount(w.u1).GetBalance().String()
	}
	panic("bad request " + req)
}

func (in *inst) drainFeeds() {
	for len(in.confirmCh) > 0 {
		<-in.confirmCh
	}
	for len(in.fetchCh) > 0 {
		<-in.fetchCh
	}
	for len(in.stableCh) > 0 {
		<-in.stableCh
	}
	for len(in.currentCh) > 0 {
		<-in.currentCh
	}
}

func (in *inst) record(client, req, res string) {
	in.mu.Lock()
	in.results[client] = append(in.results[client], req+"="+res)
	in.mu.Unlock()
}

// ---------------------------------------------------------------------------------------------
// outcome

type observation struct {
	Outcome string
	Bad     [][2]string // violations of the signature oracle: (fingerprint key, text)
}

// observe renders everything the property talks about. It runs after all threads have finished, on
// the harness goroutine.
func (in *inst) observe() observation {
	w := in.w
	var ob observation
	var sb strings.Builder
	clients := make([]string, 0)
	for c := range in.results {
		clients = append(clients, c)
	}
	sort.Strings(clients)
	for _, c := range clients {
		for _, r := range in.results[c] {
			fmt.Fprintf(&sb, "%s:%s | ", c, r)
		}
	}
	stable := in.dp.StableBlock()
	head := in.dp.CurrentBlock()
	fmt.Fprintf(&sb, "stable=%s | head=%s | blocks=", w.nameOf(stable), w.nameOf(head))
	names := []string{"a1", "a2", "a2x", "a2m", "a2t", "b1", "b2", "b3"}
	type nb struct {
		n string
		h common.Hash
	}
	var all []nb
	for _, n := range names {
		all = append(all, nb{n, w.hash[n]})
	}
	for _, b := range in.mined {
		all = append(all, nb{w.nameOf(b), b.Hash()})
	}
	for _, e := range all {
		b, err := in.db.GetBlockByHash(e.h)
		if err != nil {
			continue
		}
		fmt.Fprintf(&sb, "%s%s ", e.n, signers(e.h, b.Confirms))
	}
	lh, lhash := consensus.VerifLastSig(in.dp)
	fmt.Fprintf(&sb, "| lastSig=%d/%s", lh, w.nameOfHash(lhash, lh))
	ch, csig := consensus.VerifSigCache()
	switch {
	case ch == (common.Hash{}) && csig == nil:
		sb.WriteString(" | sigCache=empty")
	default:
		valid := "INVALID"
		if id, err := types.BytesToSignData(csig).RecoverNodeID(ch); err == nil && string(id) == string(node.Deputy(selfIndex).NodeID) && len(csig) == 65 {
			valid = "valid"
		}
		fmt.Fprintf(&sb, " | sigCache=%s", valid)
		if valid != "valid" {
			ob.Bad = append(ob.Bad, [2]string{"sigCache-holds-invalid-signature", fmt.Sprintf("signature cache holds (hash of %s, a signature that does not recover to the node over it)", w.nameOfHash(ch, 0))})
		}
	}
	var ev []string
	for i := 0; i < nDeputies; i++ {
		if in.dm.IsEvilDeputyNode(node.Deputy(i).Addr, 0) {
			ev = append(ev, fmt.Sprintf("d%d", i))
		}
	}
	// every field ends with " | " (diffKey splits there): an empty black list used to swallow the pool field,
	// so that a difference in the pool alone was named "evil" in the fingerprint
	fmt.Fprintf(&sb, " | evil=%s ", strings.Join(ev, ","))
	var pl []string
	for _, tx := range in.pool.GetTxs(node.GenesisTime+clockOff, 100) {
		h := tx.Hash()
		pl = append(pl, fmt.Sprintf("%x", h[:4]))
	}
	sort.Strings(pl)
	fmt.Fprintf(&sb, "| pool=%s", strings.Join(pl, ","))
	// feeds
	var em []string
	self := string(node.Deputy(selfIndex).NodeID)
	for len(in.confirmCh) > 0 {
		c := <-in.confirmCh
		em = append(em, fmt.Sprintf("%s@%d", w.nameOfHash(c.Hash, c.Height), c.Height))
		id, err := c.SignInfo.RecoverNodeID(c.Hash)
		if err != nil || string(id) != self {
			ob.Bad = append(ob.Bad, [2]string{"emitted-confirm-not-own-signature", fmt.Sprintf("emitted confirm for %s@%d is not a signature of the node over that block", w.nameOfHash(c.Hash, c.Height), c.Height)})
		}
		// the named block must be a block of that height that this node was given or mined itself (it may
		// have been pruned since, when another fork became stable)
		known := false
		if n, ok := w.name[c.Hash]; ok && w.height[n] == c.Height {
			known = true
		}
		for _, b := range in.mined {
			if b.Hash() == c.Hash && b.Height() == c.Height {
				known = true
			}
		}
		if !known {
			ob.Bad = append(ob.Bad, [2]string{"emitted-confirm-names-unknown-block", fmt.Sprintf("emitted confirm names %s@%d which is not a block of that height", w.nameOfHash(c.Hash, c.Height), c.Height)})
		}
	}
	sort.Strings(em)
	fmt.Fprintf(&sb, " | emitted=%s", strings.Join(em, ","))
	var fe []string
	for len(in.fetchCh) > 0 {
		for _, g := range <-in.fetchCh {
			fe = append(fe, fmt.Sprintf("%s@%d", w.nameOfHash(g.Hash, g.Height), g.Height))
		}
	}
	sort.Strings(fe)
	fmt.Fprintf(&sb, " | fetch=%s", strings.Join(fe, ","))
	var sf, cf []string
	for len(in.stableCh) > 0 {
		sf = append(sf, w.nameOf(<-in.stableCh))
	}
	for len(in.currentCh) > 0 {
		cf = append(cf, w.nameOf(<-in.currentCh))
	}
	sort.Strings(sf)
	sort.Strings(cf)
	fmt.Fprintf(&sb, " | stableFeed=%s | currentFeed=%s", strings.Join(sf, ","), strings.Join(cf, ","))
	// stored confirm lists must carry valid deputy signatures only
	if strings.Contains(sb.String(), "[INVALID") || strings.Contains(sb.String(), ",INVALID") {
		ob.Bad = append(ob.Bad, [2]string{"stored-confirm-invalid-signature", "a stored confirm list holds a signature that does not recover to a deputy over the block"})
	}
	ob.Outcome = sb.String()
	return ob
}

package main

// Site labels. The scheduler identifies an operation by file:line of the *instrumented* source (the
// overlay file the harness was built from). For reports and fingerprints that is turned into
// "<what> in <function>(<file>)", e.g. "read of lastSig in needConfirm(confirmer.go)", by looking at
// the overlay file: the announcement statement in front of an access names the variable, the
// enclosing function is found with go/parser. Labels do not depend on line numbers, so they are
// stable under edits elsewhere in the file (seeded reversals, fixes).

import (
	"encoding/json"
	"go/ast"
	"go/parser"
	"go/token"
	"os"
	"path/filepath"
	"regexp"
	"sort"
	"strconv"
	"strings"
	"sync"
)

const overlayJSON = "/verif/.build/overlay-c19/overlay.json"
const mutOverlayJSON = "/verif/.build/overlay-c19.mut/overlay.json"

type srcFile struct {
	lines []string
	funcs []funcRange
}

type funcRange struct {
	from, to int
	name     string
}

var (
	srcOnce  sync.Once
	srcFiles = map[string]*srcFile{} // key: path relative to the repo root, e.g. chain/consensus/dpovp.go
	labelMu  sync.Mutex
	labels   = map[string]siteInfo{}
)

type siteInfo struct {
	Func string // function(file.go)
	Expr string // variable / lock expression
	Load bool   // atomic load
}

func loadSources() {
	path := overlayJSON
	if p := os.Getenv("VERIF_C19_OVERLAY"); p != "" {
		path = p
	} else if os.Getenv("VERIF_MUT_OVERLAY") != "" {
		// a build against deliberately changed sources (seedcheck, mutation experiments) has its own instrumented
		// files (bin/check: overlay-c19.mut); the labels, and with them the classification of sites (atomic load,
		// store write, read section, known classes), must be read from those: the line numbers of a changed file differ
		path = mutOverlayJSON
	}
	b, err := os.ReadFile(path)
	if err != nil {
		return
	}
	var ov struct{ Replace map[string]string }
	if json.Unmarshal(b, &ov) != nil {
		return
	}
	for orig, repl := range ov.Replace {
		if repl == "" || !strings.HasPrefix(orig, "/repo/") {
			continue
		}
		data, err := os.ReadFile(repl)
		if err != nil {
			continue
		}
		sf := &srcFile{lines: strings.Split(string(data), "\n")}
		fset := token.NewFileSet()
		if f, err := parser.ParseFile(fset, repl, data, 0); err == nil {
			for _, d := range f.Decls {
				if fd, ok := d.(*ast.FuncDecl); ok {
					sf.funcs = append(sf.funcs, funcRange{fset.Position(fd.Pos()).Line, fset.Position(fd.End()).Line, fd.Name.Name})
				}
			}
			sort.Slice(sf.funcs, func(i, j int) bool { return sf.funcs[i].from < sf.funcs[j].from })
		}
		srcFiles[strings.TrimPrefix(orig, "/repo/")] = sf
	}
}

var (
	reAccess = regexp.MustCompile(`Access\(unsafe\.Pointer\(&(.*)\), (true|false)\)`)
	reLockOp = regexp.MustCompile(`([A-Za-z_][\w\.]*)\.(Lock|Unlock|RLock|RUnlock)\(\)`)
	reAtomic = regexp.MustCompile(`([A-Za-z_][\w\.]*)\.(Load|Store)\(`)
)

// info resolves a scheduler site ("chain/consensus/confirmer.go:81").
func info(site string) siteInfo {
	srcOnce.Do(loadSources)
	labelMu.Lock()
	defer labelMu.Unlock()
	if si, ok := labels[site]; ok {
		return si
	}
	si := siteInfo{Func: site}
	if strings.Contains(site, "/props/c19/") {
		// the harness's own announcement: the request that does what network.handleGetConfirmsMsg does
		si = siteInfo{Func: "the caller of GetBlockByHash (as network.handleGetConfirmsMsg)", Expr: "Confirms"}
		labels[site] = si
		return si
	}
	i := strings.LastIndex(site, ":")
	if i > 0 {
		file := site[:i]
		line, _ := strconv.Atoi(site[i+1:])
		if sf := srcFiles[file]; sf != nil && line >= 1 && line <= len(sf.lines) {
			fn := "?"
			for _, fr := range sf.funcs {
				if line >= fr.from && line <= fr.to {
					fn = fr.name
				}
			}
			si.Func = fn + "(" + filepath.Base(file) + ")"
			text := sf.lines[line-1]
			if m := reAccess.FindStringSubmatch(text); m != nil {
				si.Expr = lastSel(m[1])
			} else if m := reLockOp.FindStringSubmatch(text); m != nil {
				si.Expr = lastSel(m[1])
			} else if m := reAtomic.FindStringSubmatch(text); m != nil {
				si.Expr = lastSel(m[1])
				si.Load = m[2] == "Load"
			}
		} else {
			si.Func = filepath.Base(site)
		}
	}
	labels[site] = si
	return si
}

// lastSel: "database.LastConfirm" -> "LastConfirm"; "sigCache.Hash" stays (package-level struct).
func lastSel(e string) string {
	e = strings.TrimSpace(e)
	if strings.HasPrefix(e, "sigCache.") {
		return e
	}
	if i := strings.LastIndex(e, "."); i >= 0 {
		return e[i+1:]
	}
	return e
}

// label is the report form of an operation: "read of lastSig in needConfirm(confirmer.go)".
func label(kind, site string) string {
	si := info(site)
	if si.Expr != "" {
		return kind + " of " + si.Expr + " in " + si.Func
	}
	return kind + " in " + si.Func
}

func atomicLoad(site string) bool { return info(site).Load }

// C19 — the consensus engine is thread-safe under concurrent blocks, confirms, mining and reads.
//
// Engine E1 (controlled scheduler, mc/sched RunX/XExplorer) on the real consensus.DPoVP over a real
// store.ChainDatabase; the node is deputy 3 of 4. Per scenario the request threads and every
// goroutine the engine itself starts run as controlled threads under every schedule inside the
// preemption bound. Oracles per complete schedule: (1) the outcome is among the outcomes of the
// sequential orders of the same whole units, (2) every confirm the node emitted is its own valid
// signature over a stored block of the named height, (3) no two conflicting announced accesses are
// unordered by happens-before (data race), (4) no deadlock, no panic. See REPORT.md.
package main

import (
	"encoding/json"
	"fmt"
	"os"
	"runtime"
	"runtime/debug"
	"sort"
	"strings"
	"sync"
	"syscall"
	"time"

	"verifmc/core"
	"verifmc/node"
	"verifmc/sched"
)

const prop = "C19"

type scenario struct {
	Name    string     `json:"name"`
	Prefix  []string   `json:"prefix"`
	Threads [][]string `json:"request_threads"`
	// LastPrefixBG: the background goroutines of the last prefix request are not run to completion
	// before the threads start but become threads themselves.
	LastPrefixBG bool `json:"background_goroutines_of_the_last_prefix_request_run_as_threads,omitempty"`
	BoundQuick   int  `json:"preemption_bound_quick"`
	BoundThor    int  `json:"preemption_bound_thorough"`
	ShardsQuick  int  `json:"-"`
	ShardsThor   int  `json:"-"`
	Thorough     bool `json:"thorough_only,omitempty"`
	// CostQuick / CostThor: scheduling steps (thousands) the scenario took in a measured run of the tier (REPORT.md section 10).
	// Only used to spread the units evenly over the worker processes; a wrong number costs wall time, nothing else.
	CostQuick int `json:"-"`
	CostThor  int `json:"-"`
}

var scenarios = []scenario{
	{Name: "insert||confirms", Prefix: []string{"ins a1"}, Threads: [][]string{{"ins a2"}, {"cf a1 1"}}, BoundQuick: 2, BoundThor: 3, ShardsQuick: 4, ShardsThor: 8, CostQuick: 756, CostThor: 2413},
	{Name: "siblings", Prefix: []string{"ins a1"}, Threads: [][]string{{"ins a2"}, {"ins a2x"}}, BoundQuick: 2, BoundThor: 3, ShardsQuick: 1, ShardsThor: 3, CostQuick: 184, CostThor: 774},
	{Name: "mine||insert", Prefix: []string{"pool", "ins a1"}, Threads: [][]string{{"mine"}, {"ins a2m"}}, BoundQuick: 2, BoundThor: 4, ShardsQuick: 1, ShardsThor: 2, CostQuick: 34, CostThor: 113},
	{Name: "confirms||stable,current", Prefix: []string{"ins a1"}, Threads: [][]string{{"cf a1 1"}, {"stable", "current"}}, BoundQuick: 2, BoundThor: 4, ShardsQuick: 1, ShardsThor: 2, CostQuick: 52, CostThor: 182},
	{Name: "confirms||getconfirms", Prefix: []string{"ins a1"}, Threads: [][]string{{"cf a1 1"}, {"confirms a1"}}, BoundQuick: 2, BoundThor: 4, ShardsQuick: 1, ShardsThor: 1, CostQuick: 12, CostThor: 16},
	{Name: "confirms||top,account", Prefix: []string{"ins a1"}, Threads: [][]string{{"cf a1 1"}, {"top a1", "acct"}}, BoundQuick: 2, BoundThor: 4, ShardsQuick: 1, ShardsThor: 2, CostQuick: 17, CostThor: 47},
	{Name: "batch-task||tryconfirm", Prefix: []string{"ins a1", "ins b1", "ins b2", "cf b2 0,1"}, Threads: [][]string{{"ins b3"}}, LastPrefixBG: true, BoundQuick: 2, BoundThor: 3, ShardsQuick: 4, ShardsThor: 8, CostQuick: 928, CostThor: 5574},
	{Name: "confirms||confirms", Prefix: []string{"ins a1"}, Threads: [][]string{{"cf a1 1"}, {"cf a1 2"}}, BoundQuick: 2, BoundThor: 4, ShardsQuick: 2, ShardsThor: 2, CostQuick: 32, CostThor: 47},
	{Name: "insert||confirms-of-it", Prefix: []string{"ins a1"}, Threads: [][]string{{"ins a2"}, {"cf a2 0,2"}}, BoundQuick: 2, BoundThor: 3, ShardsQuick: 3, ShardsThor: 6, CostQuick: 575, CostThor: 3066},
	{Name: "mine||confirms", Prefix: []string{"pool", "ins a1"}, Threads: [][]string{{"mine"}, {"cf a1 1"}}, BoundQuick: 2, BoundThor: 4, ShardsQuick: 2, ShardsThor: 2, CostQuick: 43, CostThor: 65},
	{Name: "confirms||top30", Prefix: []string{"ins a1"}, Threads: [][]string{{"cf a1 1"}, {"top30"}}, BoundQuick: 2, BoundThor: 3, ShardsQuick: 2, ShardsThor: 3, CostQuick: 150, CostThor: 659},
	{Name: "confirms||blockat", Prefix: []string{"ins a1"}, Threads: [][]string{{"cf a1 1"}, {"blockat 1"}}, BoundQuick: 2, BoundThor: 3, ShardsQuick: 2, ShardsThor: 3, CostQuick: 116, CostThor: 386},
	{Name: "confirms||confirms-same-signer", Prefix: []string{"ins a1", "ins b1"}, Threads: [][]string{{"cf b1 0"}, {"cf b1 f0"}}, BoundQuick: 2, BoundThor: 4, ShardsQuick: 1, ShardsThor: 1, CostQuick: 1, CostThor: 1},
	{Name: "batch-task||confirms-for-stable-ancestor", Prefix: []string{"ins a1", "ins b1", "ins b2", "cf b2 0,1"}, Threads: [][]string{{"cf b1 0"}}, LastPrefixBG: true, BoundQuick: 2, BoundThor: 4, ShardsQuick: 2, ShardsThor: 2, CostQuick: 35, CostThor: 97},
	// a confirm package makes a block of ANOTHER fork stable (the current fork is cut, the head switches, the cut fork's
	// transactions go back to the pool) while a block that carries a transaction extends the current fork
	{Name: "insert||confirms-of-other-fork", Prefix: []string{"ins a1", "ins b1"}, Threads: [][]string{{"ins a2t"}, {"cf b1 0,2"}}, BoundQuick: 2, BoundThor: 3, ShardsQuick: 3, ShardsThor: 6, CostQuick: 445, CostThor: 2400},
	{Name: "insert||confirms||getconfirms", Prefix: []string{"ins a1"}, Threads: [][]string{{"ins a2"}, {"cf a1 1"}, {"confirms a1"}}, BoundQuick: 1, BoundThor: 2, ShardsQuick: 3, ShardsThor: 8, CostQuick: 814, CostThor: 7791},
}

func (sc *scenario) bound() int {
	if core.Thorough() {
		return sc.BoundThor
	}
	return sc.BoundQuick
}

func (sc *scenario) shards() int {
	if core.Thorough() {
		return sc.ShardsThor
	}
	return sc.ShardsQuick
}

var theWorld *world

// fullBranch (VERIF_C19_FULLBRANCH=1, development aid): every scheduling point is a preemption point
var fullBranch = os.Getenv("VERIF_C19_FULLBRANCH") != ""

var (
	freeRunning bool
	freeWG      sync.WaitGroup
)

// ---------------------------------------------------------------------------------------------
// running a scenario's prefix

func (sc *scenario) prepare() (*inst, []bgTask) {
	resetHook()
	in := newInst(theWorld)
	var keep []bgTask
	for i, req := range sc.Prefix {
		res := in.do(req)
		if !strings.HasPrefix(res, "ok") {
			panic(fmt.Sprintf("harness: prefix request %q of %s failed: %s", req, sc.Name, res))
		}
		if i == len(sc.Prefix)-1 && sc.LastPrefixBG {
			keep = takeBG()
		} else {
			drainBG()
		}
	}
	in.drainFeeds() // what the prefix emitted is not part of the concurrent part's outcome
	return in, keep
}

// ---------------------------------------------------------------------------------------------
// sequential reference: every order of whole units

type seqResult struct {
	Orders   int
	Outcomes map[string][]string // outcome -> one order that produces it
}

func (sc *scenario) sequential() seqResult {
	res := seqResult{Outcomes: map[string][]string{}}
	var rec func(prefix []int)
	rec = func(prefix []int) {
		in, bg := sc.prepare()
		next := make([]int, len(sc.Threads))
		pend := append([]bgTask{}, bg...)
		var order []string
		options := func() int {
			n := 0
			for ti := range sc.Threads {
				if next[ti] < len(sc.Threads[ti]) {
					n++
				}
			}
			return n + len(pend)
		}
		take := func(c int) {
			for ti := range sc.Threads {
				if next[ti] < len(sc.Threads[ti]) {
					if c == 0 {
						req := sc.Threads[ti][next[ti]]
						next[ti]++
						in.record(fmt.Sprintf("T%d", ti), req, in.do(req))
						order = append(order, req)
						pend = append(pend, takeBG()...)
						return
					}
					c--
				}
			}
			t := pend[c]
			pend = append(pend[:c:c], pend[c+1:]...)
			t.f()
			order = append(order, t.kind)
			pend = append(pend, takeBG()...)
		}
		for _, c := range prefix {
			take(c)
		}
		n := options()
		if n == 0 {
			ob := in.observe()
			in.destroy()
			res.Orders++
			if _, ok := res.Outcomes[ob.Outcome]; !ok {
				res.Outcomes[ob.Outcome] = order
			}
			return
		}
		in.destroy()
		for c := 0; c < n; c++ {
			rec(append(append([]int{}, prefix...), c))
		}
	}
	rec(nil)
	return res
}

// ---------------------------------------------------------------------------------------------
// controlled exploration of one scenario (one shard)

type scStats struct {
	Schedules      int             `json:"schedules"`
	Steps          int64           `json:"scheduling_steps"`
	Expanded       int64           `json:"decision_states_expanded"`
	PrunedAtSeen   int64           `json:"schedules_cut_at_an_already_expanded_state"`
	MaxPreempt     int             `json:"max_preemptions_in_a_schedule"`
	BoundDone      int             `json:"preemption_bound_completed"`
	Bound          int             `json:"preemption_bound"`
	SeqOrders      int             `json:"sequential_orders"`
	SeqOutcomes    int             `json:"sequential_outcomes"`
	Outcomes       map[string]int  `json:"-"`
	Distinct       int             `json:"distinct_outcomes"`
	SeqReached     int             `json:"sequential_outcomes_reached"`
	BranchSites    []string        `json:"preemption_point_classes"`
	WriterSections []string        `json:"writer_sections_of_ChainDatabase.RW"`
	Restarts       int             `json:"restarts_after_learning_a_new_preemption_point_class"`
	LateSites      []string        `json:"-"`
	Threads        map[string]int  `json:"threads_seen"`
	MaxThreads     int             `json:"max_threads_in_a_schedule"`
	Truncated      bool            `json:"cut_by_deadline"`
	Shards         int             `json:"shards"`
	WallS          float64         `json:"wall_s_of_the_slowest_shard"`
	CPUS           float64         `json:"cpu_s"` // user+system time of the worker process while it ran this scenario's units (sequential reference, learning pass and exploration; summed over the shards)
	FinalStates    map[string]bool `json:"-"`
	DistinctFinals int             `json:"distinct_final_partial_orders"`
}

type replayRec struct {
	Scenario string          `json:"scenario"`
	Dev      []sched.XChoice `json:"schedule"`
	Note     string          `json:"note,omitempty"`
}

const watchdog = 90 * time.Second

// startThreads starts the scenario's threads on s.
func (sc *scenario) startThreads(s *sched.Sched, in *inst, bg []bgTask) {
	for ti, reqs := range sc.Threads {
		ti, reqs := ti, reqs
		name := fmt.Sprintf("T%d", ti)
		s.Go(name, func() {
			for i, req := range reqs {
				if i > 0 {
					sched.Point(sched.OpYield, 0, 0)
				}
				in.record(name, req, in.do(req))
			}
		})
	}
	for i, t := range bg {
		s.Go(fmt.Sprintf("P>%s#%d", t.kind, i), t.f)
	}
}

func shortName(n string) string {
	// "T0>batch#0" -> "batch"
	if i := strings.LastIndex(n, ">"); i >= 0 {
		n = n[i+1:]
	}
	if i := strings.Index(n, "#"); i >= 0 {
		n = n[:i]
	}
	return n
}

func raceFP(rc sched.XRace) (fp, what string) {
	a, b := label(rc.KindA, rc.SiteA), label(rc.KindB, rc.SiteB)
	if b < a {
		a, b = b, a
	}
	v := info(rc.SiteA).Expr
	if v == "" {
		v = info(rc.SiteB).Expr
	}
	return prop + "/data-race/" + v + "/" + a + "~" + b, fmt.Sprintf("%s by thread %s and %s by thread %s are not ordered by any lock, atomic or go statement", label(rc.KindA, rc.SiteA), shortName(rc.ThreadA), label(rc.KindB, rc.SiteB), shortName(rc.ThreadB))
}

// explore runs one shard of one scenario. seeds are preemption-point classes already known.
func (sc *scenario) explore(r *core.Result, shard, nshards int, seeds []string) *scStats {
	st := &scStats{Outcomes: map[string]int{}, Threads: map[string]int{}, Bound: sc.bound(), Shards: nshards, FinalStates: map[string]bool{}, BoundDone: -1}
	t0 := time.Now()
	c0 := cpuSeconds()
	defer func() { st.WallS = time.Since(t0).Seconds(); st.CPUS = cpuSeconds() - c0 }()
	seq := sc.sequential()
	st.SeqOrders, st.SeqOutcomes = seq.Orders, len(seq.Outcomes)
	if shard == 0 {
		for _, order := range seq.Outcomes {
			_ = order
		}
	}
	branch := map[string]bool{}
	writerSec := map[string]bool{} // Lock sites of ChainDatabase.RW whose section is not a pure read section
	for _, s := range seeds {
		if strings.HasPrefix(s, "W:") {
			writerSec[s[2:]] = true
		} else {
			branch[s] = true
		}
	}
	// classes.json: classes learned by earlier runs, keyed by label (no line numbers). Only an accelerator:
	// a class too many costs schedules, a class missing is learned again (with a restart).
	known := knownClasses()[sc.Name]
	readSection := func(site string) bool {
		if writerSec[site] || !strings.HasPrefix(site, "store/chain_database.go:") {
			return false
		}
		si := info(site)
		return si.Expr == "RW" && !known["W:"+si.Func]
	}
	learnBudget := 120 // executions of the deterministic learning phase (identical in every shard)
	var cur *inst
	var curBG []bgTask
	for {
		// ---- learning phase: unsharded, the same in every shard, until no new class shows up
		learning := true
		execsInPhase := 0
		var added []string
		ex := &sched.XExplorer{Bound: sc.bound(), Deadline: core.OutOfTime, Alternate: true}
		ex.Cfg = sched.XCfg{Watchdog: watchdog, Learn: true, AtomicLoad: atomicLoad, ReadSection: readSection, AccessWrite: storeWrite, NoRace: storeProxy,
			Branch: func(site string, kind sched.OpKind) bool {
				return fullBranch || branch[sched.BranchKey(site, kind)] || known[label(sched.XKindName(kind), site)]
			}}
		ex.Setup = func(s *sched.Sched) func(*sched.XExec, []sched.XChoice) {
			debug.SetGCPercent(-1)
			cur, curBG = sc.prepare()
			sc.startThreads(s, cur, curBG)
			return func(x *sched.XExec, dev []sched.XChoice) {
				sc.check(r, st, seq, cur, x, dev, !learning)
				cur.destroy()
				cur = nil
				debug.SetGCPercent(100)
				if x.Steps > 0 && (execsInPhase&3) == 3 {
					runtime.GC()
				}
			}
		}
		ex.AfterExec = func(x *sched.XExec, dev []sched.XChoice) bool {
			execsInPhase++
			a := newClasses(x.Unprotected(branch), known)
			for site := range x.NotReadSection {
				if !writerSec[site] {
					writerSec[site] = true
					a = append(a, "W:"+site)
				}
			}
			if len(a) > 0 {
				added = append(added, a...)
				return true // restart with the larger set
			}
			return learning && execsInPhase >= learnBudget
		}
		ex.Explore()
		if len(added) > 0 {
			st.Restarts++
			continue
		}
		if ex.Truncated {
			st.Truncated = true
			break
		}
		// ---- the real pass
		learning = false
		execsInPhase = 0
		st.Outcomes = map[string]int{}
		ex2 := &sched.XExplorer{Bound: sc.bound(), Deadline: core.OutOfTime, Shard: shard, NShards: nshards, Cfg: ex.Cfg, Setup: ex.Setup}
		late := false
		ex2.AfterExec = func(x *sched.XExec, dev []sched.XChoice) bool {
			a := newClasses(x.Unprotected(branch), known)
			for site := range x.NotReadSection {
				if !writerSec[site] {
					writerSec[site] = true
					a = append(a, "W:"+site)
				}
			}
			if len(a) > 0 {
				st.LateSites = append(st.LateSites, a...)
				late = true
				return true
			}
			return false
		}
		ex2.Explore()
		st.Schedules = ex2.Execs
		st.Steps = ex2.Steps
		st.Expanded = ex2.Expanded
		st.PrunedAtSeen = ex2.Pruned
		st.MaxPreempt = ex2.MaxPreempt
		st.BoundDone = ex2.BoundDone
		st.Truncated = ex2.Truncated
		if ex2.Infra != "" {
			r.NotExhaustive("scheduler trouble in " + sc.Name + ": " + ex2.Infra)
		}
		if late {
			st.BoundDone = -1
		}
		break
	}
	for k := range branch {
		kind := k[strings.LastIndex(k, "/")+1:]
		st.BranchSites = append(st.BranchSites, label(kind, k[:strings.LastIndex(k, "/")]))
	}
	sort.Strings(st.BranchSites)
	st.BranchSites = uniq(st.BranchSites)
	for k := range writerSec {
		st.WriterSections = append(st.WriterSections, info(k).Func)
	}
	for k := range known {
		if strings.HasPrefix(k, "W:") {
			st.WriterSections = append(st.WriterSections, k[2:])
		} else {
			st.BranchSites = append(st.BranchSites, k)
		}
	}
	sort.Strings(st.BranchSites)
	st.BranchSites = uniq(st.BranchSites)
	sort.Strings(st.WriterSections)
	st.WriterSections = uniq(st.WriterSections)
	st.Distinct = len(st.Outcomes)
	for o := range st.Outcomes {
		if _, ok := seq.Outcomes[o]; ok {
			st.SeqReached++
		}
	}
	st.DistinctFinals = len(st.FinalStates)
	return st
}

// cpuSeconds is the user+system CPU time of this process so far (a worker runs its units one after the other).
func cpuSeconds() float64 {
	var ru syscall.Rusage
	if syscall.Getrusage(syscall.RUSAGE_SELF, &ru) != nil {
		return 0
	}
	return float64(ru.Utime.Sec+ru.Stime.Sec) + float64(ru.Utime.Usec+ru.Stime.Usec)/1e6
}

const classesFile = "/verif/mc/props/c19/classes.json"

var (
	classesOnce sync.Once
	knownSets   = map[string]map[string]bool{}
)

func knownClasses() map[string]map[string]bool {
	classesOnce.Do(func() {
		if os.Getenv("VERIF_C19_NO_CLASSES") != "" {
			return
		}
		b, err := os.ReadFile(classesFile)
		if err != nil {
			return
		}
		m := map[string][]string{}
		if json.Unmarshal(b, &m) != nil {
			return
		}
		for sc, l := range m {
			knownSets[sc] = map[string]bool{}
			for _, k := range l {
				knownSets[sc][k] = true
			}
		}
	})
	return knownSets
}

// The field ChainDatabase.Beansdb is announced as a stand-in for the store's records: every function
// of chain_database.go that goes to the store reads that pointer first. Functions that write through it
// count as writers. The store synchronises itself, so unordered accesses are not data races; they are
// dependent operations (read-modify-write sequences must not interleave) and preemption points when no
// common lock excludes them.
func storeProxy(site string) bool { return info(site).Expr == "Beansdb" }

func storeWrite(site string) bool {
	si := info(site)
	if si.Expr != "Beansdb" {
		return false
	}
	for _, f := range []string{"setBlock2DB(", "blockCommit(", "SetContractCode("} {
		if strings.HasPrefix(si.Func, f) {
			return true
		}
	}
	return false
}

// newClasses drops the keys ("site/kind") whose class is in the accelerator file already.
func newClasses(keys []string, known map[string]bool) []string {
	var out []string
	for _, k := range keys {
		i := strings.LastIndex(k, "/")
		if !known[label(k[i+1:], k[:i])] {
			out = append(out, k)
		}
	}
	return out
}

func uniq(l []string) []string {
	var out []string
	for i, s := range l {
		if i == 0 || s != l[i-1] {
			out = append(out, s)
		}
	}
	return out
}

var gateMu sync.Mutex

// check evaluates the oracles on one finished execution.
func (sc *scenario) check(r *core.Result, st *scStats, seq seqResult, in *inst, x *sched.XExec, dev []sched.XChoice, count bool) {
	rp := replayRec{Scenario: sc.Name, Dev: dev}
	s := x.S
	if s.Stuck != "" || s.Diverged != "" {
		return
	}
	if count {
		r.Add("evaluations", 1)
		r.Add("transitions", int64(x.Steps))
		for k, n := range x.SiteHits {
			i := strings.Index(k, "@")
			r.Add("access/"+label(k[:i], k[i+1:]), int64(n))
		}
		for k := sched.OpKind(0); k < 12; k++ {
			if x.Kinds[k] > 0 {
				r.Add("points/"+sched.XKindName(k), int64(x.Kinds[k]))
			}
		}
		for _, n := range x.Threads {
			st.Threads[shortName(n)]++
		}
		if len(x.Threads) > st.MaxThreads {
			st.MaxThreads = len(x.Threads)
		}
		st.FinalStates[string(x.Final[:])] = true
	}
	if s.Deadlock != "" {
		r.Violate(prop+"/deadlock/"+sc.Name, "scenario "+sc.Name+": deadlock: "+s.Deadlock, rp)
		return
	}
	for _, p := range s.Panics() {
		first := strings.SplitN(p, "\n", 2)[0]
		if i := strings.Index(first, ": "); i >= 0 && strings.HasPrefix(first, "thread ") {
			first = shortName(first[len("thread "):i]) + ": " + first[i+2:] // "thread T1>judge#0: msg" -> "judge: msg"
		}
		r.Violate(prop+"/panic/"+sc.Name+"/"+clip(first, 120), "scenario "+sc.Name+": panic in a controlled thread: "+clip(p, 1500), rp)
	}
	for _, rc := range x.Races {
		fp, what := raceFP(rc)
		r.Violate(fp, "scenario "+sc.Name+": data race: "+what, rp)
	}
	for _, site := range x.RecursiveRL {
		r.Violate(prop+"/recursive-read-lock/"+label("rlock", site), "scenario "+sc.Name+": a thread read-locks an RWMutex it already read-holds ("+label("rlock", site)+"): deadlocks as soon as a writer queues up in between", rp)
	}
	if len(s.Panics()) > 0 {
		return
	}
	ob := in.observe()
	for _, b := range ob.Bad {
		r.Violate(prop+"/bad-signature/"+sc.Name+"/"+b[0], "scenario "+sc.Name+": "+b[1]+"; outcome: "+ob.Outcome, rp)
	}
	if _, ok := seq.Outcomes[ob.Outcome]; !ok {
		var l []string
		for o := range seq.Outcomes {
			l = append(l, o)
		}
		sort.Strings(l)
		r.Violate(prop+"/not-sequential/"+sc.Name+"/"+diffKey(ob.Outcome, l), "scenario "+sc.Name+": the outcome is not the outcome of any sequential order of the same units. got: "+ob.Outcome+" ;; sequential outcomes: "+strings.Join(l, " ;; "), rp)
	}
	if count {
		st.Outcomes[ob.Outcome]++
		if st.Outcomes[ob.Outcome] == 1 {
			r.Outcome(sc.Name + "=>" + core.Hash(ob.Outcome))
			if len(st.Outcomes) <= 2 {
				r.Sample(map[string]interface{}{"scenario": sc.Name, "schedule": dev, "preemptions": x.Preemptions, "outcome": ob.Outcome})
			}
		}
	}
}

// diffKey names the fields of the outcome that differ from the nearest sequential outcome.
func diffKey(got string, seq []string) string {
	gf := strings.Split(got, " | ")
	best := []string{"all"}
	bestN := 1 << 30
	for _, s := range seq {
		sf := strings.Split(s, " | ")
		var d []string
		for i := range gf {
			if i >= len(sf) || gf[i] != sf[i] {
				k := gf[i]
				if !(len(k) > 2 && k[0] == 'T' && k[1] >= '0' && k[1] <= '9') { // a request's result stays whole, a state field gives its name
					if j := strings.IndexAny(k, "=:"); j > 0 {
						k = k[:j]
					}
				}
				d = append(d, k)
			}
		}
		if len(d) < bestN {
			bestN, best = len(d), d
		}
	}
	return strings.Join(best, "+")
}

func clip(s string, n int) string {
	if len(s) > n {
		return s[:n] + " …"
	}
	return s
}

// ---------------------------------------------------------------------------------------------
// determinism gate

func (sc *scenario) gate() (ok bool, why string) {
	run := func(inline bool) ([]string, string, *sched.XExec) {
		inlineOff = !inline
		defer func() { inlineOff = false }()
		var in *inst
		x := sched.RunX(sched.XCfg{Watchdog: watchdog, Trace: true, AtomicLoad: atomicLoad, AccessWrite: storeWrite, NoRace: storeProxy, Branch: func(string, sched.OpKind) bool { return false }}, func(s *sched.Sched) {
			var bg []bgTask
			in, bg = sc.prepare()
			sc.startThreads(s, in, bg)
		})
		out := ""
		if x.S.Stuck == "" && x.S.Deadlock == "" && len(x.S.Panics()) == 0 {
			out = in.observe().Outcome
		}
		in.destroy()
		return x.Trace, out, x
	}
	t1, o1, x1 := run(true)
	t2, o2, _ := run(true)
	if x1.S.Stuck != "" {
		return false, "first schedule of " + sc.Name + ": " + x1.S.Stuck
	}
	if strings.Join(t1, "\n") != strings.Join(t2, "\n") {
		for i := range t1 {
			if i >= len(t2) || t1[i] != t2[i] {
				return false, fmt.Sprintf("first schedule of %s executed twice: traces differ at step %d: %q vs %q", sc.Name, i, t1[i], safeIdx(t2, i))
			}
		}
		return false, "first schedule of " + sc.Name + " executed twice: traces differ in length"
	}
	if o1 != o2 {
		return false, "first schedule of " + sc.Name + " executed twice: outcomes differ: " + o1 + " ;; " + o2
	}
	// the inlined goroutines pass no scheduling point
	t3, _, x3 := run(false)
	per := map[string]int{}
	for _, e := range t3 {
		per[e[:strings.Index(e, ":")]]++
	}
	for _, n := range x3.Threads {
		if inlineKinds[shortName(n)] && per[n] != 1 {
			return false, fmt.Sprintf("scenario %s: goroutine %s is run inline at its go statement but passes %d scheduling points", sc.Name, n, per[n]-1)
		}
	}
	return true, ""
}

func safeIdx(l []string, i int) string {
	if i < len(l) {
		return l[i]
	}
	return "(end)"
}

// ---------------------------------------------------------------------------------------------

type unit struct {
	Scenario int
	Shard    int
	NShards  int
}

func units() []unit {
	var us []unit
	for i := range scenarios {
		if scenarios[i].Thorough && !core.Thorough() {
			continue
		}
		for sh, n := 0, scenarios[i].shards(); sh < n; sh++ {
			us = append(us, unit{i, sh, n})
		}
	}
	return us
}

// weight estimates the work of one unit (thousand scheduling steps): its share of the scenario's exploration plus
// what every shard repeats (sequential reference, learning pass of 120 schedules).
func (u unit) weight() float64 {
	sc := &scenarios[u.Scenario]
	c := sc.CostQuick
	if core.Thorough() {
		c = sc.CostThor
	}
	if c <= 0 {
		c = 100
	}
	return float64(c)/float64(u.NShards) + 30
}

// assign spreads the units over n workers: heaviest unit first, each to the worker with the least work so far
// (deterministic: ties go to the lower scenario / shard / worker number). A worker runs its units lightest first.
func assign(n int) [][]unit {
	us := units()
	sort.SliceStable(us, func(a, b int) bool { return us[a].weight() > us[b].weight() })
	out := make([][]unit, n)
	load := make([]float64, n)
	for _, u := range us {
		w := 0
		for i := 1; i < n; i++ {
			if load[i] < load[w] {
				w = i
			}
		}
		out[w] = append(out[w], u)
		load[w] += u.weight()
	}
	// lightest first: when the budget cuts the run, it cuts the heavy scenarios (which have completed their lower
	// preemption bounds by then: the search is best-first in the number of preemptions), not the light ones
	for _, l := range out {
		sort.SliceStable(l, func(a, b int) bool { return l[a].weight() < l[b].weight() })
	}
	return out
}

type workerExtra struct {
	Stats map[string]*scStats `json:"stats"`
}

func seedsFile() map[string][]string {
	m := map[string][]string{}
	if p := os.Getenv("VERIF_C19_SEEDS"); p != "" {
		if b, err := os.ReadFile(p); err == nil {
			json.Unmarshal(b, &m)
		}
	}
	return m
}

func runWorker(i, n int) {
	r := core.NewResult(prop, "model_checking")
	theWorld = buildWorld()
	installHook()
	seeds := seedsFile()
	only := os.Getenv("VERIF_C19_ONLY")
	for _, u := range assign(n)[i] {
		sc := &scenarios[u.Scenario]
		if only != "" && !strings.Contains(","+only+",", ","+sc.Name+",") {
			continue
		}
		core.Journal(fmt.Sprintf("scenario %s shard %d/%d", sc.Name, u.Shard, u.NShards))
		if u.Shard == 0 {
			if ok, why := sc.gate(); !ok {
				r.Extra["gate-failed/"+sc.Name] = why
				continue
			}
		}
		st := sc.explore(r, u.Shard, u.NShards, seeds[sc.Name])
		b, _ := json.Marshal(st)
		r.Extra[fmt.Sprintf("unit/%s/%d", sc.Name, u.Shard)] = json.RawMessage(b)
		oc, _ := json.Marshal(st.Outcomes)
		r.Extra[fmt.Sprintf("outcomes/%s/%d", sc.Name, u.Shard)] = json.RawMessage(oc)
		if len(st.LateSites) > 0 {
			r.Extra[fmt.Sprintf("late/%s/%d", sc.Name, u.Shard)] = st.LateSites
		}
	}
	hookMu.Lock()
	for k, v := range spawnHits {
		r.Add(k, v)
	}
	hookMu.Unlock()
	core.WorkerDone(r)
}

func main() {
	core.ParseFlags()
	node.Quiet()
	if n := os.Getenv("VERIF_C19_TIMING"); n != "" {
		timing(n)
		return
	}
	if os.Getenv("VERIF_C19_FREERUN") != "" {
		freeRun()
		return
	}
	if core.Opt.Replay != "" {
		replay()
		return
	}
	if i, n, ok := core.IsWorker(); ok {
		runWorker(i, n)
		return
	}
	parent()
}

//go:build verif
// +build verif

package miner

import (
	"sync/atomic"

	"github.com/LemoFoundationLtd/lemochain-core/chain/types"
)

// This file is compiled only with the "verif" build tag. It lets the verification harness in
// /verif (property C13) drive the unexported scheduling path of the miner - schedule, the mine
// timer callback, sealBlock - one step at a time instead of through the goroutine of runMineLoop.
// It adds no behaviour of its own.

// VerifSchedule calls schedule: arm the mine timer for the block after parentBlock.
func (m *Miner) VerifSchedule(parentBlock *types.Block) bool {
	return m.schedule(parentBlock)
}

// VerifSetMining sets the flag that Start / Stop toggle (the mine timer callback only acts when it is 1).
func (m *Miner) VerifSetMining(on bool) {
	v := int32(0)
	if on {
		v = 1
	}
	atomic.StoreInt32(&m.mining, v)
}

// VerifMiningFlag reads the raw flag (IsMining also asks whether the node is a deputy).
func (m *Miner) VerifMiningFlag() bool {
	return atomic.LoadInt32(&m.mining) == 1
}

// VerifTimeToMineCh is the channel on which the mine timer callback tells runMineLoop to seal.
func (m *Miner) VerifTimeToMineCh() <-chan *MineInfo {
	return m.timeToMineCh
}

// VerifStopCh is the channel on which Stop tells runMineLoop to return (Stop blocks until it is received).
func (m *Miner) VerifStopCh() <-chan struct{} {
	return m.stopCh
}

// VerifEndOfMineWindow reads the only field of MineInfo.
func (mi *MineInfo) VerifEndOfMineWindow() int64 {
	return mi.endOfMineWindow
}

// VerifSealBlock calls sealBlock, which is what runMineLoop does with a received MineInfo.
func (m *Miner) VerifSealBlock(endOfMineWindow int64) {
	m.sealBlock(endOfMineWindow)
}

// VerifIsSelfDeputyNode calls isSelfDeputyNode.
func (m *Miner) VerifIsSelfDeputyNode() bool {
	return m.isSelfDeputyNode()
}

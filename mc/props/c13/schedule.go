// C13, phase "schedule": the miner's own composition of the scheduling functions.
//
// The grid in main.go calls the pure functions with the harness's own height / distance arguments,
// so it cannot see a defect in how (*Miner).schedule puts them together (which height it asks the
// deputy manager about, which block's miner and time it takes, milliseconds vs seconds, which timer
// it arms). This phase drives the real
//
//	S1  (*Miner).schedule(parentBlock)            -> resetMineTimer -> mine timer callback -> MineInfo
//	S2  (*Miner).Start() -> schedule(CurrentBlock) -> mine timer -> sealBlock -> Chain.MineBlock
//	                     -> retry timer -> schedule(CurrentBlock) again -> mine timer ... (3 retries)
//
// under a harness-owned clock: chain/miner is built with the instrumentation passes `time` (time.Now
// and time.AfterFunc go through verifmc/vclock; an armed timer is a pending vtask "timer:<duration>"
// whose callback the harness runs when it wants) and `go` (the goroutine of runMineLoop is dropped:
// the harness plays the loop, it receives the MineInfo the timer callback sends and calls sealBlock).
// The hooks are in /repo/chain/miner/schedule_verif.go.
//
// What is enumerated (no sampling), per world = a deputy manager with three terms:
//
//	term sizes            (a,b,a): the deputy count changes a->b at the first block of term 1 (height 14)
//	                      and b->a at the first block of term 2 (height 24); quick {2,3} {3,5} {1,4} {3,3},
//	                      thorough every 1 <= a <= b <= 7
//	list variant          "exact": DeputyCount 64;  "capped": DeputyCount = max(a,b) and every term record of
//	                      that size carries 2 candidate nodes beyond the cap (the smaller term is uncapped);
//	                      "capped-all" (a == b only): every record carries 2 candidates
//	slot                  1000, 3000, 10000 ms
//	target height         the grid's 16 heights (1, 2, I+1, mid, snapshot, last block of a term's rule, FIRST
//	                      block of a term, the block after it; terms 0,1,2)
//	parent miner          every deputy of the target term, every deputy of the previous term (incl. the ones
//	                      that are no longer deputies), an unknown key, a candidate beyond the cap, a member
//	                      of the next term
//	scheduling node       every deputy of the target term (process-global self key) + nodes that are not
//	                      deputies at the target height (unknown key, candidate beyond the cap, deputy of
//	                      the previous term that left)
//	clock                 S1: the grid's offsets now - parent.time (every second of 3 rounds with ms deltas,
//	                      slot edges after 10^3 / 10^6 rounds, parent up to 2.5 s in the future);
//	                      S2: every slot edge of the first round (+0, +500, slot-1 ms) and parent 1 s in the
//	                      future, then whatever instants the miner's own timers lead to
//	block interval        1, slot/3, slot-1 ms (ReservedPropagationTime = (slot-interval)/3 as main/node does)
//	S2 only               tx pool non-empty / empty (the 500 ms poll of waitCanPackageTx advances the clock),
//	                      current block replaced by a sibling of another miner before the retry timer fires
//
// Oracle (same reference rotation as the grid): schedule arms a timer iff the node is a deputy at the
// target height; wake = now + wait lies in [max(now, from), to) of the node's EARLIEST reference slot
// that has not ended at `now`; the MineInfo carries to; for every whole-second stamp PrepareHeader can
// write from wake to the end the real Validator.VerifyMiner accepts this deputy's block and nobody
// else's. For the retry path the parent is what Chain.CurrentBlock() returns when the retry fires.
package main

import (
	"crypto/ecdsa"
	"encoding/json"
	"fmt"
	"math/big"
	"os"
	"runtime/debug"
	"runtime/pprof"
	"sort"
	"strings"
	"sync"
	"time"

	"github.com/LemoFoundationLtd/lemochain-core/chain/consensus"
	"github.com/LemoFoundationLtd/lemochain-core/chain/deputynode"
	"github.com/LemoFoundationLtd/lemochain-core/chain/miner"
	"github.com/LemoFoundationLtd/lemochain-core/chain/types"
	"github.com/LemoFoundationLtd/lemochain-core/common"
	"github.com/LemoFoundationLtd/lemochain-core/common/subscribe"

	"verifmc/core"
	"verifmc/node"
	"verifmc/vclock"
	"verifmc/vtask"
)

const ghostIdx = maxKeys // key index of the unknown key

// The parent's time in this phase. Deliberately not a round number: 1600000000 s (the grid's parent)
// minus its own thousandth is a multiple of every round length n*slot used here, which would make a
// seconds-for-milliseconds mix-up in the miner land on the right slot grid by coincidence.
const schedParentSec = uint32(1600000007)

var keyPriv [maxKeys + 1]*ecdsa.PrivateKey

func initSchedKeys() {
	for i := 0; i < maxKeys; i++ {
		keyPriv[i] = node.Deputy(i).Priv
	}
	keyPriv[ghostIdx] = node.K("ghost").Priv
}

func addrOf(k int) common.Address {
	if k == ghostIdx {
		return ghost
	}
	return keyAddr[k]
}

type schedItem struct {
	Sizes   [3]int `json:"term_sizes"`   // nodes in the term record of term 0, 1, 2
	Count   int    `json:"deputy_count"` // Manager.DeputyCount
	Variant string `json:"variant"`
	Slot    int64  `json:"slot_ms"`
	H       uint32 `json:"height"`
}

type schedCase struct {
	Phase    string    `json:"phase"` // "schedule" (S1) | "lifecycle" (S2)
	Item     schedItem `json:"item"`
	Parent   int       `json:"parent"`   // index into the world's parent list
	Self     int       `json:"self"`     // index into the world's list of scheduling nodes
	Offset   int64     `json:"offset"`   // now - parent.time when the (first) schedule call is made, ms
	Interval int64     `json:"interval"` // configured block interval, ms
	Pool     string    `json:"pool,omitempty"`
	Switch   bool      `json:"switch,omitempty"`
	Step     string    `json:"step,omitempty"`
	Stamp    int64     `json:"stamp,omitempty"`
	Detail   string    `json:"detail,omitempty"`
}

// ---------------------------------------------------------------------------------------------
// world

type sworld struct {
	dm      *deputynode.Manager
	n       int              // deputies of the target height's term (what the reference uses)
	oldN    int              // deputies of the previous term (0 in the genesis term)
	D       []common.Address // by rank
	parents []int            // key indices: D, then the others
	pName   []string
	selves  []int // key indices: D, then nodes that are not deputies at the target height
	sName   []string
}

func effCount(size, count int) int {
	if size > count {
		return count
	}
	return size
}

func buildSchedWorld(it schedItem) *sworld {
	dm := deputynode.NewManager(it.Count, noBlocks{})
	w := &sworld{dm: dm}
	var rec [3][]int
	for t := 0; t < 3; t++ {
		m := it.Sizes[t]
		nodes := make(types.DeputyNodes, m)
		for j := 0; j < m; j++ {
			k := termKeyIdx(t, m, j)
			rec[t] = append(rec[t], k)
			nodes[j] = &types.DeputyNode{MinerAddress: keyAddr[k], NodeID: keyNodeID[k], Rank: uint32(j), Votes: big.NewInt(int64(1000 - j))}
		}
		dm.SaveSnapshot(uint32(t)*termDur, nodes)
	}
	tau := refTerm(it.H)
	w.n = effCount(it.Sizes[tau], it.Count)
	inD := map[int]bool{}
	for _, k := range rec[tau][:w.n] {
		w.D = append(w.D, keyAddr[k])
		w.parents = append(w.parents, k)
		w.pName = append(w.pName, "deputy")
		w.selves = append(w.selves, k)
		w.sName = append(w.sName, "deputy")
		inD[k] = true
	}
	usedP := map[int]bool{}
	addP := func(k int, name string) {
		if !inD[k] && !usedP[k] {
			usedP[k] = true
			w.parents = append(w.parents, k)
			w.pName = append(w.pName, name)
		}
	}
	usedS := map[int]bool{}
	addS := func(k int, name string) {
		if !inD[k] && !usedS[k] {
			usedS[k] = true
			w.selves = append(w.selves, k)
			w.sName = append(w.sName, name)
		}
	}
	addP(ghostIdx, "unknown-key")
	addS(ghostIdx, "unknown-key")
	if tau > 0 {
		w.oldN = effCount(it.Sizes[tau-1], it.Count)
		first := true
		for _, k := range rec[tau-1][:w.oldN] {
			addP(k, "deputy-of-previous-term-only")
			if first && !inD[k] {
				addS(k, "deputy-of-previous-term-only")
				first = false
			}
		}
	}
	if len(rec[tau]) > w.n {
		addP(rec[tau][w.n], "candidate-beyond-cap")
		addS(rec[tau][w.n], "candidate-beyond-cap")
	}
	nx := append([]int{}, rec[(tau+1)%3]...)
	sort.Ints(nx)
	for _, k := range nx {
		if !inD[k] && !usedP[k] {
			addP(k, "member-of-another-term")
			break
		}
	}
	return w
}

// ---------------------------------------------------------------------------------------------
// fakes behind the miner's Chain and TxPool interfaces

type mineCall struct{ at, timeout int64 }

type fakeChain struct {
	cur   *types.Block
	calls []mineCall
}

func (c *fakeChain) CurrentBlock() *types.Block { return c.cur }

// MineBlock records the instant and fails (no new block appears), which is what leaves the retry timer armed.
func (c *fakeChain) MineBlock(timeout int64) {
	c.calls = append(c.calls, mineCall{vclock.Now().UnixNano() / 1e6, timeout})
}

type fakePool struct {
	empty bool
	polls int
}

// IsEmpty: an empty pool makes waitCanPackageTx sleep 500 ms and look again; vclock.Sleep does not
// advance virtual time, so the poll itself does.
func (p *fakePool) IsEmpty() bool {
	if !p.empty {
		return false
	}
	p.polls++
	if p.polls > 100000 { // a window end absurdly far away (only under a deliberate breakage): stop waiting
		return false
	}
	vclock.Set(vclock.Now().Add(500 * time.Millisecond))
	return true
}

// ---------------------------------------------------------------------------------------------

type pview struct {
	idx   int
	kind  string // "deputy" | "non-deputy"
	hdr   *types.Header
	blk   *types.Block
	P     int64 // parent time, ms
	start int   // reference: rank owning slot 0, -1 = not a state of any chain
	table []int
	far   map[int64]int
}

type srun struct {
	it      schedItem
	w       *sworld
	r       *core.Result
	val     *consensus.Validator
	hc      string
	rel     string // relation of the deputy counts across the term change at this height
	addrs   []common.Address
	pairKey string // counter of schedule calls at the first block of a term, per (old count -> new count)
	seenFP  map[string]bool
	cnt     map[string]int64
	out     map[string]bool
	nVerify int64
}

func (x *srun) violate(fp, what string, c schedCase) {
	x.cnt["violations_seen"]++
	if x.seenFP[fp] {
		return
	}
	x.seenFP[fp] = true
	x.r.Violate("C13/"+fp, what, c)
	progress.Lock()
	progress.viols = append(progress.viols, core.Violation{Fingerprint: "C13/" + fp, What: what, Replay: c})
	progress.Unlock()
}

// progress is what the shard's watchdog needs to hand in a partial result when the thread that runs
// the cases blocks inside the code under test (e.g. on one of the miner's unbuffered channels).
var progress struct {
	sync.Mutex
	viols []core.Violation
	item  string
	at    time.Time
	done  int
}

func watchdog(i, n int) {
	for {
		time.Sleep(5 * time.Second)
		progress.Lock()
		idle := time.Since(progress.at)
		over := time.Since(core.Opt.Start) > core.Opt.Budget+90*time.Second
		if idle < 4*time.Minute && !over {
			progress.Unlock()
			continue
		}
		// Not an oracle: the shard is reported as incomplete, with the violations it had found.
		r := core.NewResult("C13", "exploration")
		for _, v := range progress.viols {
			r.Violate(v.Fingerprint, v.What, v.Replay)
		}
		r.NotExhaustive(fmt.Sprintf("schedule phase: shard %d/%d made no progress for %v inside {%s} after %d items (blocked in the code under test, or the machine is overloaded); partial result", i, n, idle.Round(time.Second), progress.item, progress.done))
		core.WorkerDone(r)
	}
}

// accepted: which of the offered miners VerifyMiner accepts for a header stamped sec seconds after
// the parent header (index into the world's parent list; -1 none, -2 several).
func (x *srun) accepted(pv *pview, sec int64) int {
	if sec >= 0 && sec < int64(len(pv.table)) && pv.table[sec] != -3 {
		return pv.table[sec]
	}
	if v, ok := pv.far[sec]; ok {
		return v
	}
	got := -1
	for xi, a := range x.addrs {
		hd := &types.Header{Height: x.it.H, Time: uint32(int64(pv.hdr.Time) + sec), MinerAddress: a}
		x.nVerify++
		if x.val.VerifyMiner(hd, pv.hdr) == nil {
			if got == -1 {
				got = xi
			} else {
				got = -2
			}
		}
	}
	if sec >= 0 && sec < int64(len(pv.table)) {
		pv.table[sec] = got
	} else {
		pv.far[sec] = got
	}
	return got
}

func (x *srun) accName(i int) string {
	switch {
	case i == -1:
		return "nobody"
	case i == -2:
		return "more than one miner"
	case i < x.w.n:
		return fmt.Sprintf("rank %d", i)
	}
	return "non-deputy " + x.w.pName[i]
}

func timerMs(site string) (int64, bool) {
	if !strings.HasPrefix(site, "timer:") {
		return 0, false
	}
	d, err := time.ParseDuration(site[len("timer:"):])
	if err != nil || d%time.Millisecond != 0 {
		return 0, false
	}
	return int64(d / time.Millisecond), true
}

// fire runs pending task idx (a timer callback). The mine timer callback sends on the unbuffered
// timeToMineCh when mining == 1, so it runs on a helper goroutine while this one plays runMineLoop's
// receive. No timing involved: either the send or the callback's return happens.
func fire(m *miner.Miner, idx int) (end int64, sent bool, pan interface{}) {
	done := make(chan interface{}, 1)
	go func() {
		defer func() { done <- recover() }()
		vtask.Run(idx)
	}()
	select {
	case mi := <-m.VerifTimeToMineCh():
		end, sent = mi.VerifEndOfMineWindow(), true
		pan = <-done
	case pan = <-done:
	}
	return
}

// startMiner runs Start(). When schedule fails Start calls Stop, which blocks until runMineLoop takes
// the stop signal: the harness, playing the loop, takes it.
func startMiner(m *miner.Miner) (stopped bool, pan interface{}) {
	done := make(chan interface{}, 1)
	go func() {
		defer func() { done <- recover() }()
		m.Start()
	}()
	select {
	case <-m.VerifStopCh():
		stopped = true
		pan = <-done
	case pan = <-done:
	}
	return
}

func overTag(pv *pview, n, di int, now, slot int64) string {
	pos := int64((di - pv.start + n) % n)
	if now >= pv.P+(pos+1)*slot {
		return "first-slot-over"
	}
	return "first-slot-open"
}

// checkArmed compares one armed mine timer (wait, end) chosen at `now` for the block after pv with the
// reference; returns false when it is wrong.
func (x *srun) checkArmed(where string, pv *pview, di int, now, wait, end int64, c schedCase) bool {
	n, slot := x.w.n, x.it.Slot
	rf, rt := refWindow(pv.start, n, di, pv.P, now, slot)
	lo := rf
	if now > lo {
		lo = now
	}
	wake := now + wait
	ot := overTag(pv, n, di, now, slot)
	x.cnt["sched_"+ot]++
	if end != rt || wait < 0 || wake < lo || wake >= rt {
		x.violate(fmt.Sprintf("sched/%s/timer-not-in-own-earliest-open-slot/%s/parent=%s/counts=%s/%s/%s", where, x.hc, pv.kind, x.rel, ot, edgeClass(now-pv.P, slot)),
			fmt.Sprintf("h=%d term sizes %v DeputyCount=%d (n=%d, previous term %d) slot=%d parent#%d(%s) node rank %d interval=%d now=parent+%dms: %s armed wait=%dms (wake parent+%d) endOfMineWindow=parent+%d; reference: earliest open slot of this deputy is [%d,%d)",
				x.it.H, x.it.Sizes, x.it.Count, n, x.w.oldN, slot, pv.idx, x.w.pName[pv.idx], di, c.Interval, now-pv.P, where, wait, wake-pv.P, end-pv.P, rf-pv.P, rt-pv.P), c)
		return false
	}
	rd := (rf - pv.P) / (int64(n) * slot)
	if rd > 3 {
		rd = 4
	}
	x.out[fmt.Sprintf("s:%s:%s:round=%d:running=%v", where, x.hc, rd, rf <= now)] = true
	switch {
	case wake > lo:
		x.out["s:sleep:interval-delay"] = true
	case wait == 0:
		x.out["s:sleep:mine-now"] = true
	default:
		x.out["s:sleep:wait-for-slot"] = true
	}
	ok := true
	for s := floorDiv(wake, 1000); s*1000 < end; s++ {
		st := s
		if st < int64(pv.hdr.Time) { // PrepareHeader never stamps before the parent
			st = int64(pv.hdr.Time)
		}
		x.cnt["sched_stamps_checked"]++
		if got := x.accepted(pv, st-int64(pv.hdr.Time)); got != di {
			c.Stamp = st - int64(pv.hdr.Time)
			x.violate(fmt.Sprintf("sched/%s/own-window-stamp-not-accepted-exclusively/%s/parent=%s/counts=%s/%s", where, x.hc, pv.kind, x.rel, ot),
				fmt.Sprintf("h=%d term sizes %v DeputyCount=%d (n=%d) slot=%d parent#%d node rank %d interval=%d now=parent+%dms: %s armed wake=parent+%d end=parent+%d; a block stamped parent+%ds inside that window: VerifyMiner accepts %s",
					x.it.H, x.it.Sizes, x.it.Count, n, slot, pv.idx, di, c.Interval, now-pv.P, where, wake-pv.P, end-pv.P, c.Stamp, x.accName(got)), c)
			ok = false
			break
		}
	}
	return ok
}

func setSelf(k int) { deputynode.SetSelfNodeKey(keyPriv[k]) }

func lifeOffsets(n int, slot int64) []int64 {
	l := []int64{-1000}
	for j := int64(0); j <= int64(n); j++ {
		for _, d := range []int64{0, 500, slot - 1} {
			l = append(l, j*slot+d)
		}
	}
	return l
}

const retries = 3

func runSchedItem(it schedItem, r *core.Result, onlyParent, onlySelf int, cnt map[string]int64, out map[string]bool) {
	w := buildSchedWorld(it)
	n, h, slot := w.n, it.H, it.Slot
	x := &srun{it: it, w: w, r: r, hc: heightClass(h), seenFP: map[string]bool{}, cnt: cnt, out: out}
	x.val = consensus.NewValidator(uint64(slot), nil, w.dm, nil, nil)
	x.rel = "n/a"
	if refFirstOfTerm(h) && h > 1 {
		switch {
		case w.oldN < n:
			x.rel = "old<new"
		case w.oldN > n:
			x.rel = "old>new"
		default:
			x.rel = "old=new"
		}
		x.pairKey = fmt.Sprintf("sched_pair_%dto%d", w.oldN, n)
	}
	cnt["sched_items"]++
	for _, k := range w.parents {
		x.addrs = append(x.addrs, addrOf(k))
	}
	tableLen := int64(4*n)*(slot/1000) + 3
	views := make([]*pview, len(w.parents))
	for pi, k := range w.parents {
		hd := &types.Header{Height: h - 1, Time: schedParentSec, MinerAddress: addrOf(k)}
		pv := &pview{idx: pi, kind: "deputy", hdr: hd, blk: &types.Block{Header: hd}, P: int64(schedParentSec) * 1000, far: map[int64]int{}}
		if pi >= n {
			pv.kind = "non-deputy"
		}
		pv.start = refStart(w.D, h, hd.MinerAddress)
		pv.table = make([]int, tableLen)
		for i := range pv.table {
			pv.table[i] = -3
		}
		views[pi] = pv
	}
	ivs := intervals(slot)
	_, nows := offsetsFor(n, slot)
	lifeNows := lifeOffsets(n, slot)
	cfg := func(bi int64) miner.MineConfig {
		return miner.MineConfig{SleepTime: bi, Timeout: slot, ReservedPropagationTime: (slot - bi) / 3}
	}
	defer func() { cnt["sched_calls_verify"] += x.nVerify }()

	for pi, pv := range views {
		if onlyParent >= 0 && pi != onlyParent {
			continue
		}
		for si, sk := range w.selves {
			if onlySelf >= 0 && si != onlySelf {
				continue
			}
			di := -1
			if si < n {
				di = si
			}
			cur := schedCase{Phase: "schedule", Item: it, Parent: pi, Self: si}
			func() {
				defer func() {
					if e := recover(); e != nil {
						cur.Detail = fmt.Sprint(e)
						x.violate(fmt.Sprintf("sched/panic/%s/%s", cur.Phase, x.hc), fmt.Sprintf("panic %v in phase %s step %s: %s", e, cur.Phase, cur.Step, firstRepoFrame(string(debug.Stack()))), cur)
					}
				}()
				setSelf(sk)
				x.s1(pv, di, ivs, nows, lifeNows, cfg, &cur)
				cur.Phase = "lifecycle"
				x.s2(views, pv, di, ivs, lifeNows, cfg, &cur)
			}()
		}
	}
}

// S1: schedule(parentBlock) called directly at every clock position.
func (x *srun) s1(pv *pview, di int, ivs, nows, few []int64, cfg func(int64) miner.MineConfig, cur *schedCase) {
	w, h, slot := x.w, x.it.H, x.it.Slot
	cnt := x.cnt
	ch := &fakeChain{cur: pv.blk}
	// the block interval only matters while the node's slot is the first one after the parent
	// (distance 1 and less than one slot elapsed): the quick tier runs the full clock grid with the
	// middle interval and, with the other two, every position up to the end of the first slot plus the
	// slot edges of the first round
	var early []int64
	for _, e := range nows {
		if e <= slot+1 {
			early = append(early, e)
		}
	}
	for _, e := range few {
		if e > slot+1 {
			early = append(early, e)
		}
	}
	for ii, bi := range ivs {
		m := miner.New(cfg(bi), ch, w.dm, &fakePool{})
		m.VerifSetMining(true)
		cur.Interval = bi
		if got := m.VerifIsSelfDeputyNode(); got != (di >= 0) {
			x.violate(fmt.Sprintf("sched/is-self-deputy-node/%s/self=%s", x.hc, w.sName[cur.Self]),
				fmt.Sprintf("h=%d term sizes %v DeputyCount=%d: isSelfDeputyNode()=%v for node %s (current block height %d)", h, x.it.Sizes, x.it.Count, got, w.sName[cur.Self], h-1), *cur)
		}
		at := nows
		if ii != 1 && !core.Thorough() {
			at = early
		}
		if di < 0 || pv.start < 0 {
			// the node is not a deputy (the clock is never read), or the parent's miner is not a deputy in
			// the middle of a term (nothing asserted): the slot edges of the first round are enough
			at = few
		}
		for _, e := range at {
			now := pv.P + e
			cur.Offset = e
			vclock.SetUnixMilli(now)
			vtask.Reset()
			ok := m.VerifSchedule(pv.blk)
			pend := vtask.Pending()
			cnt["evaluations"]++
			cnt["sched_calls_schedule"]++
			cnt["sched_height_"+x.hc]++
			if x.pairKey != "" {
				cnt[x.pairKey]++
			}
			armed := ok && len(pend) == 1
			if ok != (len(pend) == 1) || len(pend) > 1 {
				x.violate(fmt.Sprintf("sched/schedule/result-and-timer-disagree/%s", x.hc),
					fmt.Sprintf("h=%d parent#%d node %s now=parent+%dms: schedule returned %v, pending timers %v", h, pv.idx, w.sName[cur.Self], e, ok, pend), *cur)
				continue
			}
			if di < 0 {
				// not a deputy at the target height: must not arm anything
				cnt["sched_refused_not_deputy"]++
				x.out["s:refused:"+w.sName[cur.Self]] = true
				if armed {
					x.violate(fmt.Sprintf("sched/schedule/timer-armed-by-non-deputy/%s/self=%s", x.hc, w.sName[cur.Self]),
						fmt.Sprintf("h=%d term sizes %v DeputyCount=%d parent#%d: node %s is not a deputy at height %d but schedule armed %v", h, x.it.Sizes, x.it.Count, pv.idx, w.sName[cur.Self], h, pend), *cur)
				}
				continue
			}
			if pv.start < 0 {
				// parent miner is not a deputy of the term although the term did not change: not a state
				// of any chain; recorded only
				cnt["sched_unreachable_parent_observed"]++
				x.out[fmt.Sprintf("x:sched:parent-not-deputy-midterm:armed=%v", armed)] = true
				continue
			}
			if !armed {
				x.violate(fmt.Sprintf("sched/schedule/deputy-refused/%s/parent=%s", x.hc, pv.kind),
					fmt.Sprintf("h=%d term sizes %v DeputyCount=%d parent#%d(%s): deputy rank %d of the target height's term: schedule returned false, no timer", h, x.it.Sizes, x.it.Count, pv.idx, w.pName[pv.idx], di), *cur)
				continue
			}
			cnt["sched_timers_armed"]++
			wait, good := timerMs(pend[0])
			if !good {
				x.violate("sched/harness/timer-site", "cannot read the timer duration from "+pend[0], *cur)
				continue
			}
			end, sent, pan := fire(m, 0)
			if pan != nil {
				panic(pan)
			}
			if !sent {
				// the callback did not hand a MineInfo to the loop although mining == 1: the node will not
				// mine (no statement of C13 is about that), but the window end cannot be observed either
				cnt["sched_timer_callback_silent"]++
				x.out["x:sched:timer-callback-silent"] = true
				continue
			}
			cnt["sched_timers_fired"]++
			if after := vtask.Pending(); len(after) == 1 {
				if d, ok := timerMs(after[0]); ok {
					x.out[fmt.Sprintf("s:retry-timer=%d-slot", d/slot)] = true
					if d == slot {
						cnt["sched_retry_timer_armed"]++
					}
				}
			} else {
				x.out[fmt.Sprintf("s:after-fire-pending=%d", len(after))] = true
			}
			x.checkArmed("schedule", pv, di, now, wait, end, *cur)
		}
		// control: a stopped miner's timer callback does nothing
		if di >= 0 && pv.start >= 0 {
			vclock.SetUnixMilli(pv.P)
			vtask.Reset()
			if m.VerifSchedule(pv.blk) && len(vtask.Pending()) == 1 {
				m.VerifSetMining(false)
				_, sent, pan := fire(m, 0)
				if pan != nil {
					panic(pan)
				}
				x.out[fmt.Sprintf("s:stopped-miner:callback-sent=%v:pending-after=%d", sent, len(vtask.Pending()))] = true
				m.VerifSetMining(true)
			}
		}
	}
	vtask.Reset()
}

// S2: Start() -> mine timer -> sealBlock -> MineBlock fails -> retry timer -> schedule(CurrentBlock()) ...
func (x *srun) s2(views []*pview, pv *pview, di int, ivs, offs []int64, cfg func(int64) miner.MineConfig, cur *schedCase) {
	w, h, slot := x.w, x.it.H, x.it.Slot
	cnt := x.cnt
	if pv.start < 0 {
		return
	}
	// the sibling block that replaces the current block before the first retry: next reachable parent
	var alt *pview
	for k := 1; k < len(views); k++ {
		if c := views[(pv.idx+k)%len(views)]; c.start >= 0 {
			alt = c
			break
		}
	}
	type mode struct {
		pool string
		sw   bool
	}
	modes := []mode{{"non-empty", false}, {"empty", false}, {"non-empty", true}}
	for ii, bi := range ivs {
		cur.Interval = bi
		for mi, md := range modes {
			if md.sw && alt == nil {
				continue
			}
			if ii != 1 && mi != 0 && !core.Thorough() {
				continue // quick: empty pool and block switch only with the middle interval
			}
			cur.Pool, cur.Switch = md.pool, md.sw
			for _, e := range offs {
				cur.Offset, cur.Step = e, "start"
				now := pv.P + e
				ch := &fakeChain{cur: pv.blk}
				pool := &fakePool{empty: md.pool == "empty"}
				m := miner.New(cfg(bi), ch, w.dm, pool)
				vclock.SetUnixMilli(now)
				vtask.Reset()
				cnt["evaluations"]++
				cnt["life_cases"]++
				stopped, pan := startMiner(m)
				subscribe.ClearSub()
				if pan != nil {
					panic(pan)
				}
				if stopped && di < 0 {
					// a node that is not a deputy stopped its own miner: nothing in C13 is about that
					x.out["x:life:start-gave-up:self="+w.sName[cur.Self]] = true
					break
				}
				if stopped {
					cnt["life_start_gave_up"]++
					x.violate(fmt.Sprintf("sched/start/gave-up/%s/self=%s/parent=%s", x.hc, w.sName[cur.Self], pv.kind),
						fmt.Sprintf("h=%d term sizes %v DeputyCount=%d parent#%d(%s) node %s (rank %d): Start() found schedule failing and stopped the miner", h, x.it.Sizes, x.it.Count, pv.idx, w.pName[pv.idx], w.sName[cur.Self], di), *cur)
					break
				}
				pend := vtask.Pending()
				if di < 0 {
					cnt["life_start_not_deputy"]++
					x.out[fmt.Sprintf("l:start-not-deputy:mining-flag=%v:IsMining=%v:timers=%d", m.VerifMiningFlag(), m.IsMining(), len(pend))] = true
					if len(pend) != 0 {
						x.violate(fmt.Sprintf("sched/start/timer-armed-by-non-deputy/%s/self=%s", x.hc, w.sName[cur.Self]),
							fmt.Sprintf("h=%d term sizes %v DeputyCount=%d: node %s is not a deputy at height %d but Start armed %v", h, x.it.Sizes, x.it.Count, w.sName[cur.Self], h, pend), *cur)
					}
					break // the clock plays no role
				}
				pcur := pv
				where := "start"
				for k := 0; ; k++ {
					cur.Step = fmt.Sprintf("%s#%d", where, k)
					if len(pend) != 1 {
						x.violate(fmt.Sprintf("sched/%s/no-single-mine-timer/%s", where, x.hc),
							fmt.Sprintf("h=%d parent#%d rank %d now=parent+%dms step %s: pending timers %v, want exactly the mine timer", h, pcur.idx, di, now-pcur.P, cur.Step, pend), *cur)
						break
					}
					wait, good := timerMs(pend[0])
					if !good {
						x.violate("sched/harness/timer-site", "cannot read the timer duration from "+pend[0], *cur)
						break
					}
					cnt["life_timers_armed_"+where]++
					schedAt := now
					now += wait
					vclock.SetUnixMilli(now)
					end, sent, pan := fire(m, 0)
					if pan != nil {
						panic(pan)
					}
					if !sent {
						cnt["sched_timer_callback_silent"]++
						x.out["x:sched:timer-callback-silent"] = true
						break
					}
					if !x.checkArmed(where, pcur, di, schedAt, wait, end, *cur) {
						break
					}
					// runMineLoop's part: seal
					ch.calls = ch.calls[:0]
					pool.polls = 0
					m.VerifSealBlock(end)
					if len(ch.calls) != 1 {
						// not mining at all is not a statement of C13: recorded
						cnt["life_seal_without_single_mine_block_call"]++
						x.out[fmt.Sprintf("x:life:seal:mine-block-calls=%d", len(ch.calls))] = true
						break
					}
					cnt["life_seals"]++
					tm := ch.calls[0].at
					if tm < end {
						st := floorDiv(tm, 1000)
						if st < int64(pcur.hdr.Time) {
							st = int64(pcur.hdr.Time)
						}
						if got := x.accepted(pcur, st-int64(pcur.hdr.Time)); got != di {
							cur.Stamp = st - int64(pcur.hdr.Time)
							x.violate(fmt.Sprintf("sched/seal/stamp-not-accepted-exclusively/%s/parent=%s/pool=%s", x.hc, pcur.kind, md.pool),
								fmt.Sprintf("h=%d parent#%d rank %d step %s: MineBlock called at parent+%dms, inside the window ending parent+%d, stamp parent+%ds: VerifyMiner accepts %s",
									h, pcur.idx, di, cur.Step, tm-pcur.P, end-pcur.P, cur.Stamp, x.accName(got)), *cur)
							cur.Stamp = 0
							break
						}
						x.out["l:seal:"+md.pool+":inside-window"] = true
						cnt["life_seal_inside_window"]++
					} else {
						// waiting for transactions until end - reserved in 500 ms steps can overshoot the
						// window when reserved < 500 ms: outside the statement (the block is not mined inside
						// the window); recorded
						x.out["l:seal:"+md.pool+":at-or-after-window-end"] = true
						cnt["life_seal_after_window_end_observed"]++
					}
					if ch.calls[0].at+ch.calls[0].timeout > end {
						x.out["l:seal:tx-timeout-beyond-window-end"] = true
					}
					if tm > now {
						now = tm
					}
					if k == retries {
						break
					}
					// MineBlock failed: the retry timer armed by the mine timer callback is pending
					pend = vtask.Pending()
					if len(pend) != 1 {
						// whether and when the miner tries again is not a statement of C13: recorded
						cnt["life_no_single_retry_timer"]++
						x.out[fmt.Sprintf("x:life:no-single-retry-timer:pending=%d", len(pend))] = true
						break
					}
					rdur, good := timerMs(pend[0])
					if !good {
						x.violate("sched/harness/timer-site", "cannot read the timer duration from "+pend[0], *cur)
						break
					}
					x.out[fmt.Sprintf("l:retry-after=%d-slot", rdur/slot)] = true
					if md.sw && k == 0 {
						ch.cur = alt.blk // a sibling block became the current block in the meantime
						pcur = alt
						cnt["life_current_block_switched"]++
					}
					if t := schedAt + wait + rdur; t > now { // the retry timer was armed when the mine timer fired
						now = t
					}
					vclock.SetUnixMilli(now)
					where = "retry"
					cur.Step = fmt.Sprintf("retry-fire#%d", k)
					_, sent, pan = fire(m, 0)
					if pan != nil {
						panic(pan)
					}
					if sent {
						x.out["x:life:retry-callback-sent-mine-info"] = true
						break
					}
					cnt["life_retries_fired"]++
					pend = vtask.Pending()
				}
			}
		}
	}
	vtask.Reset()
}

// ---------------------------------------------------------------------------------------------

func schedPairs() [][2]int {
	if core.Thorough() {
		var l [][2]int
		for a := 1; a <= 7; a++ {
			for b := a; b <= 7; b++ {
				l = append(l, [2]int{a, b})
			}
		}
		return l
	}
	return [][2]int{{2, 3}, {3, 5}, {1, 4}, {3, 3}}
}

func schedItems() []schedItem {
	var items []schedItem
	for _, p := range schedPairs() {
		a, b := p[0], p[1]
		type v struct {
			name  string
			sizes [3]int
			count int
		}
		vs := []v{{"exact", [3]int{a, b, a}, bigCount}}
		if a == b {
			vs = append(vs, v{"capped-all", [3]int{a + 2, a + 2, a + 2}, a})
		} else {
			// DeputyCount = the larger count; the larger term is capped (2 candidates), the smaller is not
			vs = append(vs, v{"capped", [3]int{a, b + 2, a}, b})
			// and the other way round: the term sizes are (b,a,b), so the change at height 14 is b->a
			vs = append(vs, v{"exact", [3]int{b, a, b}, bigCount}, v{"capped", [3]int{b + 2, a, b + 2}, b})
		}
		for _, x := range vs {
			for _, s := range slots {
				for _, h := range heights {
					items = append(items, schedItem{Sizes: x.sizes, Count: x.count, Variant: x.name, Slot: s, H: h})
				}
			}
		}
	}
	cost := func(it schedItem) int64 {
		n := int64(effCount(it.Sizes[refTerm(it.H)], it.Count))
		return n * n * n * it.Slot
	}
	sort.SliceStable(items, func(i, j int) bool { return cost(items[i]) < cost(items[j]) })
	return items
}

func schedSetup() {
	initSchedKeys()
	// timers (and every other rewritten `go`) are queued; the goroutine of runMineLoop is never started:
	// the harness plays the loop
	vtask.SetPolicy(vtask.Gated, "runMineLoop", vtask.Drop)
}

// schedWorker is the body of one shard (process-global self key, clock and task queue: one thread).
func schedWorker(i, n int) {
	schedSetup()
	debug.SetMemoryLimit(256 << 20) // 16 shards share the machine
	if pf := os.Getenv("C13_PROF"); pf != "" {
		f, _ := os.Create(pf)
		pprof.StartCPUProfile(f)
		defer pprof.StopCPUProfile()
	}
	r := core.NewResult("C13", "exploration")
	cnt := map[string]int64{}
	out := map[string]bool{}
	items := schedItems()
	skipped := 0
	progress.at = time.Now()
	go watchdog(i, n)
	// cheapest first, dealt round-robin; the expensive tail is dealt in reverse so that the shards even out
	for k, it := range items {
		round, pos := k/n, k%n
		if round%2 == 1 {
			pos = n - 1 - pos
		}
		if pos != i {
			continue
		}
		if core.OutOfTime() {
			skipped++
			continue
		}
		core.Journal(fmt.Sprintf("sched item %+v", it))
		progress.Lock()
		progress.item, progress.at = fmt.Sprintf("%+v", it), time.Now()
		progress.Unlock()
		runSchedItem(it, r, -1, -1, cnt, out)
		progress.Lock()
		progress.done++
		progress.Unlock()
	}
	if skipped > 0 {
		r.NotExhaustive(fmt.Sprintf("schedule phase: shard %d/%d skipped %d items at the internal deadline", i, n, skipped))
	}
	for k, v := range cnt {
		r.Add(k, v)
	}
	for k := range out {
		r.Outcome(k)
	}
	pprof.StopCPUProfile()
	progress.Lock() // the watchdog must not write a second result
	core.WorkerDone(r)
}

// runSchedulePhase runs the shards and merges them into r (called by main after the grid).
func runSchedulePhase(r *core.Result) {
	t0 := time.Now()
	core.RunShards(r, core.Opt.Workers, nil, core.Opt.Budget+3*time.Minute, func(i int, tail, journal string) {
		r.Violate("C13/sched/worker-died", fmt.Sprintf("schedule-phase worker %d died near {%s}: %s", i, strings.TrimSpace(journal), lastLines(tail, 12)), map[string]interface{}{"phase": "schedule", "journal": journal})
	})
	{
		ex := map[string]interface{}{}
		pairs, hcs := map[string]int64{}, map[string]int64{}
		for k, v := range r.Counters {
			switch {
			case strings.HasPrefix(k, "sched_pair_"):
				pairs[strings.Replace(strings.TrimPrefix(k, "sched_pair_"), "to", "->", 1)] = v
			case strings.HasPrefix(k, "sched_height_"):
				hcs[strings.TrimPrefix(k, "sched_height_")] = v
			}
		}
		ex["schedule_calls_at_term_first_block_per_deputy_count_change(old->new)"] = pairs
		ex["schedule_calls_per_height_class"] = hcs
		ex["timers_armed"] = r.Counters["sched_timers_armed"]
		ex["refused_not_deputy"] = r.Counters["sched_refused_not_deputy"]
		ex["first_slot_over"] = r.Counters["sched_first-slot-over"]
		ex["first_slot_open"] = r.Counters["sched_first-slot-open"]
		ex["lifecycle_cases"] = r.Counters["life_cases"]
		ex["lifecycle_retries_fired"] = r.Counters["life_retries_fired"]
		ex["pairs"] = schedPairs()
		ex["retries_per_lifecycle"] = retries
		ex["wall_s"] = time.Since(t0).Seconds()
		r.Extra["schedule_phase"] = ex
	}
	// coverage self-check: what the phase exists for must have been exercised
	need := []string{"sched_timers_armed", "sched_refused_not_deputy", "sched_first-slot-over", "sched_first-slot-open", "life_retries_fired", "life_current_block_switched", "sched_height_term-first", "sched_height_term-last", "sched_height_term-second", "sched_height_h1", "sched_height_snapshot", "sched_height_mid"}
	var inc, dec, eq bool
	{
		for k, v := range r.Counters {
			var a, b int
			if n, _ := fmt.Sscanf(k, "sched_pair_%dto%d", &a, &b); n == 2 && v > 0 {
				inc, dec, eq = inc || a < b, dec || a > b, eq || a == b
			}
		}
		for _, k := range need {
			if r.Counters[k] == 0 {
				inc = false
				r.Note("schedule phase: counter %s is 0", k)
			}
		}
	}
	if c := r.Counters["sched_timer_callback_silent"]; c > 0 {
		r.NotExhaustive(fmt.Sprintf("schedule phase: %d armed mine timers fired with mining==1 without sending a MineInfo, their window end could not be observed", c))
	}
	if !(inc && dec && eq) && r.Exhaustive {
		r.NotExhaustive("schedule phase coverage self-check failed (deputy count increasing / decreasing / equal across a term change, timers armed and refused, first slot over, retry path)")
	}
}

func lastLines(s string, n int) string {
	l := strings.Split(strings.TrimSpace(s), "\n")
	if len(l) > n {
		l = l[len(l)-n:]
	}
	return strings.Join(l, " | ")
}

// schedReplay re-runs the (item, parent, scheduling node) of a recorded violation.
func schedReplay(path string) {
	var c schedCase
	if err := core.LoadReplay(path, &c); err != nil {
		fmt.Fprintln(os.Stderr, "cannot load replay:", err)
		os.Exit(2)
	}
	schedSetup()
	r := core.NewResult("C13", "exploration")
	runSchedItem(c.Item, r, c.Parent, c.Self, map[string]int64{}, map[string]bool{})
	b, _ := json.Marshal(c)
	fmt.Printf("replaying item + parent + scheduling node of %s\n", b)
	for _, v := range r.Violations {
		fmt.Printf("STILL FAILS %s\n  %s\n", v.Fingerprint, v.What)
	}
	if len(r.Violations) > 0 {
		os.Exit(1)
	}
	fmt.Println("no violation on replay")
	os.Exit(0)
}

// replayPhase peeks at the replay file: "" for a grid case.
func replayPhase(path string) string {
	var p struct {
		Phase string `json:"phase"`
	}
	if err := core.LoadReplay(path, &p); err != nil {
		return ""
	}
	return p.Phase
}

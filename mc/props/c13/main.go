// C13 — Mining schedule: exactly one deputy is in turn; miner and verifier agree.
//
// Exhaustive grid enumeration over the real scheduling functions of lemochain-core
// (consensus.GetCorrectMiner, consensus.GetNextMineWindow, Validator.VerifyMiner,
// deputynode.Manager.GetMinerDistance / GetDeputyByDistance, miner.getSleepTime) compared with a
// small reference rotation written from the property statement.
//
// What is enumerated (no sampling):
//
//	deputy count n        1..7 (thorough 1..17)
//	list variant          "exact":  DeputyCount larger than every list, the three terms have different
//	                                sizes (target term n, the others n+1 and n-1) and different members/order
//	                      "capped": DeputyCount = n, every term list carries 2 candidate nodes beyond the cap
//	slot (mine timeout)   1000, 3000, 10000 ms
//	target height         1 2 4 5 10 13 | 14 15 17 20 23 | 24 25 27 30 33 with TermDuration=10, InterimDuration=3
//	                      (height 1, I+1 inside the genesis term, mid-term, snapshot, reward-1, reward, reward+1; terms 0,1,2)
//	parent miner          every deputy of the target term + addresses that are not deputies of it
//	                      (an unknown key, members of other terms, candidates beyond the cap)
//	target deputy         every deputy of the target term
//	time offset           k*1000+d ms, k = 0..3*n*slotSeconds, d in {-1,0,1,500,999} (>= 0 overall);
//	                      after 10^3 and 10^6 whole rounds: every slot edge j*slot+d; the largest header time
//	                      2^32-1 s; for windows also a parent slightly in the future (-1,-500,-1000,-1001,-2500 ms)
//	block interval        (getSleepTime only) 1, slot/3, slot-1 ms
//
// Oracles: see the comments at (a) … (d) in runItem.
//
// Second phase (schedule.go, shard processes): the miner's own composition of these functions -
// the real (*Miner).schedule / Start / mine timer / sealBlock / retry timer under a virtual clock,
// with deputy counts that differ across the term change in both directions. See the comment there.
package main

import (
	"encoding/json"
	"fmt"
	"math"
	"math/big"
	"os"
	"runtime/debug"
	"sort"
	"strings"
	"sync"
	"sync/atomic"

	"github.com/LemoFoundationLtd/lemochain-core/chain/consensus"
	"github.com/LemoFoundationLtd/lemochain-core/chain/deputynode"
	"github.com/LemoFoundationLtd/lemochain-core/chain/miner"
	"github.com/LemoFoundationLtd/lemochain-core/chain/params"
	"github.com/LemoFoundationLtd/lemochain-core/chain/types"
	"github.com/LemoFoundationLtd/lemochain-core/common"
	"github.com/LemoFoundationLtd/lemochain-core/store"

	"verifmc/core"
	"verifmc/node"
)

const (
	termDur   = uint32(10) // params.TermDuration during the run
	interim   = uint32(3)  // params.InterimDuration during the run
	parentSec = uint32(1600000000)
	bigCount  = 64 // DeputyCount of the "exact" variant: larger than every list
	maxKeys   = 24
)

var heights = []uint32{1, 2, 4, 5, 10, 13, 14, 15, 17, 20, 23, 24, 25, 27, 30, 33}
var slots = []int64{1000, 3000, 10000}
var deltas = []int64{-1, 0, 1, 500, 999}
var futureParent = []int64{-1, -500, -1000, -1001, -2500}

// =============================================================================================
// Reference rotation, written from the property statement (not from the code under test).
//
// Term k is elected by the snapshot block k*T and takes over block production at k*T+I+1.
// Entitlement for the block after `parent` rotates by rank in slots of `slot` ms that start at the
// parent's time: slot 0 belongs to the deputy ranked after the parent's miner, or to rank 0 when
// the block is height 1 or the first block of a term.

func refTerm(h uint32) int {
	if h <= termDur+interim {
		return 0
	}
	return int((h - interim - 1) / termDur)
}

func refFirstOfTerm(h uint32) bool { return h == 1 || refTerm(h) != refTerm(h-1) }

// refStart is the rank owning slot 0, or -1 when the statement does not define it (the parent's
// miner is not a deputy of the term although the term did not just change: cannot happen on a chain).
func refStart(D []common.Address, h uint32, parentMiner common.Address) int {
	if refFirstOfTerm(h) {
		return 0
	}
	for i, a := range D {
		if a == parentMiner {
			return (i + 1) % len(D)
		}
	}
	return -1
}

// refEntitled is the rank in turn `elapsed` ms (>= 0) after the parent.
func refEntitled(start, n int, elapsed, slot int64) int {
	return (start + int((elapsed/slot)%int64(n))) % n
}

// refWindow is the earliest slot [from,to) of `rank` that has not ended at `now`.
func refWindow(start, n, rank int, parentMs, now, slot int64) (int64, int64) {
	pos := int64((rank - start + n) % n) // slots between slot 0 and rank's first slot
	round := int64(n) * slot
	end0 := parentMs + (pos+1)*slot
	j := int64(0)
	if end0 <= now {
		j = (now-end0)/round + 1
	}
	return end0 + j*round - slot, end0 + j*round
}

// =============================================================================================

type item struct {
	N       int    `json:"n"`
	Variant int    `json:"variant"` // 0 exact, 1 capped
	Slot    int64  `json:"slot_ms"`
	H       uint32 `json:"height"`
}

type caseID struct {
	Item     item   `json:"item"`
	Oracle   string `json:"oracle"`
	Parent   int    `json:"parent"`   // index into the parent list: < n a deputy rank, >= n a non-deputy
	Target   int    `json:"target"`   // rank of the target deputy (-1: n/a)
	Offset   int64  `json:"offset"`   // now / instant minus parent time, ms
	Interval int64  `json:"interval"` // block interval given to getSleepTime, -1 = raw GetNextMineWindow
	Stamp    int64  `json:"stamp"`    // header time minus parent header time, s (oracle d)
	Detail   string `json:"detail"`
}

type viol struct {
	fp, what string
	c        caseID
}

type acc struct {
	counters map[string]int64
	outcomes map[string]bool
	viols    []viol
	seen     map[string]bool
	samples  []interface{}
}

func newAcc() *acc {
	return &acc{counters: map[string]int64{}, outcomes: map[string]bool{}, seen: map[string]bool{}}
}

func (a *acc) violate(fp, what string, c caseID) {
	a.counters["violations_seen"]++
	if a.seen[fp] {
		return
	}
	a.seen[fp] = true
	a.viols = append(a.viols, viol{"C13/" + fp, what, c})
}

func heightClass(h uint32) string {
	switch {
	case h == 1:
		return "h1"
	case h == 2:
		return "h2"
	case h == interim+1:
		return "I+1-in-genesis-term"
	case h%termDur == 0:
		return "snapshot"
	case refFirstOfTerm(h):
		return "term-first"
	case refFirstOfTerm(h + 1):
		return "term-last"
	case refFirstOfTerm(h - 1):
		return "term-second"
	}
	return "mid"
}

// ---------------------------------------------------------------------------------------------
// world: a deputynode.Manager with three terms, built the way the repo's own tests do it
// (NewManager with a loader that has no blocks, then SaveSnapshot per term).

type noBlocks struct{}

func (noBlocks) GetBlockByHeight(uint32) (*types.Block, error) { return nil, store.ErrBlockNotExist }

var keyAddr [maxKeys]common.Address
var keyNodeID [maxKeys][]byte
var ghost common.Address

// termKeyIdx: which ring key has rank j in term t when the term list has m nodes. Term 0 is
// d0..d(m-1); term 1 is d(m)..d1 (d0 left, d(m) joined, ranks reversed); term 2 is d2..d(m),d0
// (d1 left, rotated).
func termKeyIdx(t, m, j int) int {
	switch t {
	case 0:
		return j
	case 1:
		return m - j
	default:
		return (j + 2) % (m + 1)
	}
}

type world struct {
	dm      *deputynode.Manager
	D       []common.Address // deputies of the target term by rank (what the reference uses)
	others  []common.Address // addresses that are not deputies of the target term
	oName   []string
	parents []common.Address // D + others
}

func buildWorld(it item) *world {
	tau := refTerm(it.H)
	var size [3]int
	count := bigCount
	if it.Variant == 0 {
		size[tau] = it.N
		size[(tau+1)%3] = it.N + 1
		if it.N > 1 {
			size[(tau+2)%3] = it.N - 1
		} else {
			size[(tau+2)%3] = it.N + 2
		}
	} else {
		count = it.N
		size = [3]int{it.N + 2, it.N + 2, it.N + 2}
	}
	dm := deputynode.NewManager(count, noBlocks{})
	w := &world{dm: dm}
	inD := map[int]bool{}
	var all []int
	for t := 0; t < 3; t++ {
		nodes := make(types.DeputyNodes, size[t])
		for j := 0; j < size[t]; j++ {
			k := termKeyIdx(t, size[t], j)
			nodes[j] = &types.DeputyNode{MinerAddress: keyAddr[k], NodeID: keyNodeID[k], Rank: uint32(j), Votes: big.NewInt(int64(1000 - j))}
			if t == tau && j < count {
				w.D = append(w.D, keyAddr[k])
				inD[k] = true
			}
			all = append(all, k)
		}
		dm.SaveSnapshot(uint32(t)*termDur, nodes)
	}
	w.others = append(w.others, ghost)
	w.oName = append(w.oName, "unknown-key")
	sort.Ints(all)
	last := -1
	for _, k := range all {
		if k == last || inD[k] || len(w.others) >= 4 {
			continue
		}
		last = k
		w.others = append(w.others, keyAddr[k])
		w.oName = append(w.oName, fmt.Sprintf("d%d(not-in-term)", k))
	}
	w.parents = append(append([]common.Address{}, w.D...), w.others...)
	return w
}

func intervals(slot int64) []int64 { return []int64{1, slot / 3, slot - 1} }

// ---------------------------------------------------------------------------------------------

func offsetsFor(n int, slot int64) (instants []int64, nows []int64) {
	slotSec := slot / 1000
	K := int64(3*n) * slotSec
	for k := int64(0); k <= K; k++ {
		for _, d := range deltas {
			if e := k*1000 + d; e >= 0 {
				instants = append(instants, e)
			}
		}
	}
	for _, rounds := range []int64{1000, 1000000} {
		base := rounds * int64(n) * slot
		for j := int64(0); j <= int64(n); j++ {
			for _, d := range deltas {
				instants = append(instants, base+j*slot+d)
			}
		}
	}
	nows = append(nows, futureParent...)
	nows = append(nows, instants...)
	// the largest time a header can carry (uint32 seconds); only for the turn oracle, a window there
	// would end after the representable range
	maxE := (int64(math.MaxUint32) - int64(parentSec)) * 1000
	instants = append(instants, maxE, maxE+999)
	return
}

func runItem(it item, a *acc, onlyParent int) {
	w := buildWorld(it)
	dm, D := w.dm, w.D
	n := len(D)
	h := it.H
	slot := it.Slot
	P := int64(parentSec) * 1000
	hc := heightClass(h)
	val := consensus.NewValidator(uint64(slot), nil, dm, nil, nil)
	ivs := intervals(slot)
	miners := make([]*miner.Miner, len(ivs))
	for i, bi := range ivs {
		miners[i] = miner.New(miner.MineConfig{SleepTime: bi, Timeout: slot, ReservedPropagationTime: (slot - bi) / 3}, nil, dm, nil)
	}
	instants, nows := offsetsFor(n, slot)
	verifyAddrs := w.parents // D then the non-deputies: every address whose block could be offered
	tableLen := int64(4*n)*(slot/1000) + 3

	// hot-path tallies are kept in locals and flushed into the accumulator at the end
	var nEval, nVerify, nStamps, nWindow, nSleep, nMoved, nDelay, nTurn int64
	var sawOwn bool
	var roundSeen [5][2]bool
	var sleepSeen [3]bool
	slotSeen := make([]bool, it.N+1)
	defer func() {
		a.counters["evaluations"] += nEval
		a.counters["calls_verify"] += nVerify
		a.counters["stamps_checked"] += nStamps
		a.counters["calls_window"] += nWindow
		a.counters["calls_sleep_time"] += nSleep
		a.counters["calls_correct_miner"] += nTurn
		a.counters["branch_window_moved_to_next_round"] += nMoved
		a.counters["branch_block_interval_delay"] += nDelay
		if sawOwn {
			a.outcomes["d:own-stamp-accepted-others-rejected"] = true
		}
		for rd, v := range roundSeen {
			for run, seen := range v {
				if seen {
					a.outcomes[fmt.Sprintf("c:round=%d:running=%v", rd, run == 1)] = true
				}
			}
		}
		for i, name := range []string{"interval-delay", "mine-now", "wait-for-slot"} {
			if sleepSeen[i] {
				a.outcomes["c:sleep:"+name] = true
			}
		}
		for i, seen := range slotSeen {
			if seen {
				a.outcomes[fmt.Sprintf("a:%s:slot-in-round=%d", hc, i)] = true
			}
		}
	}()

	if n != it.N {
		a.violate("harness/world", fmt.Sprintf("world has %d deputies, wanted %d", n, it.N), caseID{Item: it})
		return
	}
	if c := dm.GetDeputiesCount(h); c != n {
		a.violate("deputy-count/"+hc, fmt.Sprintf("GetDeputiesCount(%d)=%d, the term in charge has %d deputies", h, c, n), caseID{Item: it, Oracle: "count"})
	}

	for pi, pAddr := range w.parents {
		if onlyParent >= 0 && pi != onlyParent {
			continue
		}
		cur := caseID{Item: it, Parent: pi, Target: -1, Interval: -1}
		func() {
			defer func() {
				if e := recover(); e != nil {
					st := string(debug.Stack())
					cur.Detail = fmt.Sprint(e)
					a.violate("panic/"+cur.Oracle+"/"+hc, fmt.Sprintf("panic %v in oracle %s: %s", e, cur.Oracle, firstRepoFrame(st)), cur)
				}
			}()
			pkind := "deputy"
			if pi >= n {
				pkind = "non-deputy"
			}
			parent := &types.Header{Height: h - 1, Time: parentSec, MinerAddress: pAddr}
			start := refStart(D, h, pAddr)

			if start < 0 {
				// Not a state of any chain: the parent's miner signs for the same term as the target
				// block unless the target is the first block of a term. Nothing is asserted; what both
				// sides do is recorded.
				cur.Oracle = "unreachable"
				_, e1 := consensus.GetCorrectMiner(parent, P, slot, dm)
				_, e2 := dm.GetMinerDistance(h, pAddr, D[0])
				a.counters["unreachable_parent_observed"]++
				a.outcomes[fmt.Sprintf("x:parent-not-deputy-midterm:verifier-err=%v:miner-err=%v", e1 != nil, e2 != nil)] = true
				return
			}

			// (b) GetMinerDistance and GetDeputyByDistance are inverse; distances lie in 1..n.
			cur.Oracle = "b"
			for di, d := range D {
				cur.Target = di
				dist, err := dm.GetMinerDistance(h, pAddr, d)
				a.counters["evaluations"]++
				a.counters["calls_distance"]++
				if err != nil || dist < 1 || int(dist) > n {
					a.violate(fmt.Sprintf("b/distance-range/%s/parent=%s", hc, pkind),
						fmt.Sprintf("GetMinerDistance(h=%d,parent#%d,target rank %d) = %d, err=%v; want 1..%d", h, pi, di, dist, err, n), cur)
					continue
				}
				dep, err := dm.GetDeputyByDistance(h, pAddr, dist)
				if err != nil || dep == nil || dep.MinerAddress != d {
					a.violate(fmt.Sprintf("b/not-inverse/%s/parent=%s", hc, pkind),
						fmt.Sprintf("GetDeputyByDistance(h=%d,parent#%d,GetMinerDistance(..rank %d)=%d) = %s err=%v", h, pi, di, dist, depName(dep, D), err), cur)
				}
				a.outcomes[fmt.Sprintf("b:%s:dist=%d", hc, dist)] = true
			}
			for dist := uint32(1); int(dist) <= n; dist++ {
				cur.Target = -1
				cur.Detail = fmt.Sprintf("dist=%d", dist)
				dep, err := dm.GetDeputyByDistance(h, pAddr, dist)
				a.counters["evaluations"]++
				a.counters["calls_by_distance"]++
				if err != nil || dep == nil {
					a.violate(fmt.Sprintf("b/by-distance-undefined/%s/parent=%s", hc, pkind),
						fmt.Sprintf("GetDeputyByDistance(h=%d,parent#%d,%d) err=%v", h, pi, dist, err), cur)
					continue
				}
				back, err := dm.GetMinerDistance(h, pAddr, dep.MinerAddress)
				if err != nil || back != dist {
					a.violate(fmt.Sprintf("b/not-inverse/%s/parent=%s", hc, pkind),
						fmt.Sprintf("GetMinerDistance(h=%d,parent#%d,GetDeputyByDistance(..%d)=%s) = %d err=%v", h, pi, dist, depName(dep, D), back, err), cur)
				}
			}
			cur.Detail = ""
			for _, x := range w.others { // recorded only: the miner asks GetMyMinerAddress first
				_, err := dm.GetMinerDistance(h, pAddr, x)
				a.outcomes[fmt.Sprintf("x:distance-of-non-deputy:err=%v", err != nil)] = true
			}

			// (a) at every whole second: exactly one of the offered miners is accepted by VerifyMiner
			// and it is the reference's deputy. accepted[s] = index into verifyAddrs, -1 none, -2 several.
			cur.Oracle = "a-verify"
			cur.Target = -1
			acceptedAt := func(sec int64) int {
				got := -1
				for xi, x := range verifyAddrs {
					hd := &types.Header{Height: h, Time: uint32(int64(parentSec) + sec), MinerAddress: x}
					nVerify++
					if val.VerifyMiner(hd, parent) == nil {
						if got == -1 {
							got = xi
						} else {
							got = -2
						}
					}
				}
				return got
			}
			table := make([]int, tableLen)
			for s := int64(0); s < tableLen; s++ {
				cur.Offset = s * 1000
				table[s] = acceptedAt(s)
				want := refEntitled(start, n, s*1000, slot)
				nEval++
				if table[s] != want {
					a.violate(fmt.Sprintf("a/verify-accepts-wrong-set/%s/parent=%s/%s", hc, pkind, edgeClass(s*1000, slot)),
						fmt.Sprintf("h=%d n=%d slot=%d parent#%d header.time=parent+%ds: VerifyMiner accepts %s, reference entitles rank %d", h, n, slot, pi, s, accName(table[s], n, w), want), cur)
				}
				slotSeen[(s*1000/slot)%int64(n)] = true
			}
			far := map[int64]int{}
			acceptedFar := func(sec int64) int {
				if sec >= 0 && sec < tableLen {
					return table[sec]
				}
				if v, ok := far[sec]; ok {
					return v
				}
				v := acceptedAt(sec)
				far[sec] = v
				return v
			}
			// header stamped before its parent: outside the statement ("not before it"); recorded
			a.outcomes[fmt.Sprintf("x:stamp-before-parent:accepted=%v", acceptedAt(-1) != -1)] = true

			// (a) at millisecond instants: GetCorrectMiner is defined and equals the reference.
			cur.Oracle = "a-turn"
			for _, e := range instants {
				cur.Offset = e
				got, err := consensus.GetCorrectMiner(parent, P+e, slot, dm)
				nEval++
				nTurn++
				want := refEntitled(start, n, e, slot)
				if err != nil || got != D[want] {
					a.violate(fmt.Sprintf("a/turn-mismatch/%s/parent=%s/%s", hc, pkind, edgeClass(e, slot)),
						fmt.Sprintf("h=%d n=%d slot=%d parent#%d t=parent+%dms: GetCorrectMiner = %s err=%v, reference entitles rank %d", h, n, slot, pi, e, addrName(got, D), err, want), cur)
				}
			}
			for _, e := range instants[len(instants)-2:] { // 2^32-1 s: the verifier too
				s := e / 1000
				cur.Oracle, cur.Offset = "a-verify", s*1000
				a.counters["evaluations"]++
				if got, want := acceptedFar(s), refEntitled(start, n, s*1000, slot); got != want {
					a.violate(fmt.Sprintf("a/verify-accepts-wrong-set/%s/parent=%s/max-time", hc, pkind),
						fmt.Sprintf("h=%d n=%d slot=%d parent#%d header.time=2^32-1: VerifyMiner accepts %s, reference entitles rank %d", h, n, slot, pi, accName(got, n, w), want), cur)
				}
			}

			// (c) the window a deputy computes for itself is its earliest slot that has not ended;
			// (d) for every whole-second stamp PrepareHeader can write while the clock is inside the
			//     window (max(parent.time, floor(t/1000)), t from the moment the miner wakes up until
			//     the window's end) VerifyMiner accepts that deputy and nobody else.
			for di, d := range D {
				cur.Target = di
				cur.Oracle = "c"
				dist, err := dm.GetMinerDistance(h, pAddr, d)
				if err != nil {
					continue // already reported under (b)
				}
				checkStamps := func(wake, to int64) {
					cur.Oracle = "d"
					for s := floorDiv(wake, 1000); s*1000 < to; s++ {
						st := s
						if st < int64(parentSec) { // PrepareHeader never stamps before the parent
							st = int64(parentSec)
						}
						cur.Stamp = st - int64(parentSec)
						nEval++
						nStamps++
						got := acceptedFar(cur.Stamp)
						if got != di {
							a.violate(fmt.Sprintf("d/own-window-stamp-not-accepted-exclusively/%s/parent=%s", hc, pkind),
								fmt.Sprintf("h=%d n=%d slot=%d parent#%d deputy rank %d now=parent+%dms interval=%d: clock inside own window [%d,%d) stamps parent+%ds, VerifyMiner accepts %s",
									h, n, slot, pi, di, cur.Offset, cur.Interval, wake-P, to-P, cur.Stamp, accName(got, n, w)), cur)
						}
						if got == di {
							sawOwn = true
						}
					}
					cur.Stamp = 0
					cur.Oracle = "c"
				}
				for _, e := range nows {
					now := P + e
					cur.Offset, cur.Interval = e, -1
					from, to := consensus.GetNextMineWindow(h, dist, P, now, slot, dm)
					rf, rt := refWindow(start, n, di, P, now, slot)
					nEval++
					nWindow++
					if from != rf || to != rt {
						a.violate(fmt.Sprintf("c/window-is-not-earliest-open-slot/%s/parent=%s/%s", hc, pkind, edgeClass(e, slot)),
							fmt.Sprintf("h=%d n=%d slot=%d parent#%d deputy rank %d (distance %d) now=parent+%dms: GetNextMineWindow=[%d,%d), reference [%d,%d) (relative to parent)",
								h, n, slot, pi, di, dist, e, from-P, to-P, rf-P, rt-P), cur)
					}
					rd := (rf - P) / (int64(n) * slot)
					if rd > 3 {
						rd = 4 // "far"
					}
					if rf <= now {
						roundSeen[rd][1] = true
					} else {
						roundSeen[rd][0] = true
					}
					if e >= 0 && rf-P >= ((e)/(int64(n)*slot)+1)*int64(n)*slot {
						nMoved++
					}
					wake := from
					if now > wake {
						wake = now
					}
					if wake < to {
						checkStamps(wake, to)
					}
					for mi, m := range miners {
						cur.Interval = ivs[mi]
						wait, end := m.VerifGetSleepTime(h, dist, P, now)
						nEval++
						nSleep++
						wake := now + wait
						lo := rf
						if now > lo {
							lo = now
						}
						if end != rt || wait < 0 || wake < lo || wake >= rt {
							a.violate(fmt.Sprintf("c/miner-wakes-outside-own-slot/%s/parent=%s/%s", hc, pkind, edgeClass(e, slot)),
								fmt.Sprintf("h=%d n=%d slot=%d parent#%d deputy rank %d (distance %d) now=parent+%dms interval=%d: getSleepTime wait=%d end=%d, reference slot [%d,%d) (relative to parent)",
									h, n, slot, pi, di, dist, e, ivs[mi], wait, end-P, rf-P, rt-P), cur)
							continue
						}
						if wake > lo {
							nDelay++
							sleepSeen[0] = true
						} else if wait == 0 {
							sleepSeen[1] = true
						} else {
							sleepSeen[2] = true
						}
						checkStamps(wake, end)
					}
				}
			}
		}()
	}
	if len(a.samples) == 0 {
		a.samples = append(a.samples, map[string]interface{}{"item": it, "deputies": n, "parents": len(w.parents), "instants": len(instants), "nows": len(nows)})
	}
}

func floorDiv(a, b int64) int64 {
	q := a / b
	if a%b != 0 && (a < 0) != (b < 0) {
		q--
	}
	return q
}

// edgeClass says where an offset lies relative to the slot grid (part of the fingerprint).
func edgeClass(e, slot int64) string {
	if e < 0 {
		return "before-parent"
	}
	switch r := e % slot; {
	case r == 0:
		return "at-slot-start"
	case r == slot-1:
		return "last-ms-of-slot"
	case slot > 1000 && r >= slot-1000:
		return "last-second-of-slot"
	}
	return "inside-slot"
}

func addrName(a common.Address, D []common.Address) string {
	for i, d := range D {
		if d == a {
			return fmt.Sprintf("rank %d", i)
		}
	}
	if a == (common.Address{}) {
		return "nobody"
	}
	return "non-deputy " + a.String()
}

func depName(d *types.DeputyNode, D []common.Address) string {
	if d == nil {
		return "nil"
	}
	return addrName(d.MinerAddress, D)
}

func accName(i, n int, w *world) string {
	switch {
	case i == -1:
		return "nobody"
	case i == -2:
		return "more than one miner"
	case i < n:
		return fmt.Sprintf("rank %d", i)
	}
	return "non-deputy " + w.oName[i-n]
}

func firstRepoFrame(st string) string {
	lines := strings.Split(st, "\n")
	for i, l := range lines {
		if strings.Contains(l, "lemochain-core/") && !strings.Contains(l, "verifmc") && i+1 < len(lines) {
			return strings.TrimSpace(l) + " " + strings.TrimSpace(lines[i+1])
		}
	}
	return ""
}

// ---------------------------------------------------------------------------------------------
// PrepareHeader conformance: the stamping rule used in (d) — whole seconds, never before the parent,
// own miner address, parent height + 1 — is what the real PrepareHeader does. Only clock-independent
// facts are asserted.

func checkPrepareHeader(r *core.Result) {
	it := item{N: 3, Variant: 0, Slot: 3000, H: 5}
	w := buildWorld(it)
	ba := consensus.NewBlockAssembler(nil, w.dm, nil, nil)
	for _, pt := range []uint32{4000000000, parentSec, 1000} {
		parent := &types.Header{Height: it.H - 1, Time: pt, MinerAddress: w.D[1]}
		hd, err := ba.PrepareHeader(parent, "")
		r.Add("evaluations", 1)
		r.Add("calls_prepare_header", 1)
		if err != nil || hd.Height != it.H || hd.MinerAddress != keyAddr[0] || hd.Time < pt || (pt == 4000000000 && hd.Time != pt) {
			r.Violate("C13/prepare-header/stamp", fmt.Sprintf("PrepareHeader(parent.time=%d) = %+v err=%v: want height %d, own miner address, time >= parent (== parent when the parent is in the future)", pt, hd, err, it.H), map[string]interface{}{"parent_time": pt})
		}
	}
}

// ---------------------------------------------------------------------------------------------

func allItems() []item {
	maxN := 7
	if core.Thorough() {
		maxN = 17
	}
	var items []item
	for n := 1; n <= maxN; n++ {
		for v := 0; v < 2; v++ {
			for _, s := range slots {
				for _, h := range heights {
					items = append(items, item{n, v, s, h})
				}
			}
		}
	}
	return items
}

func main() {
	core.ParseFlags()
	node.Quiet()
	// the code under test allocates log records on every call while the live heap is tiny: let the
	// collector run by heap size instead of by growth ratio
	debug.SetGCPercent(-1)
	debug.SetMemoryLimit(2 << 30)
	// process-global protocol parameters: set once, before any goroutine starts
	params.TermDuration = termDur
	params.InterimDuration = interim
	for i := 0; i < maxKeys; i++ {
		keyAddr[i] = node.Deputy(i).Addr
		keyNodeID[i] = node.Deputy(i).NodeID
	}
	ghost = node.K("ghost").Addr
	deputynode.SetSelfNodeKey(node.Deputy(0).Priv)

	// phase "schedule" (schedule.go) runs in shard processes: self key, clock and task queue are process-global
	if i, n, ok := core.IsWorker(); ok {
		schedWorker(i, n)
		return
	}

	if core.Opt.Replay != "" {
		if replayPhase(core.Opt.Replay) != "" {
			schedReplay(core.Opt.Replay)
		}
		var c caseID
		if err := core.LoadReplay(core.Opt.Replay, &c); err != nil {
			fmt.Fprintln(os.Stderr, "cannot load replay:", err)
			os.Exit(2)
		}
		a := newAcc()
		runItem(c.Item, a, c.Parent)
		b, _ := json.Marshal(c)
		fmt.Printf("replaying item+parent of %s\n", b)
		for _, v := range a.viols {
			fmt.Printf("STILL FAILS %s\n  %s\n", v.fp, v.what)
		}
		if len(a.viols) > 0 {
			os.Exit(1)
		}
		fmt.Println("no violation on replay")
		os.Exit(0)
	}

	r := core.NewResult("C13", "exploration")
	r.Rule = "full grid: deputy count x list variant (exact / capped with candidates) x slot length x target height (16 heights over 3 terms, TermDuration=10, InterimDuration=3, different list per term) x parent miner (every rank + non-deputies) x target deputy x time offset (every second of 3 rounds with ms deltas -1,0,1,500,999; slot edges after 10^3 and 10^6 rounds; 2^32-1 s; parent up to 2.5 s in the future) x block interval; every real call is compared with the reference rotation. Distinct outcome = (oracle, height class, slot-in-round | distance | window round/running | sleep branch | verdict). Schedule phase (real (*Miner).schedule, Start, mine timer callback, sealBlock, retry timer; virtual clock): term record sizes (a,b,a) and (b,a,b) for the listed pairs x exact/capped x slot x the same 16 heights x parent miner (every deputy of the target term, every deputy of the previous term, unknown key, candidate beyond the cap, member of another term) x scheduling node (every deputy of the target term + non-deputies) x the same clock offsets x block interval; lifecycle: Start at every slot edge of the first round, then 3 failed mines with the retry timer, tx pool empty/non-empty, current block replaced by a sibling before the retry"
	r.Assume = []string{
		"slot lengths are whole seconds (property quantifier); the node's config check additionally demands timeout >= 3000 ms and 0 < sleepTime < timeout, slot 1000 ms is included anyway",
		"a term record exists for the term in charge of the target height (term change bookkeeping is another property)",
		"parent miner not a deputy of the target term is asserted only at height 1 and at the first block of a term; elsewhere it cannot occur on a chain and the behaviour is only recorded",
		"headers stamped before their parent and parent times before 1970-04-26 (GetCorrectMiner panics below 1e10 ms) are outside the statement",
		"PrepareHeader reads the wall clock, so its stamping rule max(parent.time, floor(now/1000)) is re-stated in the harness and the real function is checked for the clock-independent part of it",
		"block interval (sleepTime) in {1, slot/3, slot-1} ms",
		"schedule phase: the goroutine of runMineLoop is not started; the harness receives the MineInfo from timeToMineCh and calls sealBlock itself, and it calls schedule(block) itself for a new current block (the loop's own three statements are not under test)",
		"schedule phase: a timer fires exactly when it is due (the retry timer: at the first instant >= due after sealBlock returned); time.Timer.Stop is not modelled, callbacks of timers the miner has replaced are discarded by the harness",
		"schedule phase: Chain.MineBlock is a stub that records the instant and produces no block (a failed mine); the stamp of the block it would have built is max(parent.time, floor(now/1000)) as in the grid",
		"schedule phase: with an empty tx pool sealBlock polls every 500 ms until windowEnd - ReservedPropagationTime and can call MineBlock at or after the window end when that reserve is < 500 ms (valid configs with timeout - sleepTime < 1500 ms); such a block is not mined inside the window, so the statement says nothing about it: recorded as outcome, not asserted",
		"schedule phase quick tier: block intervals 1 and slot-1 ms run the clock positions up to the end of the first slot plus the slot edges of the first round (the interval is only read while distance == 1 and less than one slot has elapsed); empty pool / block switch only with interval slot/3; thorough runs the full product",
	}
	checkPrepareHeader(r)

	items := allItems()
	order := make([]int, len(items))
	for i := range order {
		order[i] = i
	}
	cost := func(it item) int64 { return int64(it.N*it.N*it.N) * it.Slot }
	sort.SliceStable(order, func(i, j int) bool { return cost(items[order[i]]) > cost(items[order[j]]) })
	accs := make([]*acc, len(items))
	var next int64 = -1
	var skipped int64
	var wg sync.WaitGroup
	for g := 0; g < core.Opt.Workers; g++ {
		wg.Add(1)
		go func() {
			defer wg.Done()
			for {
				k := int(atomic.AddInt64(&next, 1))
				if k >= len(order) {
					return
				}
				if core.OutOfTime() {
					atomic.AddInt64(&skipped, 1)
					continue
				}
				a := newAcc()
				runItem(items[order[k]], a, -1)
				accs[order[k]] = a
			}
		}()
	}
	wg.Wait()
	if skipped > 0 {
		r.NotExhaustive(fmt.Sprintf("%d of %d grid items not run before the internal deadline", skipped, len(items)))
	}
	perClass := map[string]int64{}
	for i, a := range accs { // canonical (simplest-first) order, so the kept violation per fingerprint is the smallest
		if a == nil {
			continue
		}
		for k, v := range a.counters {
			r.Add(k, v)
		}
		perClass[heightClass(items[i].H)] += a.counters["evaluations"]
		for k := range a.outcomes {
			r.Outcome(k)
		}
		for _, s := range a.samples {
			if i%97 == 0 {
				r.Sample(s)
			}
		}
		for _, v := range a.viols {
			r.Violate(v.fp, v.what, v.c)
		}
	}
	r.Add("grid_items", int64(len(items))-skipped)
	r.Add("grid_evaluations", r.Counters["evaluations"])
	runSchedulePhase(r)
	r.Extra["evaluations_per_height_class"] = perClass
	r.Extra["bound"] = map[string]interface{}{"max_deputies": items[len(items)-1].N, "slots_ms": slots, "heights": heights, "term_duration": termDur, "interim_duration": interim, "rounds": 3, "far_rounds": []int64{1000, 1000000}}
	core.Finish(r)
}

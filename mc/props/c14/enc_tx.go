package main

import (
	"bytes"
	"encoding/json"
	"fmt"
	"math/big"
	"regexp"
	"strings"
	"sync"
	"unicode/utf8"

	"verifmc/node"

	"github.com/LemoFoundationLtd/lemochain-core/chain/params"
	"github.com/LemoFoundationLtd/lemochain-core/chain/types"
	"github.com/LemoFoundationLtd/lemochain-core/common"
	"github.com/LemoFoundationLtd/lemochain-core/common/rlp"
)

// mirrorTx has the wire layout of types.txdata (whose fields are unexported). Transactions are
// built by decoding the mirror's encoding: that is how every transaction that did not originate
// on this node comes into existence, and it can express states the constructors cannot (nil gas
// payer, versions other than 1, malformed signature lists).
type mirrorTx struct {
	Type          uint16
	Version       uint8
	ChainID       uint16
	From          common.Address
	GasPayer      *common.Address `rlp:"nil"`
	Recipient     *common.Address `rlp:"nil"`
	RecipientName string
	GasPrice      *big.Int
	GasLimit      uint64
	GasUsed       uint64
	Amount        *big.Int
	Data          []byte
	Expiration    uint64
	Message       string
	Sigs          [][]byte
	GasPayerSigs  [][]byte
}

func (m *mirrorTx) fieldEncodings() [][]byte {
	return [][]byte{mustEnc(m.Type), mustEnc(m.Version), mustEnc(m.ChainID), mustEnc(m.From), mustEnc(m.GasPayer), mustEnc(m.Recipient), mustEnc(m.RecipientName),
		mustEnc(m.GasPrice), mustEnc(m.GasLimit), mustEnc(m.GasUsed), mustEnc(m.Amount), mustEnc(m.Data), mustEnc(m.Expiration), mustEnc(m.Message), mustEnc(m.Sigs), mustEnc(m.GasPayerSigs)}
}

func (m *mirrorTx) toTx() (*types.Transaction, []byte, error) {
	enc := mustEnc(m)
	tx := new(types.Transaction)
	if err := rlp.DecodeBytes(enc, tx); err != nil {
		return nil, enc, err
	}
	return tx, enc, nil
}

var toNameRe = regexp.MustCompile(`^[\w\-.]+$`)

// bodyRefusesMessage asks the real VerifyTxBody whether a plain, otherwise valid transfer carrying msg
// is refused because of its message.
func bodyRefusesMessage(msg string) bool {
	u0, u1 := node.User(0), node.User(1)
	const now = 1600000000
	ok := types.NewTransaction(u0.Addr, u1.Addr, big.NewInt(1), 21000, big.NewInt(1000000000), nil, params.OrdinaryTx, 200, now+100, "", "plain")
	if err := ok.VerifyTxBody(200, now, true); err != nil {
		panic("harness: the plain transaction is refused: " + err.Error())
	}
	tx := types.NewTransaction(u0.Addr, u1.Addr, big.NewInt(1), 21000, big.NewInt(1000000000), nil, params.OrdinaryTx, 200, now+100, "", msg)
	return tx.VerifyTxBody(200, now, true) == types.ErrTxMessage
}

var txFields = []string{"Type", "Version", "ChainID", "From", "GasPayer", "Recipient", "RecipientName", "GasPrice", "GasLimit", "GasUsed", "Amount", "Data", "Expiration", "Message", "Sigs", "GasPayerSigs"}

var (
	txTypeD    = []uint16{0, 1, 2, 3, 4, 5, 6, 7, 8, 9, 10, 11, 65535}
	txVersionD = []uint8{0, 1, 127, 128, 255}
	txNameD    = []string{"", "a", "lemo-user.01", strings.Repeat("z", 100), "\xff"}
	txMsgD     = []string{"", "a", "thanks for the fish", strings.Repeat("m", 1024), "\xff"}
	// Sigs: 0 none, 1 [valid u0], 2 [valid u0, valid u1], 3 [65 zero bytes], 4 [one byte], 5 [empty], 6 [valid u0 x 10 distinct keys]
	txSigsN = 7
	// GasPayerSigs: 0 none, 1 [valid payer], 2 [valid payer, valid u1], 3 [one byte]
	txGpSigsN = 4

	txDataOnce sync.Once
	txDataVals [][]byte
	txDataName []string
)

// subTx builds a signed ordinary / contract-creation / reimbursement transaction for box payloads.
var (
	subTxOnce [3]sync.Once
	subTxVal  [3]*types.Transaction
)

func subTx(kind int) *types.Transaction {
	kind = kind % 3
	subTxOnce[kind].Do(func() { subTxVal[kind] = buildSubTx(kind) })
	return subTxVal[kind]
}

func buildSubTx(kind int) *types.Transaction {
	u0, u1 := node.User(0), node.User(1)
	var tx *types.Transaction
	switch kind {
	case 0:
		tx = types.NewTransaction(u0.Addr, u1.Addr, big.NewInt(100), 21000, big.NewInt(1000000000), nil, params.OrdinaryTx, 200, 1600003600, "", "sub0")
	case 1:
		tx = types.NewContractCreation(u1.Addr, big.NewInt(0), 2000000, big.NewInt(1000000000), []byte{0x60, 0x00, 0x60, 0x00}, params.CreateContractTx, 200, 1600003600, "", "")
	default:
		tx = types.NewReimbursementTransaction(u0.Addr, u1.Addr, node.User(2).Addr, big.NewInt(7), []byte{1, 2, 3}, params.OrdinaryTx, 200, 1600003600, "name.1", "sub2")
	}
	key := u0
	if kind == 1 {
		key = u1
	}
	var err error
	if kind == 2 {
		tx, err = types.MakeReimbursementTxSigner().SignTx(tx, key.Priv)
		if err != nil {
			panic(err)
		}
		tx = types.GasPayerSignatureTx(tx, big.NewInt(2000000000), 30000)
		tx, err = types.MakeGasPayerSigner().SignTx(tx, node.User(2).Priv)
	} else {
		tx, err = types.MakeSigner().SignTx(tx, key.Priv)
	}
	if err != nil {
		panic(err)
	}
	return tx
}

func initTxData() {
	txDataOnce.Do(func() {
		add := func(n string, b []byte) { txDataName = append(txDataName, n); txDataVals = append(txDataVals, b) }
		add("nil", nil)
		add("empty", []byte{})
		add("00", []byte{0})
		add("7f", []byte{0x7f})
		add("80", []byte{0x80})
		add("call36", append([]byte{0xa9, 0x05, 0x9c, 0xbb}, bytes.Repeat([]byte{0x01}, 32)...))
		add("len56", bytes.Repeat([]byte{0x56}, 56))
		add("len2048", bytes.Repeat([]byte{0x20}, 2048))
		mb := func(txs types.Transactions) []byte {
			b, err := types.MarshalBoxData(txs)
			if err != nil {
				panic(err)
			}
			return b
		}
		add("box0", mb(types.Transactions{}))
		add("box1", mb(types.Transactions{subTx(0)}))
		add("box3", mb(types.Transactions{subTx(0), subTx(1), subTx(2)}))
		add("badjson", []byte("{"))
		aj, _ := json.Marshal(&types.Asset{Category: 1, IsDivisible: true, Decimal: 18, TotalSupply: big.NewInt(1000), IsReplenishable: true, Profile: types.Profile{"name": "n", "symbol": "S"}})
		add("assetjson", aj)
	})
}

func txDims() []int {
	initTxData()
	return []int{len(txTypeD), len(txVersionD), len(u16D), 4, 4, 4, len(txNameD), len(bigPD), len(u64D), len(u64D), len(bigPD), len(txDataVals), len(u64D), len(txMsgD), txSigsN, txGpSigsN}
}

func txPayerKey(idx []int) *node.Key { return node.User(2) }

// mkMirror builds the mirror value for an index vector, signing where the domain value says so.
func mkMirror(idx []int) (*mirrorTx, error) {
	initTxData()
	from := addrD[idx[3]]
	m := &mirrorTx{Type: txTypeD[idx[0]], Version: txVersionD[idx[1]], ChainID: u16D[idx[2]], From: from,
		RecipientName: txNameD[idx[6]], GasPrice: cpBig(bigPD[idx[7]]), GasLimit: u64D[idx[8]], GasUsed: u64D[idx[9]], Amount: cpBig(bigPD[idx[10]]),
		Data: txDataVals[idx[11]], Expiration: u64D[idx[12]], Message: txMsgD[idx[13]], Sigs: [][]byte{}, GasPayerSigs: [][]byte{}}
	switch idx[4] {
	case 0:
		m.GasPayer = nil
	case 1:
		p := from
		m.GasPayer = &p
	case 2:
		p := txPayerKey(idx).Addr
		m.GasPayer = &p
	case 3:
		m.GasPayer = &common.Address{}
	}
	switch idx[5] {
	case 0:
		m.Recipient = nil
	case 1:
		m.Recipient = &common.Address{}
	case 2:
		p := node.User(1).Addr
		m.Recipient = &p
	case 3:
		p := addrFF
		m.Recipient = &p
	}
	// signatures are computed over the object without them
	if idx[14] == 1 || idx[14] == 2 || idx[14] == 6 {
		tx, _, err := m.toTx()
		if err != nil {
			return nil, err
		}
		h := types.DefaultSigner{}.Hash(tx)
		m.Sigs = append(m.Sigs, signWith(node.User(0), h))
		if idx[14] == 2 {
			m.Sigs = append(m.Sigs, signWith(node.User(1), h))
		}
		if idx[14] == 6 {
			for i := 1; i < 10; i++ {
				m.Sigs = append(m.Sigs, signWith(node.User(i), h))
			}
		}
	}
	switch idx[14] {
	case 3:
		m.Sigs = [][]byte{make([]byte, 65)}
	case 4:
		m.Sigs = [][]byte{{0x01}}
	case 5:
		m.Sigs = [][]byte{{}}
	}
	if idx[15] == 1 || idx[15] == 2 {
		tx, _, err := m.toTx()
		if err != nil {
			return nil, err
		}
		h := types.GasPayerSigner{}.Hash(tx)
		m.GasPayerSigs = append(m.GasPayerSigs, signWith(txPayerKey(idx), h))
		if idx[15] == 2 {
			m.GasPayerSigs = append(m.GasPayerSigs, signWith(node.User(1), h))
		}
	}
	if idx[15] == 3 {
		m.GasPayerSigs = [][]byte{{0x02}}
	}
	return m, nil
}

// canonTx: the transaction through its accessors.
func canonTx(tx *types.Transaction) string {
	to := "nil"
	if t := tx.To(); t != nil {
		to = hx(t[:])
	}
	gp := tx.GasPayer()
	from := tx.From()
	return fmt.Sprintf("{Type:%d,Version:%d,ChainID:%d,From:%x,GasPayer:%x,To:%s,ToName:%x,GasPrice:%s,GasLimit:%d,GasUsed:%d,Amount:%s,Data:%x,Expiration:%d,Message:%x,Sigs:%x,GasPayerSigs:%x}",
		tx.Type(), tx.Version(), tx.ChainID(), from[:], gp[:], to, tx.ToName(), tx.GasPrice(), tx.GasLimit(), tx.GasUsed(), tx.Amount(), tx.Data(), tx.Expiration(), tx.Message(), tx.Sigs(), tx.GasPayerSigs())
}

func canonMirror(m *mirrorTx) string {
	to := "nil"
	if m.Recipient != nil {
		to = hx(m.Recipient[:])
	}
	gp := m.From
	if m.GasPayer != nil {
		gp = *m.GasPayer
	}
	z := func(b *big.Int) *big.Int {
		if b == nil {
			return new(big.Int)
		}
		return b
	}
	return fmt.Sprintf("{Type:%d,Version:%d,ChainID:%d,From:%x,GasPayer:%x,To:%s,ToName:%x,GasPrice:%s,GasLimit:%d,GasUsed:%d,Amount:%s,Data:%x,Expiration:%d,Message:%x,Sigs:%x,GasPayerSigs:%x}",
		m.Type, m.Version, m.ChainID, m.From[:], gp[:], to, m.RecipientName, z(m.GasPrice), m.GasLimit, m.GasUsed, z(m.Amount), m.Data, m.Expiration, m.Message, m.Sigs, m.GasPayerSigs)
}

// txSigners: everything that is recovered from a transaction's signatures.
func txSigners(tx *types.Transaction) string {
	var sb strings.Builder
	for i, s := range []types.Signer{types.MakeSigner(), types.MakeReimbursementTxSigner(), types.MakeGasPayerSigner()} {
		var addrs []common.Address
		var err error
		if p, pc, _ := guard(func() { addrs, err = s.GetSigners(tx) }); p {
			fmt.Fprintf(&sb, "%d:panic:%s;", i, pc)
			continue
		}
		if err != nil {
			fmt.Fprintf(&sb, "%d:err;", i)
			continue
		}
		fmt.Fprintf(&sb, "%d:%x;", i, addrs)
	}
	return sb.String()
}

func boxInfo(tx *types.Transaction) (desc string, isBox bool) {
	if tx.Type() != params.BoxTx {
		return "", false
	}
	box, err := types.GetBox(tx.Data())
	if err != nil {
		return "box:undecodable", true
	}
	var sb strings.Builder
	fmt.Fprintf(&sb, "box:%d[", len(box.SubTxList))
	for _, st := range box.SubTxList {
		fmt.Fprintf(&sb, "%x/%s,", st.Hash(), txSigners(st))
	}
	sb.WriteString("]")
	return sb.String(), true
}

func runTx(a *acc, idx []int) {
	a.evals++
	const sn = "Transaction"
	rp := replayCase{Kind: "encode", Target: sn, Idx: idx}
	m, err := mkMirror(idx)
	if err != nil {
		a.violate("C14/own-encoding-rejected/Transaction/layout", fmt.Sprintf("Transaction %v: an encoding in the txdata layout is rejected: %v", idx, err), rp, 0)
		return
	}
	tx0, menc, err := m.toTx()
	if err != nil {
		a.outcomes[sn+"/layout-rejected"]++
		a.violate("C14/own-encoding-rejected/Transaction/layout", fmt.Sprintf("Transaction %v: an encoding in the txdata layout is rejected: %v enc=%x", idx, err, clipB(menc, 300)), rp, len(menc))
		return
	}
	// the decoded object is the value v under test; it must carry exactly the mirror's content
	if c0, cm := canonTx(tx0), canonMirror(m); c0 != cm {
		d := firstDiff(cm, c0)
		a.outcomes[sn+"/value-changes:"+d]++
		a.violate("C14/roundtrip-value-differs/Transaction/"+d, fmt.Sprintf("Transaction %v: decoded accessors differ from the encoded fields in %s\n  fields=%s\n  tx    =%s", idx, d, clipS(cm, 700), clipS(c0, 700)), rp, len(menc))
		return
	}
	hash0, signers0 := tx0.Hash(), txSigners(tx0)
	box0, isBox := boxInfo(tx0)
	enc1, eerr, pc := encodeGuard(tx0)
	if eerr != nil {
		a.violate("C14/encode-fails/Transaction/"+pc, fmt.Sprintf("Transaction %v: %v %s", idx, eerr, pc), rp, len(menc))
		return
	}
	if !bytes.Equal(enc1, menc) {
		a.outcomes[sn+"/reencoding-differs"]++
		a.violate("C14/reencoding-differs/Transaction", fmt.Sprintf("Transaction %v: encode(decode(b)) != b for a canonical b: %x vs %x", idx, clipB(enc1, 300), clipB(menc, 300)), rp, len(menc))
		return
	}
	tx1 := new(types.Transaction)
	if err, pc := decodeGuard(enc1, tx1); err != nil {
		a.violate("C14/own-encoding-rejected/Transaction/"+errClass(err)+pc, fmt.Sprintf("Transaction %v: %v", idx, err), rp, len(menc))
		return
	}
	if c0, c1 := canonTx(tx0), canonTx(tx1); c0 != c1 {
		d := firstDiff(c0, c1)
		a.violate("C14/roundtrip-value-differs/Transaction/"+d, fmt.Sprintf("Transaction %v: %s vs %s", idx, clipS(c0, 700), clipS(c1, 700)), rp, len(menc))
		return
	}
	if tx1.Hash() != hash0 {
		a.outcomes[sn+"/hash-changes"]++
		a.violate("C14/hash-changes/Transaction", fmt.Sprintf("Transaction %v: Hash %x -> %x", idx, hash0, tx1.Hash()), rp, len(menc))
		return
	}
	if s1 := txSigners(tx1); s1 != signers0 || strings.Contains(s1, "panic") {
		a.outcomes[sn+"/signers-change"]++
		a.violate("C14/signer-changes/Transaction", fmt.Sprintf("Transaction %v: signers %s -> %s", idx, signers0, s1), rp, len(menc))
		return
	}
	if idx[14] == 1 || idx[14] == 2 || idx[14] == 6 {
		want := fmt.Sprintf("0:[%x", node.User(0).Addr[:])
		if !strings.HasPrefix(signers0, want) {
			a.violate("C14/signer-recovery/Transaction/fresh", fmt.Sprintf("Transaction %v: signed by %x, recovered %s", idx, node.User(0).Addr, signers0), rp, len(menc))
			return
		}
	}
	if isBox {
		if b1, _ := boxInfo(tx1); b1 != box0 {
			a.violate("C14/box-payload-changes/Transaction", fmt.Sprintf("Transaction %v: %s -> %s", idx, clipS(box0, 400), clipS(b1, 400)), rp, len(menc))
			return
		}
		// the payload's own round trip: sub-transactions -> box data -> sub-transactions
		if box, err := types.GetBox(tx0.Data()); err == nil {
			data2, err := types.MarshalBoxData(box.SubTxList)
			if err != nil {
				a.violate("C14/box-payload/marshal-fails", fmt.Sprintf("Transaction %v: %v", idx, err), rp, len(menc))
				return
			}
			box2, err := types.GetBox(data2)
			if err != nil || len(box2.SubTxList) != len(box.SubTxList) {
				a.violate("C14/box-payload/own-encoding-rejected", fmt.Sprintf("Transaction %v: %v", idx, err), rp, len(menc))
				return
			}
			for i := range box.SubTxList {
				if box.SubTxList[i].Hash() != box2.SubTxList[i].Hash() || txSigners(box.SubTxList[i]) != txSigners(box2.SubTxList[i]) {
					a.violate("C14/box-payload/subtx-hash-or-signers-change", fmt.Sprintf("Transaction %v sub %d", idx, i), rp, len(menc))
					return
				}
			}
			a.outcomes[fmt.Sprintf("%s/box-payload-ok/subtxs=%d", sn, len(box.SubTxList))]++
		} else {
			a.outcomes[sn+"/box-payload-undecodable(hash-over-raw-data)"]++
		}
	}
	// JSON form (RPC format and the format of sub-transactions inside a box)
	jsonOutcome := txJSON(a, idx, m, tx0, hash0, signers0)
	a.outcomes[fmt.Sprintf("%s/ok/type=%d/gaspayer=%d/to=%d/sigs=%d/gpsigs=%d/%s", sn, m.Type, idx[4], idx[5], idx[14], idx[15], jsonOutcome)]++
}

func txJSON(a *acc, idx []int, m *mirrorTx, tx0 *types.Transaction, hash0 common.Hash, signers0 string) string {
	rp := replayCase{Kind: "encode", Target: "Transaction", Idx: idx}
	var js []byte
	var err error
	if p, pc, _ := guard(func() { js, err = tx0.MarshalJSON() }); p || err != nil {
		a.violate("C14/json/Transaction/marshal-fails/"+pc, fmt.Sprintf("Transaction %v: MarshalJSON: %v %s", idx, err, pc), rp, 0)
		return "json-marshal-fails"
	}
	tx2 := new(types.Transaction)
	if p, pc, _ := guard(func() { err = tx2.UnmarshalJSON(js) }); p {
		a.violate("C14/json/Transaction/unmarshal-panics/"+pc, fmt.Sprintf("Transaction %v: UnmarshalJSON(%s)", idx, clipS(string(js), 400)), rp, 0)
		return "json-panic"
	}
	if err != nil {
		// documented refusals of the JSON form: other versions, signatures that are not 65 bytes
		if m.Version != types.TxVersion {
			return "json-refuses-version"
		}
		for _, s := range m.Sigs {
			if len(s) != types.TxSigLength {
				return "json-refuses-siglen"
			}
		}
		a.violate("C14/json/Transaction/own-json-rejected/"+clipS(err.Error(), 60), fmt.Sprintf("Transaction %v: UnmarshalJSON(MarshalJSON(tx)) fails: %v\n json=%s", idx, err, clipS(string(js), 600)), rp, 0)
		return "json-rejected"
	}
	if tx2.Hash() != hash0 {
		d := firstDiff(canonTx(tx0), canonTx(tx2))
		if d == "Message" && !utf8.ValidString(m.Message) && bodyRefusesMessage(m.Message) {
			// the real VerifyTxBody refuses an otherwise valid transaction carrying this message (not
			// valid UTF-8), so no valid transaction has it; asked of the code, not assumed: if that
			// refusal disappears this is a violation again
			a.note("json-roundtrip-changes-hash/Transaction/invalid-Message(not a valid transaction)", fmt.Sprintf("idx=%v message=%x json=%s", idx, m.Message, clipS(string(js), 200)), len(js))
			return "json-hash-changes(invalid-message,not-asserted)"
		}
		if d == "ToName" && !toNameRe.MatchString(m.RecipientName) {
			// VerifyTxBody refuses such a name (ToName must match [A-Za-z0-9_.-]+), so no valid transaction carries it
			a.note("json-roundtrip-changes-hash/Transaction/invalid-ToName(not a valid transaction)", fmt.Sprintf("idx=%v toName=%x json=%s", idx, m.RecipientName, clipS(string(js), 200)), len(js))
			return "json-hash-changes(invalid-toName,not-asserted)"
		}
		a.violate("C14/json/Transaction/hash-changes/field="+d, fmt.Sprintf("Transaction %v: JSON round trip changes the hash %x -> %x (first differing field: %s)\n  before=%s\n  after =%s\n  json=%s",
			idx, hash0, tx2.Hash(), d, clipS(canonTx(tx0), 500), clipS(canonTx(tx2), 500), clipS(string(js), 500)), rp, len(js))
		return "json-hash-changes:" + d
	}
	if s2 := txSigners(tx2); s2 != signers0 {
		a.violate("C14/json/Transaction/signers-change", fmt.Sprintf("Transaction %v: %s -> %s", idx, signers0, s2), rp, len(js))
		return "json-signers-change"
	}
	if c0, c2 := canonTx(tx0), canonTx(tx2); c0 != c2 {
		// fields outside the hash (GasUsed) must survive as well
		d := firstDiff(c0, c2)
		a.violate("C14/json/Transaction/value-differs/field="+d, fmt.Sprintf("Transaction %v: %s vs %s", idx, clipS(c0, 500), clipS(c2, 500)), rp, len(js))
		return "json-value-differs:" + d
	}
	return "json-ok"
}

func txSuite() *suite {
	d := txDims()
	//            Type Ver Chain From Payer To Name Price Limit Used Amount Data Exp Msg Sigs GpSigs
	typ := []int{0, 1, 2, 2, 1, 2, 0, 4, 4, 0, 4, 0, 4, 0, 1, 0}
	box := []int{10, 1, 2, 2, 1, 0, 0, 4, 4, 0, 1, 10, 4, 1, 1, 0}
	reimb := []int{0, 1, 2, 2, 2, 2, 2, 4, 4, 1, 2, 5, 4, 2, 2, 1}
	return &suite{name: "Transaction", fields: txFields, dims: d, bases: [][]int{typ, zeros(len(d)), last(d), box, reimb}, run: runTx}
}

// ---------------------------------------------------------------------------------------------
// Event (AddEventLog payload): only the consensus fields are encoded, Hash() is over the encoding

func eventSuite() *suite {
	dims := []int{4, 4, len(bytesD), 2}
	return &suite{name: "Event", fields: []string{"Address", "Topics", "Data", "derived-fields-set"}, dims: dims, run: func(a *acc, i []int) {
		a.evals++
		ev := &types.Event{Address: addrD[i[0]], Topics: topicsD()[i[1]], Data: bytesD[i[2]]}
		cons := func(e *types.Event) *types.Event {
			return &types.Event{Address: e.Address, Topics: e.Topics, Data: e.Data}
		}
		h0 := ev.Hash()
		if i[3] == 1 { // derived fields are documented as not secured by consensus: they must not influence encoding or hash
			ev.TxHash, ev.TxIndex, ev.Index, ev.Removed = hashTyp, 3, 4, true
			if ev.Hash() != h0 {
				a.violate("C14/hash-changes/Event/derived-fields", fmt.Sprintf("Event %v", i), replayCase{Kind: "encode", Target: "Event", Idx: i}, 0)
				return
			}
		}
		dec, _, ok := roundTrip(a, "Event", i, cons(ev), func() interface{} { return new(types.Event) }, false, true, "")
		if !ok {
			return
		}
		if dec.(*types.Event).Hash() != h0 {
			a.violate("C14/hash-changes/Event", fmt.Sprintf("Event %v", i), replayCase{Kind: "encode", Target: "Event", Idx: i}, 0)
			return
		}
		a.outcomes["Event/ok"]++
	}}
}

// ---------------------------------------------------------------------------------------------
// Block

func txVariants() []types.Transactions {
	mk := func(idx []int) *types.Transaction {
		m, err := mkMirror(idx)
		if err != nil {
			panic(err)
		}
		tx, _, err := m.toTx()
		if err != nil {
			panic(err)
		}
		return tx
	}
	s := txSuite()
	return []types.Transactions{nil, {}, {mk(s.bases[0])}, {mk(s.bases[0]), subTx(1), mk(s.bases[3])}, {mk(s.bases[4]), mk(s.bases[2])}}
}

func logVariants() []types.ChangeLogSlice {
	var one, all types.ChangeLogSlice
	for _, ls := range changeLogDefs() {
		c := ls.mk([]int{2, 1, ls.typicalNew, ls.typicalExtra})
		all = append(all, c)
		if len(one) == 0 {
			one = append(one, c)
		}
	}
	var edge types.ChangeLogSlice // the smallest value of every field that the running system can produce
	for _, ls := range changeLogDefs() {
		n := 0
		for ls.unreachable != nil && ls.unreachable(n, 0) != "" {
			n++
		}
		edge = append(edge, ls.mk([]int{0, 0, n, 0}))
	}
	return []types.ChangeLogSlice{nil, {}, one, all, edge}
}

func deputyVariants() []types.DeputyNodes {
	d := func(i int) *types.DeputyNode {
		return &types.DeputyNode{MinerAddress: node.Deputy(i).Addr, NodeID: node.Deputy(i).NodeID, Rank: uint32(i), Votes: big.NewInt(int64(1000 - i))}
	}
	return []types.DeputyNodes{nil, {}, {d(0)}, {d(0), d(1), d(2)}}
}

func canonBlock(b *types.Block) string {
	var sb strings.Builder
	sb.WriteString("{Header:" + canon(b.Header, false) + ",Txs:[")
	for _, tx := range b.Txs {
		sb.WriteString(canonTx(tx) + ";")
	}
	sb.WriteString("],ChangeLogs:" + canon(clNoOld(b.ChangeLogs), true))
	sb.WriteString(",Confirms:" + canon(b.Confirms, false) + ",DeputyNodes:" + canon(b.DeputyNodes, false) + "}")
	return sb.String()
}

// clNoOld: OldVal is documented as local ("no need to save or send to others").
func clNoOld(ls types.ChangeLogSlice) []types.ChangeLog {
	out := make([]types.ChangeLog, 0, len(ls))
	for _, l := range ls {
		c := *l
		c.OldVal = nil
		if ev, ok := c.NewVal.(*types.Event); ok && ev != nil { // derived event fields are not encoded by design
			c.NewVal = &types.Event{Address: ev.Address, Topics: ev.Topics, Data: ev.Data}
		}
		out = append(out, c)
	}
	return out
}

func blockSuite() *suite {
	hdrIdx := [][]int{headerSuite().bases[0], headerSuite().bases[1], headerSuite().bases[3], headerSuite().bases[2]}
	var (
		once     sync.Once
		txs      []types.Transactions
		logs     []types.ChangeLogSlice
		deps     []types.DeputyNodes
		confirms [][]types.SignData
	)
	prep := func() {
		once.Do(func() {
			txs, logs, deps = txVariants(), logVariants(), deputyVariants()
			confirms = [][]types.SignData{nil, {}, {sigDataD[1]}, {sigDataD[1], sigDataD[2], sigDataD[0]}}
		})
	}
	dims := []int{len(hdrIdx), 5, 5, 4, 4, 2}
	return &suite{name: "Block", fields: []string{"Header", "Txs", "ChangeLogs", "Confirms", "DeputyNodes", "as-network.Blocks-message"}, dims: dims,
		run: func(a *acc, i []int) {
			a.evals++
			prep()
			rp := replayCase{Kind: "encode", Target: "Block", Idx: i}
			h, _ := mkHeader(hdrIdx[i[0]])
			b := &types.Block{Header: h, Txs: txs[i[1]], ChangeLogs: logs[i[2]], Confirms: confirms[i[3]], DeputyNodes: deps[i[4]]}
			var enc []byte
			var err error
			var pc string
			b2 := new(types.Block)
			if i[5] == 0 {
				if enc, err, pc = encodeGuard(b); err == nil {
					err, pc = decodeGuard(enc, b2)
				}
			} else { // as sent by peer.SendBlocks / read by handleBlocksMsg
				blocks := types.Blocks{b, b}
				if enc, err, pc = encodeGuard(&blocks); err == nil {
					var back types.Blocks
					if err, pc = decodeGuard(enc, &back); err == nil {
						if len(back) != 2 {
							err = fmt.Errorf("%d blocks came back", len(back))
						} else {
							b2 = back[1]
						}
					}
				}
			}
			if err != nil {
				a.violate("C14/own-encoding-rejected/Block/"+errClass(err)+pc, fmt.Sprintf("Block %v: %v %s", i, err, pc), rp, len(enc))
				return
			}
			if c1, c2 := canonBlock(b), canonBlock(b2); c1 != c2 {
				d := firstDiff(c1, c2)
				a.violate("C14/roundtrip-value-differs/Block/"+d, fmt.Sprintf("Block %v: differs in %s\n  v   =%s\n  back=%s", i, d, clipS(c1, 900), clipS(c2, 900)), rp, len(enc))
				return
			}
			if b.Hash() != b2.Hash() || b.Txs.MerkleRootSha() != b2.Txs.MerkleRootSha() || b.ChangeLogs.MerkleRootSha() != b2.ChangeLogs.MerkleRootSha() ||
				b.DeputyNodes.MerkleRootSha() != b2.DeputyNodes.MerkleRootSha() || signerOf(b.Header) != signerOf(b2.Header) {
				a.violate("C14/hash-changes/Block", fmt.Sprintf("Block %v: block hash / tx root / log root / deputy root / signer differs after the round trip", i), rp, len(enc))
				return
			}
			for k := range b.Txs {
				if txSigners(b.Txs[k]) != txSigners(b2.Txs[k]) {
					a.violate("C14/signer-changes/Block/tx", fmt.Sprintf("Block %v tx %d", i, k), rp, len(enc))
					return
				}
			}
			enc2, err, pc := encodeGuard(b2)
			if i[5] == 0 && (err != nil || !bytes.Equal(enc, enc2)) {
				a.violate("C14/reencoding-differs/Block", fmt.Sprintf("Block %v: %v %s", i, err, pc), rp, len(enc))
				return
			}
			a.outcomes[fmt.Sprintf("Block/ok/txs=%d/logs=%d/confirms=%d/deputies=%d", i[1], i[2], i[3], i[4])]++
		}}
}

// ---------------------------------------------------------------------------------------------
// JSON payloads carried in Transaction.Data (txdata_types.go): marshal -> GetXxx -> equal

func txDataJSONSuite() *suite {
	kinds := []string{"IssueAsset", "ReplenishAsset", "ModifyAssetInfo", "TransferAsset", "Asset"}
	metaD := []string{"", "a", "meta data", strings.Repeat("m", 256), "é中\"\\\n<>&"}
	amtD := []*big.Int{big.NewInt(0), big.NewInt(1), bigTyp, big256}
	profD := []types.Profile{{}, {"name": "x"}, {"name": "n", "symbol": "S", "description": "dé\"\\<>&", "freeze": "false", "suggestedGasLimit": "60000"}}
	dims := []int{len(kinds), len(hashD), len(hashD), len(metaD), len(amtD), len(profD), len(bytesD)}
	return &suite{name: "TxDataJSON", fields: []string{"payload-type", "hash1", "hash2", "string", "amount", "profile", "bytes"}, dims: dims, run: func(a *acc, i []int) {
		a.evals++
		rp := replayCase{Kind: "encode", Target: "TxDataJSON", Idx: i}
		var v, back interface{}
		var err error
		var js []byte
		switch kinds[i[0]] {
		case "IssueAsset":
			v = &types.IssueAsset{AssetCode: hashD[i[1]], MetaData: metaD[i[3]], Amount: cpBig(amtD[i[4]])}
			if js, err = json.Marshal(v); err == nil {
				back, err = types.GetIssueAsset(js)
			}
		case "ReplenishAsset":
			v = &types.ReplenishAsset{AssetCode: hashD[i[1]], AssetId: hashD[i[2]], Amount: cpBig(amtD[i[4]])}
			if js, err = json.Marshal(v); err == nil {
				back, err = types.GetReplenishAsset(js)
			}
		case "ModifyAssetInfo":
			v = &types.ModifyAssetInfo{AssetCode: hashD[i[1]], UpdateProfile: cpProfile(profD[i[5]])}
			if js, err = json.Marshal(v); err == nil {
				back, err = types.GetModifyAssetInfo(js)
			}
		case "TransferAsset":
			v = &types.TransferAsset{AssetId: hashD[i[2]], Amount: cpBig(amtD[i[4]]), Input: bytesD[i[6]]}
			if js, err = json.Marshal(v); err == nil {
				back, err = types.GetTransferAsset(js)
			}
		case "Asset":
			v = &types.Asset{Category: assetCatD[i[1]], IsDivisible: i[2]%2 == 1, AssetCode: hashD[i[2]], Decimal: assetDecD[i[3]%len(assetDecD)], TotalSupply: cpBig(amtD[i[4]]),
				IsReplenishable: i[6]%2 == 1, Issuer: addrD[i[1]], Profile: cpProfile(profD[i[5]])}
			if js, err = json.Marshal(v); err == nil {
				back, err = types.GetAsset(js)
			}
		}
		if err != nil {
			a.violate("C14/json/"+kinds[i[0]]+"/own-json-rejected", fmt.Sprintf("%s %v: %v json=%s", kinds[i[0]], i, err, clipS(string(js), 300)), rp, 0)
			return
		}
		if c1, c2 := canon(v, false), canon(back, false); c1 != c2 {
			a.violate("C14/json/"+kinds[i[0]]+"/value-differs/"+firstDiff(c1, c2), fmt.Sprintf("%s %v: %s vs %s", kinds[i[0]], i, clipS(c1, 400), clipS(c2, 400)), rp, 0)
			return
		}
		a.outcomes["TxDataJSON/"+kinds[i[0]]+"/ok"]++
	}}
}

// boxPayloadSuite: sub-transactions -> MarshalBoxData -> GetBox -> the same sub-transactions.
func boxPayloadSuite() *suite {
	return &suite{name: "BoxPayload", fields: []string{"sub-tx-count", "first-sub-tx-kind"}, dims: []int{5, 3}, run: func(a *acc, i []int) {
		a.evals++
		rp := replayCase{Kind: "encode", Target: "BoxPayload", Idx: i}
		subs := types.Transactions{}
		for k := 0; k < i[0]; k++ {
			subs = append(subs, subTx(k+i[1]))
		}
		js, err := types.MarshalBoxData(subs)
		if err == nil {
			var box *types.Box
			box, err = types.GetBox(js)
			if err == nil {
				if len(box.SubTxList) != len(subs) {
					err = fmt.Errorf("%d sub txs came back, want %d", len(box.SubTxList), len(subs))
				}
				for k := 0; err == nil && k < len(subs); k++ {
					if box.SubTxList[k].Hash() != subs[k].Hash() || txSigners(box.SubTxList[k]) != txSigners(subs[k]) || canonTx(box.SubTxList[k]) != canonTx(subs[k]) {
						err = fmt.Errorf("sub tx %d changed: %s vs %s", k, canonTx(subs[k]), canonTx(box.SubTxList[k]))
					}
				}
			}
		}
		if err != nil {
			a.violate("C14/json/Box/roundtrip", fmt.Sprintf("Box %v: %v", i, err), rp, 0)
			return
		}
		a.outcomes[fmt.Sprintf("BoxPayload/ok/subtxs=%d", len(subs))]++
	}}
}

package main

import (
	"fmt"
	"strings"

	"verifmc/core"
	"verifmc/node"

	"github.com/LemoFoundationLtd/lemochain-core/common"
)

const b26 = "83456729ABCDFGHJKNPQRSTWYZ"

func mixedCase(s string) string {
	b := []byte(s)
	for i := range b {
		if i%2 == 0 {
			b[i] = strings.ToLower(string(b[i]))[0]
		} else {
			b[i] = strings.ToUpper(string(b[i]))[0]
		}
	}
	return string(b)
}

// addressSet: every single- and double-byte deviation over {00,01,7f,ff} from 3 base addresses.
func addressSet() []common.Address {
	bases := []common.Address{{}, node.User(0).Addr, addrFF}
	bases[1][0] = common.NormalAddressType
	vals := []byte{0x00, 0x01, 0x7f, 0xff}
	seen := map[common.Address]bool{}
	var out []common.Address
	add := func(a common.Address) {
		if !seen[a] {
			seen[a] = true
			out = append(out, a)
		}
	}
	for _, b := range bases {
		add(b)
		for i := 0; i < common.AddressLength; i++ {
			for _, x := range vals {
				a := b
				a[i] = x
				add(a)
				for j := i + 1; j < common.AddressLength; j++ {
					for _, y := range vals {
						c := a
						c[j] = y
						add(c)
					}
				}
			}
		}
	}
	return out
}

// addrOne: round trip of one address in every case variant through every text entry point, then
// every single-character substitution and adjacent transposition of the text (never panics;
// accepted mutations are counted, see main.go for why they are not violations).
func addrOne(a *acc, addr common.Address, mutate bool) {
	a.evals++
	rp := replayCase{Kind: "addr", Addr: hx(addr[:])}
	var text string
	if p, pc, _ := guard(func() { text = addr.String() }); p {
		a.violate("C14/address-text/panic/String/"+pc, fmt.Sprintf("Address(%x).String() panics", addr[:]), rp, 0)
		return
	}
	if !strings.HasPrefix(text, "Lemo") {
		a.violate("C14/address-text/format", fmt.Sprintf("Address(%x).String() = %q has no Lemo prefix", addr[:], text), rp, 0)
		return
	}
	a.outcomes[fmt.Sprintf("address/text-len=%d", len(text))]++
	for vi, variant := range []string{text, strings.ToUpper(text), strings.ToLower(text), mixedCase(text)} {
		var back common.Address
		var err error
		check := func(entry string, f func()) bool {
			back, err = common.Address{}, nil
			if p, pc, _ := guard(f); p {
				a.violate("C14/address-text/panic/"+entry+"/"+pc, fmt.Sprintf("%s(%q) panics", entry, variant), rp, 0)
				return false
			}
			if err != nil || back != addr {
				a.outcomes["address/roundtrip-fails/"+entry]++
				a.violate(fmt.Sprintf("C14/address-text/roundtrip/%s/case-variant=%d", entry, vi),
					fmt.Sprintf("address %x prints as %q; %s(%q) gives %x, err=%v", addr[:], text, entry, variant, back[:], err), rp, 0)
				return false
			}
			return true
		}
		if !check("StringToAddress", func() { back, err = common.StringToAddress(variant) }) {
			return
		}
		if !check("Address.Decode", func() { err = back.Decode(variant) }) {
			return
		}
		if !check("Address.UnmarshalText", func() { err = back.UnmarshalText([]byte(variant)) }) {
			return
		}
		if !check("Address.UnmarshalJSON", func() { err = back.UnmarshalJSON([]byte(`"` + variant + `"`)) }) {
			return
		}
		okc := false
		if p, _, _ := guard(func() { okc = common.CheckLemoAddress(variant) }); p || !okc {
			a.violate("C14/address-text/CheckLemoAddress", fmt.Sprintf("CheckLemoAddress(%q) = false/panic for the text of %x", variant, addr[:]), rp, 0)
			return
		}
	}
	if mt, err := addr.MarshalText(); err != nil || string(mt) != text {
		a.violate("C14/address-text/MarshalText", fmt.Sprintf("%x: %q vs %q", addr[:], mt, text), rp, 0)
		return
	}
	a.outcomes["address/roundtrip-ok"]++
	if !mutate {
		return
	}
	body := []byte(text[4:])
	try := func(kind string, m []byte) {
		a.evals++
		s := "Lemo" + string(m)
		var back common.Address
		var err error
		if p, pc, _ := guard(func() { back, err = common.StringToAddress(s) }); p {
			a.violate("C14/address-text/panic/StringToAddress(mutated)/"+pc, fmt.Sprintf("StringToAddress(%q) panics", s), rp, 0)
			return
		}
		switch {
		case err != nil:
			a.counters["address_mutations_rejected"]++
			a.outcomes["address/mutation/"+kind+"/rejected"]++
		case back == addr:
			a.counters["address_mutations_accepted_same_address"]++
			a.outcomes["address/mutation/"+kind+"/accepted-same-address"]++
			a.note("address-text/mutation-decodes-to-the-same-address/"+kind, fmt.Sprintf("%q and %q both decode to %x", text, s, addr[:]), len(s))
		default:
			a.counters["address_mutations_accepted_other_address"]++
			a.outcomes["address/mutation/"+kind+"/accepted-other-address"]++
			a.note("address-text/mutation-accepted-as-another-address/"+kind, fmt.Sprintf("%q (%x) -> %q decodes to %x", text, addr[:], s, back[:]), len(s))
		}
	}
	for i := range body {
		for k := 0; k < len(b26); k++ {
			if b26[k] == body[i] {
				continue
			}
			m := append([]byte{}, body...)
			m[i] = b26[k]
			try("substitution", m)
		}
	}
	for i := 0; i+1 < len(body); i++ {
		if body[i] == body[i+1] {
			continue
		}
		m := append([]byte{}, body...)
		m[i], m[i+1] = m[i+1], m[i]
		try("transposition", m)
	}
	// characters outside the alphabet, truncation, extension, prefix damage: never a panic
	for _, s := range []string{"Lemo", "Lem", "", "Lemo" + string(body[:len(body)-1]), text + "8", text + "Z", "Lemo" + strings.Repeat("Z", 36), "Lemo" + strings.Repeat("Z", 80),
		"Lemo" + string(body[:10]) + "1" + string(body[11:]), "Lemo" + string(body[:10]) + "I" + string(body[11:]), "Lemo" + string(body[:10]) + "\xff" + string(body[11:]),
		"lemO" + string(body), "Lemo " + string(body), "0x" + hx(addr[:]), hx(addr[:]), "0x" + hx(addr[:19]), "0x" + hx(addr[:]) + "00"} {
		a.evals++
		var err error
		if p, pc, _ := guard(func() { _, err = common.StringToAddress(s); common.CheckLemoAddress(s) }); p {
			a.violate("C14/address-text/panic/StringToAddress(damaged)/"+pc, fmt.Sprintf("StringToAddress(%q) panics", s), rp, 0)
			return
		}
		if err != nil {
			a.outcomes["address/damaged/rejected"]++
		} else {
			a.outcomes["address/damaged/accepted"]++
		}
	}
}

func addressSide(r *core.Result) {
	set := addressSet()
	var jobs []job
	const chunk = 64
	for i := 0; i < len(set); i += chunk {
		part := set[i:min(i+chunk, len(set))]
		jobs = append(jobs, func(a *acc) {
			for _, ad := range part {
				addrOne(a, ad, true)
				a.counters["addresses"]++
			}
		})
	}
	if skipped := runJobs(jobs); skipped > 0 {
		r.NotExhaustive(fmt.Sprintf("address text: internal deadline hit, %d of %d chunks not run", skipped, len(jobs)))
	}
	r.Extra["address_set"] = map[string]interface{}{"addresses": len(set), "bases": 3, "deviation_bytes": "00,01,7f,ff", "max_deviating_positions": 2,
		"mutations_per_address": "36 positions x 25 other base26 characters + adjacent transpositions + 17 damaged forms"}
}

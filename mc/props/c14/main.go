// C14 — encodings round-trip and are canonical, so hashes and signatures survive.
//
// Engine E4 (bounded exhaustive input enumeration, no sampling) in three parts; everything runs on
// the real codecs of /repo (common/rlp, the custom EncodeRLP/DecodeRLP pairs, the JSON forms of
// transactions and transaction payloads, the Lemo address text form).
//
// (1) decoder side — byte strings are offered to every decode target:
//
//	F1 every byte string of length <= 2 (thorough: <= 3) over the full byte alphabet;
//	F2 every longer string of length <= 4 (thorough: <= 6) over the 16 RLP boundary bytes
//	   {00,01,7f,80,81,b7,b8,b9,bf,c0,c1,f7,f8,f9,fa,ff};
//	F3 header forms: for payload lengths {0,1,2,55,56,57,255,256,257,65535,65536}, strings and lists,
//	   the short form and every long form with 1..8 (zero padded) length bytes, each also with one
//	   trailing byte and one byte short (the long-form branches cannot be reached by <= 6 bytes);
//	F4 every tail of length <= 2 (thorough: <= 3) over all bytes and <= 4 (thorough: <= 5) over the
//	   boundary bytes behind a well-formed prefix, so that arbitrary bytes reach the per-type
//	   change-log decoders (all 19 registered types + 2 unregistered), Asset.Profile,
//	   AccountData.Candidate…Signers, DeputyNode and AssetEquity;
//	F5 every slot of a valid Header / Transaction encoding replaced by a fixed set of short items.
//
//	Targets: the primitive targets of the low-level codec (uints, bool, big.Int, []byte, string,
//	[N]byte, lists, small structs with tail / optional pointer, interface{}, RawValue, raw.go
//	helpers) and the consensus decoders (Header, Block(s), Transaction(s), ChangeLog(Slice),
//	AccountData, Asset, AssetEquity, DeputyNode(s), Profile, Signers, Event, store records and the
//	11 network message structs).
//	Oracle: no panic; for primitive targets decode(b)=v implies encode(v)=b. For the custom decoders
//	of consensus types a successful decode that re-encodes differently is NOT asserted (nothing in
//	the repo hashes received bytes: Header.Hash/Transaction.Hash hash field lists, ChangeLog.Hash and
//	DeputyNode.Hash re-encode the decoded value); such inputs are counted and the shortest example
//	per class is written to coverage.suspected_or_informational.
//
// (2) encoder side — values built from per-field mini-domains {nil/empty, zero, one, boundary,
// typical, max}: the full product when it has <= 10^6 elements, otherwise every 1- and 2-field
// deviation from each base value (coverage.encoder_suites says which, per type).
//
//	Oracle: decode(encode(v)) = v (canonical value form: nil = empty, nil big = 0, maps sorted),
//	same Hash(), same recovered signers (header signer, DefaultSigner / ReimbursementTxSigner /
//	GasPayerSigner of transactions, confirm signer), encode(decode(encode(v))) = encode(v) and
//	encode(v) deterministic for hashed/signed types, a change log means the same after the trip
//	(Redo on a recording account makes the same call), box payloads keep sub-transaction hashes and
//	signers, JSON round trip of transactions keeps hash, signers and all fields.
//
// (3) address text — every single- and double-byte deviation over {00,01,7f,ff} from 3 base
// addresses: String() decodes back to the same address in original/upper/lower/mixed case through
// StringToAddress, Address.Decode, UnmarshalText, UnmarshalJSON, CheckLemoAddress; every
// single-character substitution over the base26 alphabet and every adjacent transposition of the
// text never panics (the checksum is one xor byte, so a mutated text may be a valid text of another
// address: counted, not asserted — the property only states the round trip).
package main

import (
	"encoding/json"
	"fmt"
	"os"
	"runtime/debug"
	"time"

	"verifmc/core"
	"verifmc/node"

	"github.com/LemoFoundationLtd/lemochain-core/common"
)

const prop = "C14"

func main() {
	core.ParseFlags()
	node.Quiet()
	initDomains()
	if core.Opt.Replay != "" {
		os.Exit(replay(core.Opt.Replay))
	}
	r := core.NewResult(prop, "exploration")
	r.Rule = "bounded exhaustive enumeration: (1) byte strings (all of length<=L over 256 symbols, longer ones over 16 RLP boundary bytes, long-form header forms, short tails behind valid prefixes) x decode targets; " +
		"(2) per-type index vectors into per-field mini-domains (full product <=10^6, else all 1- and 2-field deviations from each base); (3) address set x text mutations. " +
		"An outcome is distinct by (target or type, error class / branch tag such as elided root, signature shape, log payload shape, JSON verdict)"
	r.Assume = []string{
		"values are bounded by the stated mini-domains and byte strings by the stated lengths/alphabets; nothing is claimed outside them",
		"a non-canonical input accepted by a custom decoder of a consensus type is reported as information, not as a violation: no code path hashes or signs received bytes (hashes are taken over field lists or over the re-encoding of the decoded value)",
		"decode targets get pre-made maps/pointers exactly where the repo's callers pre-make them (Asset, AssetEquity as in account.GetAssetCode/decodeAsset/decodeEquity; Profile inside AccountData); decoding into a nil types.Profile is not a call the repo makes",
		"change logs carry the dynamic types the NewXxxLog constructors produce; three shapes the running system cannot produce (nil *Asset, empty candidate profile, empty signer list) are explored but only reported as information",
		"AccountData is stored, not hashed or signed: byte identity of its re-encoding is not asserted (its encoder iterates a map), only value equality",
		"transactions are brought into existence by decoding the txdata wire layout (the only way a foreign transaction arises); the JSON form documents two refusals (version != 1, signature length != 65) which are not counted as round-trip failures",
		"the codec is pure: goroutine parallelism does not influence any verdict",
	}
	// own deadline inside the tier's wall budget (the machine may be shared): quick 105 s, thorough 18 min
	if lim := 105 * time.Second; !core.Thorough() && core.Opt.Budget > lim {
		core.Opt.Budget = lim
	}
	if lim := 18 * time.Minute; core.Thorough() && core.Opt.Budget > lim {
		core.Opt.Budget = lim
	}
	debug.SetGCPercent(400) // allocation-heavy, tiny live heap
	t0 := time.Now()
	encoderSide(r)
	r.Extra["wall_encoder_s"] = time.Since(t0).Seconds()
	t0 = time.Now()
	addressSide(r)
	r.Extra["wall_address_s"] = time.Since(t0).Seconds()
	t0 = time.Now()
	decoderSide(r)
	r.Extra["wall_decoder_s"] = time.Since(t0).Seconds()
	publish(r)
	g := globalAcc.counters
	r.Extra["address_text_mutations"] = map[string]interface{}{
		"rejected":                     g["address_mutations_rejected"],
		"accepted_as_the_same_address": g["address_mutations_accepted_same_address"],
		"accepted_as_another_address":  g["address_mutations_accepted_other_address"],
		"note":                         "information only: the check byte is a single xor over the 20 address bytes, so a substituted or transposed text can be the valid text of another address; the property states only the round trip",
	}
	coverageSelfCheck(r)
	core.Finish(r)
}

// coverageSelfCheck: non-vacuity — every custom codec branch named in the property's anchors must
// have been reached with a successful round trip.
func coverageSelfCheck(r *core.Result) {
	g := globalAcc
	need := []string{
		"Header/ok/txroot=empty-trie(elided)", "Header/ok/txroot=set", "Header/ok/txroot=zero",
		"Asset/ok/profile=0", "Asset/ok/profile=4", "AccountData/ok/records=4", "AccountData/ok/records=0",
		"Transaction/box-payload-ok/subtxs=3", "Transaction/box-payload-ok/subtxs=0", "address/roundtrip-ok",
		"uint64/ok", "uint64/rlp: non-canonical integer (leading zero bytes)", "[]byte/rlp: non-canonical size information", "[]byte/rlp: input contains more than one value",
	}
	for _, d := range changeLogDefs() {
		need = append(need, "ChangeLog/"+d.name+"/ok/")
	}
	var missing []string
	for _, n := range need {
		found := false
		for k := range g.outcomes {
			if len(k) >= len(n) && k[:len(n)] == n {
				found = true
				break
			}
		}
		if !found {
			missing = append(missing, n)
		}
	}
	r.Extra["coverage_self_check_missing"] = missing
	if len(missing) > 0 && r.Exhaustive {
		r.Violate("C14/harness/coverage-self-check", fmt.Sprintf("branches never reached with a successful case: %v", missing), nil)
	}
}

func replay(path string) int {
	var rc replayCase
	if err := core.LoadReplay(path, &rc); err != nil {
		fmt.Fprintln(os.Stderr, "cannot load replay:", err)
		return 2
	}
	a := newAcc()
	for round := 1; round <= 2; round++ { // the same case twice: verdicts must agree
		switch rc.Kind {
		case "decode":
			in := unhx(rc.Hex)
			if rc.Target == "rlp.Split" {
				rawOne(a, in)
			} else if t := targetByName(rc.Target); t != nil {
				decodeOne(a, t, in, "replay")
			} else {
				fmt.Fprintln(os.Stderr, "unknown target", rc.Target)
				return 2
			}
		case "encode":
			s := suiteByName(rc.Target)
			if s == nil {
				fmt.Fprintln(os.Stderr, "unknown suite", rc.Target)
				return 2
			}
			if p, pc, detail := guard(func() { s.run(a, rc.Idx) }); p {
				a.violate("C14/panic/"+s.name+"/"+pc, detail, rc, 0)
			}
		case "addr":
			addrOne(a, common.BytesToAddress(unhx(rc.Addr)), true)
		default:
			fmt.Fprintln(os.Stderr, "unknown replay kind", rc.Kind)
			return 2
		}
		fmt.Printf("round %d: outcomes=%v violations=%d\n", round, keys(a.outcomes), len(a.viols))
	}
	for _, v := range a.viols {
		fmt.Printf("VIOLATION (replayed) %s\n  %s\n", v.FP, v.What)
	}
	if len(a.info) > 0 {
		b, _ := json.MarshalIndent(a.info, "", " ")
		fmt.Printf("informational: %s\n", b)
	}
	if len(a.viols) > 0 {
		return 1
	}
	fmt.Println("replayed case does not violate the property")
	return 0
}

func keys(m map[string]int64) []string {
	var out []string
	for k := range m {
		out = append(out, k)
	}
	return out
}

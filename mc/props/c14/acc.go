package main

import (
	"fmt"
	"runtime/debug"
	"sort"
	"strings"
	"sync"

	"verifmc/core"
)

// acc is a per-goroutine accumulator (the hot loops run 10^8..10^9 cases; no shared locks there).
type acc struct {
	evals    int64
	counters map[string]int64
	outcomes map[string]int64
	viols    map[string]*viol // by fingerprint; the smallest example is kept
	info     map[string]*info // "suspected"/informational observations by class
	// soft: when non-empty, the next value difference found by roundTrip is recorded as information
	// (the value has a shape the running system cannot produce; soft holds the reason)
	soft string
	hot  map[string]map[string]int64 // hot-path outcomes: target -> class -> hits (folded into outcomes by merge)
}

type viol struct {
	FP, What string
	Replay   replayCase
	Size     int // ordering key: smaller examples win
}

type info struct {
	Count   int64  `json:"count"`
	Example string `json:"first_example"`
	size    int
}

// replayCase is what --replay re-runs.
type replayCase struct {
	Kind   string `json:"kind"`             // "decode" | "encode" | "addr"
	Target string `json:"target,omitempty"` // decode target / encode suite
	Hex    string `json:"hex,omitempty"`    // decode input
	Idx    []int  `json:"idx,omitempty"`    // encode suite index vector
	Addr   string `json:"addr,omitempty"`   // address (hex) for kind addr
}

func newAcc() *acc {
	return &acc{counters: map[string]int64{}, outcomes: map[string]int64{}, viols: map[string]*viol{}, info: map[string]*info{}}
}

func (a *acc) violate(fp, what string, rp replayCase, size int) {
	a.counters["violations_raw"]++
	if old, ok := a.viols[fp]; ok {
		if old.Size < size || (old.Size == size && old.What <= what) {
			return
		}
	}
	a.viols[fp] = &viol{fp, what, rp, size}
}

func (a *acc) note(class, example string, size int) {
	e := a.info[class]
	if e == nil {
		a.info[class] = &info{Count: 1, Example: example, size: size}
		return
	}
	e.Count++
	if size < e.size || (size == e.size && example < e.Example) {
		e.Example, e.size = example, size
	}
}

func (a *acc) merge(o *acc) {
	a.evals += o.evals
	for t, m := range o.hot {
		for c, n := range m {
			a.outcomes[t+"/"+c] += n
		}
	}
	for k, v := range o.counters {
		a.counters[k] += v
	}
	for k, v := range o.outcomes {
		a.outcomes[k] += v
	}
	for k, v := range o.viols {
		if old, ok := a.viols[k]; !ok || v.Size < old.Size || (v.Size == old.Size && v.What < old.What) {
			a.viols[k] = v
		}
	}
	for k, v := range o.info {
		e := a.info[k]
		if e == nil {
			c := *v
			a.info[k] = &c
			continue
		}
		e.Count += v.Count
		if v.size < e.size || (v.size == e.size && v.Example < e.Example) {
			e.Example, e.size = v.Example, v.size
		}
	}
}

var (
	globalMu  sync.Mutex
	globalAcc = newAcc()
)

func flush(a *acc) {
	globalMu.Lock()
	globalAcc.merge(a)
	globalMu.Unlock()
}

// publish moves everything accumulated into the core.Result.
func publish(r *core.Result) {
	g := globalAcc
	r.Add("evaluations", g.evals)
	for k, v := range g.counters {
		if k == "violations_raw" {
			continue
		}
		r.Add(k, v)
	}
	hits := map[string]int64{}
	for k, v := range g.outcomes {
		r.Outcome(k)
		hits[k] = v
	}
	r.Extra["outcome_hits"] = hits
	fps := make([]string, 0, len(g.viols))
	for fp := range g.viols {
		fps = append(fps, fp)
	}
	sort.Strings(fps)
	for _, fp := range fps {
		v := g.viols[fp]
		r.Violate(fp, v.What, v.Replay)
	}
	if n := g.counters["violations_raw"]; n > 0 {
		r.Counters["violations_raw"] = n
	}
	r.Extra["suspected_or_informational"] = g.info
}

// guard runs f and converts a panic into (panicked=true, class, stack); class is a short stable
// description: panic value + innermost repo frame.
func guard(f func()) (panicked bool, class string, detail string) {
	defer func() {
		if e := recover(); e != nil {
			panicked = true
			st := string(debug.Stack())
			class = fmt.Sprintf("%v@%s", clipS(fmt.Sprint(e), 80), innermostRepoFrame(st))
			detail = st
		}
	}()
	f()
	return
}

func innermostRepoFrame(stack string) string {
	for _, ln := range strings.Split(stack, "\n") {
		ln = strings.TrimSpace(ln)
		if strings.HasPrefix(ln, "github.com/LemoFoundationLtd/lemochain-core/") {
			ln = strings.TrimPrefix(ln, "github.com/LemoFoundationLtd/lemochain-core/")
			if i := strings.LastIndex(ln, "("); i > 0 {
				ln = ln[:i]
			}
			return ln
		}
	}
	return "?"
}

package main

import (
	"bytes"
	"fmt"
	"math/big"
	"strings"

	"github.com/LemoFoundationLtd/lemochain-core/chain/account"
	"github.com/LemoFoundationLtd/lemochain-core/chain/types"
	"github.com/LemoFoundationLtd/lemochain-core/common"
)

// Change logs are built with exactly the dynamic types that the NewXxxLog constructors in
// chain/account/change_log.go put into NewVal / Extra (OldVal is local and never encoded).

type logDef struct {
	name         string
	typ          types.ChangeLogType
	newN, extraN int
	newVal       func(i int) interface{}
	extra        func(i int) interface{}
	typicalNew   int
	typicalExtra int
	// shapes the running system cannot produce (documented in main.go); differences on them are
	// recorded as information only
	unreachable func(newIdx, extraIdx int) string
}

var clVersionD = []uint32{0, 1, 127, 128, 0xffffffff}

func (d *logDef) mk(idx []int) *types.ChangeLog {
	var addr common.Address
	switch idx[0] {
	case 0:
	case 1:
		addr = addrFF
	default:
		addr = addrD[2]
	}
	c := &types.ChangeLog{LogType: d.typ, Address: addr, Version: clVersionD[idx[1]]}
	if d.newVal != nil {
		c.NewVal = d.newVal(idx[2])
	}
	if d.extra != nil {
		c.Extra = d.extra(idx[3])
	}
	return c
}

func bigVal(i int) interface{} { // big.Int by value, as *(new(big.Int).Set(x))
	vals := []*big.Int{big.NewInt(0), big.NewInt(1), big.NewInt(127), big.NewInt(128), bigTyp, big256}
	return *(new(big.Int).Set(vals[i]))
}

func hashVal(i int) interface{} { return rootD[i] }
func strVal(i int) interface{}  { return strD[i] }

func changeLogDefs() []*logDef {
	none := func(int) interface{} { return nil }
	assets := func(i int) interface{} {
		switch i {
		case 0:
			return (&types.Asset{Profile: nil}).Clone() // zero asset; Clone gives a non-nil profile and 0 supply like NewAssetCodeLog
		case 1:
			return (&types.Asset{Category: 1, IsDivisible: true, AssetCode: hashTyp, Decimal: 18, TotalSupply: bigTyp, IsReplenishable: true, Issuer: addrD[2], Profile: profileD()[2]}).Clone()
		case 2:
			return (&types.Asset{Category: 0xffffffff, IsDivisible: true, AssetCode: hashFF, Decimal: 0xffffffff, TotalSupply: big256, IsReplenishable: true, Issuer: addrFF, Profile: profileD()[4]}).Clone()
		default:
			return (*types.Asset)(nil).Clone() // typed nil pointer: SetAssetCode(code, nil)
		}
	}
	equities := func(i int) interface{} {
		switch i {
		case 0:
			return nil // NewEquityLog stores an untyped nil when the equity is deleted
		case 1:
			return (&types.AssetEquity{AssetCode: hashTyp, AssetId: common.HexToHash("0x01"), Equity: bigTyp}).Clone()
		case 2:
			return (&types.AssetEquity{}).Clone()
		default:
			return (&types.AssetEquity{AssetCode: hashFF, AssetId: hashFF, Equity: big256}).Clone()
		}
	}
	profiles := func(i int) interface{} {
		p := cpProfile(profileD()[i])
		return &p
	}
	codes := func(i int) interface{} {
		v := [][]byte{nil, {}, {0x00}, {0x60, 0x00}, bytes.Repeat([]byte{0x5b}, 56), bytes.Repeat([]byte{0xfe}, 24576)}
		return types.Code(v[i])
	}
	events := func(i int) interface{} {
		switch i {
		case 0:
			return &types.Event{}
		case 1:
			return &types.Event{Address: addrD[2], Topics: []common.Hash{hashTyp}, Data: []byte{1, 2, 3}, TxHash: hashTyp, TxIndex: 1, Index: 2}
		default:
			return &types.Event{Address: addrFF, Topics: topicsD()[3], Data: bytes.Repeat([]byte{0x80}, 100)}
		}
	}
	signers := func(i int) interface{} { return append(types.Signers(nil), signersD()[i]...) }
	extras := func(i int) interface{} {
		keys := []string{"", types.AssetName, strings.Repeat("k", 100)}
		return &account.ProfileChangeLogExtra{UUID: hashD[i/3+1], Key: keys[i%3]}
	}
	storageVals := func(i int) interface{} {
		v := [][]byte{nil, {}, {0x00}, {0x7f}, {0x80}, bytes.Repeat([]byte{0xab}, 32), bytes.Repeat([]byte{0xcd}, 56)}
		if v[i] == nil {
			return []byte(nil)
		}
		return append([]byte{}, v[i]...)
	}
	addrVal := func(i int) interface{} { return addrD[i] }
	candKeys := func(i int) interface{} {
		return []string{"", types.CandidateKeyIsCandidate, strings.Repeat("k", 100)}[i]
	}
	nR, nS := len(rootD), len(strD)

	return []*logDef{
		{name: "BalanceLog", typ: account.BalanceLog, newN: 6, newVal: bigVal, extraN: 1, extra: none, typicalNew: 4},
		{name: "StorageLog", typ: account.StorageLog, newN: 7, newVal: storageVals, extraN: nR, extra: hashVal, typicalNew: 5, typicalExtra: 2},
		{name: "StorageRootLog", typ: account.StorageRootLog, newN: nR, newVal: hashVal, extraN: 1, extra: none, typicalNew: 2},
		{name: "AssetCodeLog", typ: account.AssetCodeLog, newN: 4, newVal: assets, extraN: nR, extra: hashVal, typicalNew: 1, typicalExtra: 2,
			unreachable: func(n, e int) string {
				if n == 3 {
					return "NewVal is a nil *Asset: SetAssetCode(code, nil) is only called by undoAssetCode, never while executing a transaction"
				}
				return ""
			}},
		{name: "AssetCodeStateLog", typ: account.AssetCodeStateLog, newN: nS, newVal: strVal, extraN: 9, extra: extras, typicalNew: 2, typicalExtra: 4},
		{name: "AssetCodeRootLog", typ: account.AssetCodeRootLog, newN: nR, newVal: hashVal, extraN: 1, extra: none, typicalNew: 2},
		{name: "AssetCodeTotalSupplyLog", typ: account.AssetCodeTotalSupplyLog, newN: 6, newVal: bigVal, extraN: nR, extra: hashVal, typicalNew: 4, typicalExtra: 2},
		{name: "AssetIdLog", typ: account.AssetIdLog, newN: nS, newVal: strVal, extraN: nR, extra: hashVal, typicalNew: 2, typicalExtra: 2},
		{name: "AssetIdRootLog", typ: account.AssetIdRootLog, newN: nR, newVal: hashVal, extraN: 1, extra: none, typicalNew: 2},
		{name: "EquityLog", typ: account.EquityLog, newN: 4, newVal: equities, extraN: nR, extra: hashVal, typicalNew: 1, typicalExtra: 2},
		{name: "EquityRootLog", typ: account.EquityRootLog, newN: nR, newVal: hashVal, extraN: 1, extra: none, typicalNew: 2},
		{name: "CandidateLog", typ: account.CandidateLog, newN: len(profileD()), newVal: profiles, extraN: 1, extra: none, typicalNew: 3,
			unreachable: func(n, e int) string {
				if n <= 1 {
					return "NewVal is an empty candidate profile: both callers of SetCandidate (candidate_vote_tx.go:150,297) pass a profile that holds at least the isCandidate key"
				}
				return ""
			}},
		{name: "CandidateStateLog", typ: account.CandidateStateLog, newN: nS, newVal: strVal, extraN: 3, extra: candKeys, typicalNew: 2, typicalExtra: 1},
		{name: "CodeLog", typ: account.CodeLog, newN: 6, newVal: codes, extraN: 1, extra: none, typicalNew: 3},
		{name: "AddEventLog", typ: account.AddEventLog, newN: 3, newVal: events, extraN: 1, extra: none, typicalNew: 1},
		{name: "SuicideLog", typ: account.SuicideLog, newN: 1, newVal: none, extraN: 1, extra: none},
		{name: "VoteForLog", typ: account.VoteForLog, newN: 4, newVal: addrVal, extraN: 1, extra: none, typicalNew: 2},
		{name: "VotesLog", typ: account.VotesLog, newN: 6, newVal: bigVal, extraN: 1, extra: none, typicalNew: 4},
		{name: "SignerLog", typ: account.SignerLog, newN: len(signersD()), newVal: signers, extraN: 1, extra: none, typicalNew: 3,
			unreachable: func(n, e int) string {
				if n <= 1 {
					return "NewVal is an empty signer list: setMultisigAccount requires a total weight >= 100, i.e. at least one signer"
				}
				return ""
			}},
	}
}

// ---------------------------------------------------------------------------------------------
// Redo on a recording account: the observable meaning of a change log

type recProcessor struct{ calls []string }

func (p *recProcessor) GetAccount(addr common.Address) types.AccountAccessor {
	return &recAccount{p: p, addr: addr}
}

type recAccount struct {
	types.AccountAccessor // nil: any method that is not overridden below panics, which the caller reports
	p                     *recProcessor
	addr                  common.Address
}

func (r *recAccount) rec(method string, args ...interface{}) {
	parts := make([]string, len(args))
	for i, a := range args {
		parts[i] = canon(a, false)
	}
	r.p.calls = append(r.p.calls, fmt.Sprintf("%x.%s(%s)", r.addr[:], method, strings.Join(parts, ";")))
}

func (r *recAccount) GetAddress() common.Address     { return r.addr }
func (r *recAccount) SetVoteFor(a common.Address)    { r.rec("SetVoteFor", a) }
func (r *recAccount) SetVotes(v *big.Int)            { r.rec("SetVotes", v) }
func (r *recAccount) SetCandidate(p types.Profile)   { r.rec("SetCandidate", p) }
func (r *recAccount) SetCandidateState(k, v string)  { r.rec("SetCandidateState", k, v) }
func (r *recAccount) SetBalance(b *big.Int)          { r.rec("SetBalance", b) }
func (r *recAccount) SetCodeHash(h common.Hash)      { r.rec("SetCodeHash", h) }
func (r *recAccount) SetCode(c types.Code)           { r.rec("SetCode", []byte(c)) }
func (r *recAccount) SetStorageRoot(h common.Hash)   { r.rec("SetStorageRoot", h) }
func (r *recAccount) SetAssetCodeRoot(h common.Hash) { r.rec("SetAssetCodeRoot", h) }
func (r *recAccount) SetAssetIdRoot(h common.Hash)   { r.rec("SetAssetIdRoot", h) }
func (r *recAccount) SetEquityRoot(h common.Hash)    { r.rec("SetEquityRoot", h) }
func (r *recAccount) PushEvent(e *types.Event) {
	r.rec("PushEvent", &types.Event{Address: e.Address, Topics: e.Topics, Data: e.Data})
}
func (r *recAccount) SetSuicide(b bool)                { r.rec("SetSuicide", b) }
func (r *recAccount) SetSingers(s types.Signers) error { r.rec("SetSingers", s); return nil }
func (r *recAccount) SetStorageState(k common.Hash, v []byte) error {
	r.rec("SetStorageState", k, v)
	return nil
}
func (r *recAccount) SetAssetCode(c common.Hash, a *types.Asset) error {
	r.rec("SetAssetCode", c, a)
	return nil
}
func (r *recAccount) SetAssetCodeTotalSupply(c common.Hash, v *big.Int) error {
	r.rec("SetAssetCodeTotalSupply", c, v)
	return nil
}
func (r *recAccount) SetAssetCodeState(c common.Hash, k, v string) error {
	r.rec("SetAssetCodeState", c, k, v)
	return nil
}
func (r *recAccount) SetAssetIdState(id common.Hash, d string) error {
	r.rec("SetAssetIdState", id, d)
	return nil
}
func (r *recAccount) SetEquityState(id common.Hash, e *types.AssetEquity) error {
	r.rec("SetEquityState", id, e)
	return nil
}

// redoEffect: what Redo does with the log (error or the setter call it makes).
func redoEffect(c *types.ChangeLog) string {
	p := &recProcessor{}
	var err error
	if pn, pc, _ := guard(func() { err = c.Redo(p) }); pn {
		return "panic:" + pc
	}
	if err != nil {
		return "error:" + err.Error()
	}
	return strings.Join(p.calls, " ")
}

func changeLogSuites() []*suite {
	var out []*suite
	for _, d := range changeLogDefs() {
		d := d
		sn := "ChangeLog/" + d.name
		out = append(out, &suite{name: sn, fields: []string{"Address", "Version", "NewVal", "Extra"}, dims: []int{3, len(clVersionD), d.newN, d.extraN},
			run: func(a *acc, idx []int) {
				a.evals++
				rp := replayCase{Kind: "encode", Target: sn, Idx: idx}
				c := d.mk(idx)
				unreach := ""
				if d.unreachable != nil {
					unreach = d.unreachable(idx[2], idx[3])
				}
				h0 := c.Hash()
				eff0 := redoEffect(c)
				cNoOld := *c
				cNoOld.OldVal = nil
				if ev, ok := cNoOld.NewVal.(*types.Event); ok && ev != nil {
					// the derived fields of an event are documented as "not secured by consensus" and are not encoded
					cNoOld.NewVal = &types.Event{Address: ev.Address, Topics: ev.Topics, Data: ev.Data}
				}
				a.soft = unreach
				dec, enc, ok := roundTrip(a, sn, idx, &cNoOld, func() interface{} { return new(types.ChangeLog) }, false, true, "")
				a.soft = ""
				if !ok {
					return
				}
				c2 := dec.(*types.ChangeLog)
				if c2.Hash() != h0 || c.Hash() != h0 {
					a.violate("C14/hash-changes/"+sn, fmt.Sprintf("%s %v: Hash %x -> %x", sn, idx, h0, c2.Hash()), rp, len(enc))
					return
				}
				eff2 := redoEffect(c2)
				if eff0 != eff2 {
					what := fmt.Sprintf("%s %v: the decoded log does not mean the same: Redo before = %s ; after the round trip = %s ; NewVal %T -> %T, Extra %T -> %T ; enc=%x",
						sn, idx, clipS(eff0, 300), clipS(eff2, 300), c.NewVal, c2.NewVal, c.Extra, c2.Extra, clipB(enc, 120))
					if unreach != "" {
						a.outcomes[sn+"/redo-differs(unreachable-shape)"]++
						a.note("redo-differs-on-unreachable-shape/"+sn, what+" ; unreachable because: "+unreach, len(enc))
						return
					}
					a.outcomes[sn+"/redo-differs"]++
					a.violate("C14/roundtrip-value-differs/"+sn+"/redo", what, rp, len(enc))
					return
				}
				if strings.HasPrefix(eff0, "error:") || strings.HasPrefix(eff0, "panic:") {
					a.outcomes[sn+"/ok/redo="+clipS(eff0, 40)]++
				} else {
					a.outcomes[fmt.Sprintf("%s/ok/new=%d/extra=%d", sn, idx[2], idx[3])]++
				}
			}})
	}
	return out
}

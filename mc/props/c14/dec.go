package main

import (
	"bytes"
	"fmt"
	"io"
	"math/big"
	"strings"
	"sync"

	"verifmc/core"

	_ "github.com/LemoFoundationLtd/lemochain-core/chain/account" // registers the per-type change log decoders
	"github.com/LemoFoundationLtd/lemochain-core/chain/types"
	"github.com/LemoFoundationLtd/lemochain-core/common"
	"github.com/LemoFoundationLtd/lemochain-core/common/rlp"
	"github.com/LemoFoundationLtd/lemochain-core/network"
	"github.com/LemoFoundationLtd/lemochain-core/store"
	"github.com/LemoFoundationLtd/lemochain-core/store/leveldb"
)

// ---------------------------------------------------------------------------------------------
// decode targets

type sSmall struct {
	A uint
	B []byte
}
type sTail struct {
	A uint
	T []uint `rlp:"tail"`
}
type sOptArr struct { // optional pointer to a byte array (as txdata.GasPayer / Recipient): nil is written as 80
	P *[2]byte `rlp:"nil"`
	U uint
}
type sOptStruct struct { // optional pointer to a struct: nil is written as c0
	P *sSmall `rlp:"nil"`
	U uint
}
type sOptArr1 struct { // the same, single field (reachable by 2-byte inputs)
	P *[2]byte `rlp:"nil"`
}
type sOptStruct1 struct {
	P *sSmall `rlp:"nil"`
}
type sBig struct {
	P *big.Int
	S string
}
type sArr1 struct { // one-byte array followed by another field (Stream.Kind re-arming after decodeByteArray)
	A [1]byte
	B []byte
}
type sPair struct{ K, V string }

type target struct {
	name string
	prim bool // low-level codec target: decode(b)=v  =>  encode(v)=b is asserted
	// (fingerprints of targets that exercise one mechanism are grouped, see fpGroup)
	mk func() interface{} // fresh pointer to decode into (maps pre-made exactly where the repo's callers pre-make them)
}

var boundary = []byte{0x00, 0x01, 0x7f, 0x80, 0x81, 0xb7, 0xb8, 0xb9, 0xbf, 0xc0, 0xc1, 0xf7, 0xf8, 0xf9, 0xfa, 0xff}

func primTargets() []target {
	return []target{
		{"uint8", true, func() interface{} { return new(uint8) }},
		{"uint16", true, func() interface{} { return new(uint16) }},
		{"uint32", true, func() interface{} { return new(uint32) }},
		{"uint64", true, func() interface{} { return new(uint64) }},
		{"uint", true, func() interface{} { return new(uint) }},
		{"bool", true, func() interface{} { return new(bool) }},
		{"big.Int", true, func() interface{} { return new(big.Int) }},
		{"*big.Int", true, func() interface{} { return new(*big.Int) }},
		{"[]byte", true, func() interface{} { return new([]byte) }},
		{"string", true, func() interface{} { return new(string) }},
		{"[1]byte", true, func() interface{} { return new([1]byte) }},
		{"[2]byte", true, func() interface{} { return new([2]byte) }},
		{"[3]byte", true, func() interface{} { return new([3]byte) }},
		{"[5]byte", true, func() interface{} { return new([5]byte) }},
		{"common.Address", true, func() interface{} { return new(common.Address) }},
		{"common.Hash", true, func() interface{} { return new(common.Hash) }},
		{"types.SignData", true, func() interface{} { return new(types.SignData) }},
		{"[]uint", true, func() interface{} { return new([]uint) }},
		{"[]uint16", true, func() interface{} { return new([]uint16) }},
		{"[][]byte", true, func() interface{} { return new([][]byte) }},
		{"[]string", true, func() interface{} { return new([]string) }},
		{"[2]uint", true, func() interface{} { return new([2]uint) }},
		{"[][]uint", true, func() interface{} { return new([][]uint) }},
		{"[]sPair", true, func() interface{} { return new([]sPair) }},
		{"struct{uint;[]byte}", true, func() interface{} { return new(sSmall) }},
		{"struct{uint;tail[]uint}", true, func() interface{} { return new(sTail) }},
		{"struct{opt*[2]byte;uint}", true, func() interface{} { return new(sOptArr) }},
		{"struct{opt*struct;uint}", true, func() interface{} { return new(sOptStruct) }},
		{"struct{opt*[2]byte}", true, func() interface{} { return new(sOptArr1) }},
		{"struct{opt*struct}", true, func() interface{} { return new(sOptStruct1) }},
		{"struct{*big.Int;string}", true, func() interface{} { return new(sBig) }},
		{"struct{[1]byte;[]byte}", true, func() interface{} { return new(sArr1) }},
		{"interface{}", true, func() interface{} { return new(interface{}) }},
		{"[]interface{}", true, func() interface{} { return new([]interface{}) }},
		{"rlp.RawValue", true, func() interface{} { return new(rlp.RawValue) }},
	}
}

func mkAsset() interface{} { // as account.GetAssetCode / decodeAsset do
	a := new(types.Asset)
	a.TotalSupply = new(big.Int)
	a.Profile = make(types.Profile)
	return a
}

func consensusTargets() []target {
	return []target{
		{"types.Header", false, func() interface{} { return new(types.Header) }},
		{"types.Block", false, func() interface{} { return new(types.Block) }},
		{"types.Blocks", false, func() interface{} { return new(types.Blocks) }},
		{"types.Transaction", false, func() interface{} { return new(types.Transaction) }},
		{"types.Transactions", false, func() interface{} { return new(types.Transactions) }},
		{"types.ChangeLog", false, func() interface{} { return new(types.ChangeLog) }},
		{"types.ChangeLogSlice", false, func() interface{} { return new(types.ChangeLogSlice) }},
		{"types.AccountData", false, func() interface{} { return new(types.AccountData) }},
		{"types.Asset", false, mkAsset},
		{"types.AssetEquity", false, func() interface{} { e := new(types.AssetEquity); e.Equity = new(big.Int); return e }},
		{"types.DeputyNode", false, func() interface{} { return new(types.DeputyNode) }},
		{"types.DeputyNodes", false, func() interface{} { return new(types.DeputyNodes) }},
		{"types.Profile", false, func() interface{} { p := make(types.Profile); return &p }},
		{"types.Signers", false, func() interface{} { return new(types.Signers) }},
		{"types.Event", false, func() interface{} { return new(types.Event) }},
		{"types.EventForStorage", false, func() interface{} { return new(types.EventForStorage) }},
		{"[]types.SignData", false, func() interface{} { return new([]types.SignData) }},
		{"store.Candidate", false, func() interface{} { return new(store.Candidate) }},
		{"store.RecordBody", false, func() interface{} { return new(store.RecordBody) }},
		{"leveldb.Position", false, func() interface{} { return new(leveldb.Position) }},
		{"network.ProtocolHandshake", false, func() interface{} { return new(network.ProtocolHandshake) }},
		{"network.LatestStatus", false, func() interface{} { return new(network.LatestStatus) }},
		{"network.GetLatestStatus", false, func() interface{} { return new(network.GetLatestStatus) }},
		{"network.BlockHashData", false, func() interface{} { return new(network.BlockHashData) }},
		{"network.GetBlocksData", false, func() interface{} { return new(network.GetBlocksData) }},
		{"network.GetSingleBlockData", false, func() interface{} { return new(network.GetSingleBlockData) }},
		{"network.BlockConfirmData", false, func() interface{} { return new(network.BlockConfirmData) }},
		{"network.GetConfirmInfo", false, func() interface{} { return new(network.GetConfirmInfo) }},
		{"network.BlockConfirms", false, func() interface{} { return new(network.BlockConfirms) }},
		{"network.DiscoverResData", false, func() interface{} { return new(network.DiscoverResData) }},
		{"network.DiscoverReqData", false, func() interface{} { return new(network.DiscoverReqData) }},
	}
}

func allTargets() []target { return append(primTargets(), consensusTargets()...) }

func targetByName(name string) *target {
	for _, t := range allTargets() {
		if t.name == name {
			tt := t
			return &tt
		}
	}
	return nil
}

// errClass reduces a decode error to a short stable class (no types, no field paths, no numbers).
func errClass(err error) string {
	if err == nil {
		return "ok"
	}
	s := err.Error()
	if i := strings.Index(s, " for "); i > 0 {
		s = s[:i]
	}
	if i := strings.Index(s, ": "); i > 0 && strings.HasPrefix(s, "rlp: invalid boolean") {
		s = s[:i]
	}
	if i := strings.Index(s, ", decoding into"); i > 0 {
		s = s[:i]
	}
	return s
}

// nonCanonClass names the way in which an accepted input differs from the canonical encoding.
func nonCanonClass(in, enc []byte) string {
	switch {
	case len(in) == 0:
		return "empty-input-accepted"
	case len(enc) < len(in) && bytes.HasPrefix(in, enc):
		return "trailing-bytes-accepted"
	case nonMinimalHead(in):
		return "non-minimal-length-prefix"
	case len(in) == len(enc):
		for i := range in {
			if in[i] != enc[i] {
				if in[i] == 0xc0 && enc[i] == 0x80 {
					return "empty-list-accepted-for-empty-string"
				}
				if in[i] == 0x80 && enc[i] == 0xc0 {
					return "empty-string-accepted-for-empty-list"
				}
				break
			}
		}
		return "same-length-other-item"
	case len(in) < len(enc):
		return "shorter-input(missing-or-short-item)"
	default:
		return "longer-input"
	}
}

// nonMinimalHead: the outermost header uses the long form for a size < 56 or has a zero length byte.
func nonMinimalHead(in []byte) bool {
	b := in[0]
	var ll int
	switch {
	case b >= 0xb8 && b <= 0xbf:
		ll = int(b - 0xb7)
	case b >= 0xf8:
		ll = int(b - 0xf7)
	default:
		return false
	}
	if len(in) < 1+ll {
		return true
	}
	if in[1] == 0 {
		return true
	}
	var size uint64
	for _, c := range in[1 : 1+ll] {
		size = size<<8 | uint64(c)
	}
	return size < 56
}

// fpGroup: one fingerprint per mechanism rather than per synthetic target type.
func fpGroup(target, class string) string {
	switch {
	case strings.HasPrefix(target, "struct{opt*") && (class == "empty-list-accepted-for-empty-string" || class == "empty-string-accepted-for-empty-list"):
		return "optional-pointer(rlp:nil)/nil-accepts-both-80-and-c0"
	case target == "struct{[1]byte;[]byte}":
		return "one-byte-array-then-field/" + class
	}
	return target + "/" + class
}

// hot-path outcome counting: per accumulator, per target name, per class (no string building)
func (a *acc) hit(target, class string) {
	m := a.hot[target]
	if m == nil {
		if a.hot == nil {
			a.hot = map[string]map[string]int64{}
		}
		m = map[string]int64{}
		a.hot[target] = m
	}
	m[class]++
}

// sentinel errors are classified by identity (no formatting)
var sentinelClass = map[error]string{}

func init() {
	for _, e := range []error{io.EOF, io.ErrUnexpectedEOF, rlp.ErrExpectedString, rlp.ErrExpectedList, rlp.ErrCanonInt, rlp.ErrCanonSize, rlp.ErrElemTooLarge,
		rlp.ErrValueTooLarge, rlp.ErrMoreThanOneValue, rlp.EOL, types.ErrUnknownChangeLogType, types.ErrWrongChangeLogData} {
		sentinelClass[e] = errClass(e)
	}
}

func fastErrClass(err error) (class string) {
	defer func() { // an error value of an unhashable dynamic type cannot be a map key
		if recover() != nil {
			class = errClass(err)
		}
	}()
	if c, ok := sentinelClass[err]; ok {
		return c
	}
	return errClass(err)
}

// decodeOne is the decoder-side oracle for one (target, input).
func decodeOne(a *acc, t *target, in []byte, family string) {
	a.evals++
	var (
		p    interface{}
		err  error
		enc  []byte
		eerr error
	)
	panicked, pclass, pdetail := guard(func() {
		p = t.mk()
		err = rlp.DecodeBytes(in, p)
	})
	if panicked {
		a.outcomes[t.name+"/PANIC"]++
		a.violate("C14/decode-panic/"+t.name+"/"+pclass,
			fmt.Sprintf("rlp.DecodeBytes(%x) into %s panics: %s", in, t.name, clipS(pdetail, 1500)),
			replayCase{Kind: "decode", Target: t.name, Hex: hx(in)}, len(in))
		return
	}
	if err != nil {
		a.hit(t.name, fastErrClass(err))
		return
	}
	panicked, pclass, pdetail = guard(func() { enc, eerr = rlp.EncodeToBytes(p) })
	switch {
	case panicked || eerr != nil:
		a.outcomes[t.name+"/ok-but-not-encodable"]++
		what := fmt.Sprintf("%s decoded from %x cannot be encoded again: panic=%v err=%v %s", t.name, in, panicked, eerr, clipS(pdetail, 800))
		a.violate("C14/decoded-not-encodable/"+t.name+"/"+pclass, what, replayCase{Kind: "decode", Target: t.name, Hex: hx(in)}, len(in))
	case bytes.Equal(enc, in):
		a.hit(t.name, "ok")
	case t.prim:
		cl := nonCanonClass(in, enc)
		a.outcomes[t.name+"/ok-noncanonical:"+cl]++
		if g := fpGroup(t.name, cl); strings.HasPrefix(g, "optional-pointer(rlp:nil)/") {
			// Not asserted. The statement's "exactly one byte string" clause is about primitive values; a
			// field tagged rlp:"nil" is an optional pointer, and the codec documents (decode.go, doc of
			// Decode: "input values of size zero decode as a nil pointer") that the empty string and
			// the empty list both mean nil. Counted and reported in the evidence notes.
			a.note("codec-documented-dual-nil/"+g, fmt.Sprintf("%s: decode(%x) succeeds and the value encodes as %x", t.name, in, enc), len(in))
			break
		}
		a.violate("C14/codec-noncanonical/"+fpGroup(t.name, cl),
			fmt.Sprintf("low-level codec accepts a second encoding for %s: decode(%x) succeeds and the value encodes as %x", t.name, in, enc),
			replayCase{Kind: "decode", Target: t.name, Hex: hx(in)}, len(in))
	default:
		cl := nonCanonClass(in, enc)
		a.outcomes[t.name+"/ok-reencodes-differently"]++
		a.note("custom-decoder-accepts-noncanonical/"+t.name+"/"+cl+"/"+family, fmt.Sprintf("in=%x reencoded=%x", in, enc), len(in))
	}
}

// rawOne checks the raw.go helpers (Split / SplitString / SplitList / CountValues) on one input.
func rawOne(a *acc, in []byte) {
	a.evals++
	panicked, pclass, pdetail := guard(func() {
		k, content, rest, err := rlp.Split(in)
		if err != nil {
			a.outcomes["rlp.Split/"+errClass(err)]++
		} else {
			consumed := in[:len(in)-len(rest)]
			var re []byte
			switch k {
			case rlp.Byte, rlp.String:
				re, _ = rlp.EncodeToBytes(content)
			default:
				re, _ = rlp.EncodeToBytes([]rlp.RawValue{rlp.RawValue(content)})
			}
			if bytes.Equal(re, consumed) {
				a.outcomes["rlp.Split/ok/"+k.String()]++
			} else {
				a.outcomes["rlp.Split/ok-noncanonical/"+k.String()]++
				a.violate("C14/codec-noncanonical/rlp.Split/"+k.String()+"/"+nonCanonClass(consumed, re),
					fmt.Sprintf("rlp.Split(%x) accepts header+content %x whose canonical form is %x", in, consumed, re),
					replayCase{Kind: "decode", Target: "rlp.Split", Hex: hx(in)}, len(in))
			}
		}
		if _, _, err := rlp.SplitString(in); err != nil {
			a.outcomes["rlp.SplitString/"+errClass(err)]++
		} else {
			a.outcomes["rlp.SplitString/ok"]++
		}
		if _, _, err := rlp.SplitList(in); err != nil {
			a.outcomes["rlp.SplitList/"+errClass(err)]++
		} else {
			a.outcomes["rlp.SplitList/ok"]++
		}
		if n, err := rlp.CountValues(in); err != nil {
			a.outcomes["rlp.CountValues/"+errClass(err)]++
		} else if n > 3 {
			a.outcomes["rlp.CountValues/ok/>3"]++
		} else {
			a.outcomes[fmt.Sprintf("rlp.CountValues/ok/%d", n)]++
		}
	})
	if panicked {
		a.violate("C14/decode-panic/rlp.raw/"+pclass, fmt.Sprintf("raw.go helper panics on %x: %s", in, clipS(pdetail, 1500)),
			replayCase{Kind: "decode", Target: "rlp.Split", Hex: hx(in)}, len(in))
	}
}

// ---------------------------------------------------------------------------------------------
// enumeration

// forAllStrings calls f for every string of exactly n symbols over alpha whose first symbols are
// fixed by prefix (a shard). buf is reused.
func forAllStrings(alpha []byte, n int, prefix []byte, f func([]byte)) {
	buf := make([]byte, n)
	copy(buf, prefix)
	var rec func(i int)
	rec = func(i int) {
		if i == n {
			f(buf)
			return
		}
		for _, c := range alpha {
			buf[i] = c
			rec(i + 1)
		}
	}
	rec(len(prefix))
}

func fullAlphabet() []byte {
	a := make([]byte, 256)
	for i := range a {
		a[i] = byte(i)
	}
	return a
}

type job func(a *acc)

// runJobs executes jobs on Opt.Workers goroutines; jobs are skipped (and counted) once the
// internal deadline has passed.
func runJobs(jobs []job) (skipped int) {
	ch := make(chan job)
	var wg sync.WaitGroup
	var mu sync.Mutex
	for w := 0; w < core.Opt.Workers; w++ {
		wg.Add(1)
		go func() {
			defer wg.Done()
			a := newAcc()
			for j := range ch {
				if core.OutOfTime() {
					mu.Lock()
					skipped++
					mu.Unlock()
					continue
				}
				j(a)
			}
			flush(a)
		}()
	}
	for _, j := range jobs {
		ch <- j
	}
	close(ch)
	wg.Wait()
	return skipped
}

func inAlphabet(b []byte, alpha map[byte]bool) bool {
	for _, c := range b {
		if !alpha[c] {
			return false
		}
	}
	return true
}

// decoderSide enumerates families F1..F4 (see main.go for the description).
func decoderSide(r *core.Result) {
	targets := allTargets()
	fullLen, bndLen, tailFull, tailBnd := 2, 4, 2, 4
	if core.Thorough() {
		fullLen, bndLen, tailFull, tailBnd = 3, 6, 2, 5
	}
	full := fullAlphabet()
	var jobs []job
	var nInputs int64

	one := func(a *acc, in []byte, fam string) {
		for i := range targets {
			decodeOne(a, &targets[i], in, fam)
		}
		rawOne(a, in)
	}

	// The two bulk families (F1, F2) are queued last and by increasing length, so that an internal
	// deadline cuts the longest strings of the largest family and nothing else.
	var bulk []job
	// F1: every byte string of length <= fullLen
	for n := 0; n <= fullLen; n++ {
		n := n
		if n == 0 {
			bulk = append(bulk, func(a *acc) { one(a, []byte{}, "F1"); a.counters["inputs_F1_all_bytes"]++ })
			continue
		}
		for _, c := range full {
			c := c
			bulk = append(bulk, func(a *acc) {
				forAllStrings(full, n, []byte{c}, func(b []byte) { one(a, b, "F1"); a.counters["inputs_F1_all_bytes"]++ })
			})
		}
		x := int64(1)
		for i := 0; i < n; i++ {
			x *= 256
		}
		nInputs += x
	}
	// F2: every string of length fullLen < n <= bndLen over the boundary alphabet
	for n := fullLen + 1; n <= bndLen; n++ {
		n := n
		for _, c1 := range boundary {
			for _, c2 := range boundary {
				pre := []byte{c1, c2}
				bulk = append(bulk, func(a *acc) {
					forAllStrings(boundary, n, pre, func(b []byte) { one(a, b, "F2"); a.counters["inputs_F2_boundary_alphabet"]++ })
				})
			}
		}
	}
	// F3: header forms: short form and every long form (1..8 length bytes, zero padded) for payload
	// lengths around the 55/56, 255/256 and 65535/65536 edges, strings and lists, with/without a trailing byte
	for _, in := range headerForms() {
		in := in
		jobs = append(jobs, func(a *acc) { one(a, in, "F3"); a.counters["inputs_F3_header_forms"]++ })
	}
	// F4: arbitrary short tails behind a well-formed prefix, so that the bytes reach the per-type
	// decoders of ChangeLog (NewVal/Extra slots), the Profile slot of Asset, the Candidate…Signers
	// slots of AccountData
	tailAlpha := map[byte]bool{}
	for _, c := range boundary {
		tailAlpha[c] = true
	}
	for _, e := range embeddings() {
		e := e
		tgt := targetByName(e.target)
		runTail := func(a *acc, tail []byte) {
			in := wrapList(append(append([]byte{}, e.prefix...), tail...))
			decodeOne(a, tgt, in, "F4:"+e.name)
			a.counters["inputs_F4_embedded_tails"]++
		}
		for n := 0; n <= tailFull; n++ {
			n := n
			if n == 0 {
				jobs = append(jobs, func(a *acc) { runTail(a, nil) })
				continue
			}
			if n == 3 { // shard the 16.8M case
				for _, c := range full {
					c := c
					jobs = append(jobs, func(a *acc) { forAllStrings(full, n, []byte{c}, func(b []byte) { runTail(a, b) }) })
				}
				continue
			}
			jobs = append(jobs, func(a *acc) { forAllStrings(full, n, nil, func(b []byte) { runTail(a, b) }) })
		}
		for n := tailFull + 1; n <= tailBnd; n++ {
			n := n
			for _, c1 := range boundary {
				c1 := c1
				jobs = append(jobs, func(a *acc) { forAllStrings(boundary, n, []byte{c1}, func(b []byte) { runTail(a, b) }) })
			}
		}
	}
	// F5: slot variants of valid Header / Transaction encodings
	jobs = append(jobs, func(a *acc) { slotVariants(a) })

	nSmall := len(jobs)
	jobs = append(jobs, bulk...)
	skipped := runJobs(jobs)
	if skipped > 0 {
		r.NotExhaustive(fmt.Sprintf("decoder side: internal deadline hit, %d of %d shards not run (queue order: F3, F4, F5 = %d shards, then F1 by length, then F2 by length; see counters inputs_F* for what was completed)", skipped, len(jobs), nSmall))
	}
	r.Extra["decoder_bounds"] = map[string]interface{}{
		"F1_all_bytes_max_len":         fullLen,
		"F2_boundary_alphabet_max_len": bndLen,
		"F2_alphabet":                  hx(boundary),
		"F4_tail_all_bytes_max_len":    tailFull,
		"F4_tail_boundary_max_len":     tailBnd,
		"targets_primitive":            len(primTargets()),
		"targets_consensus":            len(consensusTargets()),
		"embeddings":                   len(embeddings()),
	}
}

// headerForms: see F3.
func headerForms() [][]byte {
	var out [][]byte
	lens := []int{0, 1, 2, 55, 56, 57, 255, 256, 257, 65535, 65536}
	for _, list := range []bool{false, true} {
		for _, L := range lens {
			var payloads [][]byte
			if list {
				payloads = [][]byte{bytes.Repeat([]byte{0x01}, L)}
			} else if L == 1 {
				payloads = [][]byte{{0x05}, {0x85}}
			} else {
				payloads = [][]byte{bytes.Repeat([]byte{0x61}, L), bytes.Repeat([]byte{0x00}, L)}
			}
			for _, pl := range payloads {
				var heads [][]byte
				small, large := byte(0x80), byte(0xb7)
				if list {
					small, large = 0xc0, 0xf7
				}
				if L < 56 {
					heads = append(heads, []byte{small + byte(L)})
				}
				for ll := 1; ll <= 8; ll++ {
					if ll < 8 && L >= 1<<(8*uint(ll)) {
						continue
					}
					h := make([]byte, 1+ll)
					h[0] = large + byte(ll)
					x := uint64(L)
					for i := ll; i >= 1; i-- {
						h[i] = byte(x)
						x >>= 8
					}
					heads = append(heads, h)
				}
				for _, h := range heads {
					base := append(append([]byte{}, h...), pl...)
					out = append(out, base)
					out = append(out, append(append([]byte{}, base...), 0x00))
					if len(pl) > 0 {
						out = append(out, base[:len(base)-1]) // one byte short
					}
				}
			}
		}
	}
	return out
}

func wrapList(payload []byte) []byte {
	// canonical list header for the payload
	b, err := rlp.EncodeToBytes([]rlp.RawValue{rlp.RawValue(payload)})
	if err != nil {
		panic(err)
	}
	return b
}

type embedding struct {
	name, target string
	prefix       []byte
}

func mustEnc(v interface{}) []byte {
	b, err := rlp.EncodeToBytes(v)
	if err != nil {
		panic(err)
	}
	return b
}

func embeddings() []embedding {
	var out []embedding
	addr := common.HexToAddress("0x0100000000000000000000000000000000000a01")
	for t := 0; t <= 20; t++ { // 1..19 registered, 0 and 20 not
		p := append(mustEnc(uint32(t)), mustEnc(addr)...)
		p = append(p, mustEnc(uint32(1))...)
		out = append(out, embedding{fmt.Sprintf("ChangeLog[%s]", types.ChangeLogType(t).String()), "types.ChangeLog", p})
	}
	// Asset up to (not including) Profile
	var p []byte
	for _, f := range []interface{}{uint32(1), true, common.HexToHash("0xc0de"), uint32(18), big.NewInt(1000), true, addr} {
		p = append(p, mustEnc(f)...)
	}
	out = append(out, embedding{"Asset.Profile", "types.Asset", p})
	// AccountData up to and including VoteFor (Address, Balance, CodeHash, 4 roots, TxHashList, VoteFor)
	p = nil
	for _, f := range []interface{}{addr, big.NewInt(5), common.Hash{}, common.Hash{}, common.Hash{}, common.Hash{}, common.Hash{}, []common.Hash{}, addr} {
		p = append(p, mustEnc(f)...)
	}
	out = append(out, embedding{"AccountData.Candidate..Signers", "types.AccountData", p})
	// DeputyNode after MinerAddress; AssetEquity after the two hashes; Transactions wrapper
	out = append(out, embedding{"DeputyNode.NodeID..Votes", "types.DeputyNode", mustEnc(addr)})
	out = append(out, embedding{"AssetEquity.Equity", "types.AssetEquity", append(mustEnc(common.HexToHash("0x01")), mustEnc(common.HexToHash("0x02"))...)})
	return out
}

// slotVariants replaces one slot of a valid Header / Transaction encoding by alternative short
// encodings (kept as information unless something panics): which byte strings are accepted as the
// same object.
func slotVariants(a *acc) {
	h := &types.Header{ParentHash: common.HexToHash("0x11"), MinerAddress: common.HexToAddress("0x0101"), VersionRoot: common.HexToHash("0x22"),
		TxRoot: common.HexToHash("0x33"), LogRoot: common.HexToHash("0x44"), Height: 7, GasLimit: 1000, GasUsed: 10, Time: 1600000000,
		SignData: bytes.Repeat([]byte{1}, 65), DeputyRoot: bytes.Repeat([]byte{2}, 32), Extra: "x"}
	fields := [][]byte{mustEnc(h.ParentHash), mustEnc(h.MinerAddress), mustEnc(h.VersionRoot), mustEnc(h.TxRoot), mustEnc(h.LogRoot), mustEnc(h.Height),
		mustEnc(h.GasLimit), mustEnc(h.GasUsed), mustEnc(h.Time), mustEnc(h.SignData), mustEnc(h.DeputyRoot), mustEnc(h.Extra)}
	short31 := append([]byte{0x9f}, bytes.Repeat([]byte{0x33}, 31)...)
	long33 := append([]byte{0xa1}, bytes.Repeat([]byte{0x33}, 33)...)
	zero32 := append([]byte{0xa0}, make([]byte, 32)...)
	empty32 := mustEnc(common.Sha3Nil)
	variants := [][]byte{{0x80}, {0x00}, {0x01}, {0x7f}, {0x81, 0x80}, {0xc0}, short31, long33, zero32, empty32}
	tgt := targetByName("types.Header")
	for slot := 0; slot < len(fields); slot++ {
		for _, v := range variants {
			var pl []byte
			for i, f := range fields {
				if i == slot {
					pl = append(pl, v...)
				} else {
					pl = append(pl, f...)
				}
			}
			decodeOne(a, tgt, wrapList(pl), fmt.Sprintf("F5:Header.slot%d", slot))
			a.counters["inputs_F5_slot_variants"]++
		}
	}
	// transaction: every slot replaced by 80 / c0 / 00 / 01 / c1 80
	tx := mirrorTx{Type: 0, Version: 1, ChainID: 200, From: common.HexToAddress("0x0101"), GasPayer: nil, Recipient: nil, RecipientName: "n",
		GasPrice: big.NewInt(3), GasLimit: 21000, GasUsed: 1, Amount: big.NewInt(9), Data: []byte{0xaa, 0xbb}, Expiration: 1600000000, Message: "m",
		Sigs: [][]byte{bytes.Repeat([]byte{1}, 65)}, GasPayerSigs: [][]byte{}}
	tf := tx.fieldEncodings()
	ttgt := targetByName("types.Transaction")
	for slot := 0; slot < len(tf); slot++ {
		for _, v := range [][]byte{{0x80}, {0xc0}, {0x00}, {0x01}, {0xc1, 0x80}} {
			var pl []byte
			for i, f := range tf {
				if i == slot {
					pl = append(pl, v...)
				} else {
					pl = append(pl, f...)
				}
			}
			in := wrapList(pl)
			decodeOne(a, ttgt, in, fmt.Sprintf("F5:Transaction.slot%d", slot))
			a.counters["inputs_F5_slot_variants"]++
		}
	}
	// the optional-pointer slots on a consensus type: same transaction, same Hash(), two byte strings
	for _, slot := range []int{4, 5} {
		var plA, plB []byte
		for i, f := range tf {
			if i == slot {
				plA = append(plA, 0x80)
				plB = append(plB, 0xc0)
			} else {
				plA = append(plA, f...)
				plB = append(plB, f...)
			}
		}
		var ta, tb types.Transaction
		ea, eb := rlp.DecodeBytes(wrapList(plA), &ta), rlp.DecodeBytes(wrapList(plB), &tb)
		if ea == nil && eb == nil && ta.Hash() == tb.Hash() {
			a.note(fmt.Sprintf("two-encodings-same-tx-hash/Transaction.slot%d(80 vs c0)", slot),
				fmt.Sprintf("A=%x B=%x both decode, Hash()=%x for both", wrapList(plA), wrapList(plB), ta.Hash()), len(plA))
		}
	}
}

package main

import (
	"encoding/hex"
	"fmt"
	"math/big"
	"reflect"
	"sort"
	"strings"
)

// canon prints a value in a canonical text form that identifies the value "under the type's own
// notion of equality": nil and empty slices/maps are the same, a nil *big.Int is 0 (every Clone()
// in the repo maps nil to 0 and the codec writes both as 0x80), maps are printed in key order,
// unexported fields (caches) are skipped. withTypes additionally prints the dynamic type behind
// every interface value (used for change logs, where Redo type-asserts NewVal/Extra).
func canon(v interface{}, withTypes bool) string {
	var sb strings.Builder
	canonValue(&sb, reflect.ValueOf(v), withTypes)
	return sb.String()
}

var (
	bigIntT    = reflect.TypeOf(big.Int{})
	bigIntPtrT = reflect.TypeOf((*big.Int)(nil))
)

func canonValue(sb *strings.Builder, v reflect.Value, wt bool) {
	if !v.IsValid() {
		sb.WriteString("nil")
		return
	}
	t := v.Type()
	switch {
	case t == bigIntPtrT:
		if v.IsNil() {
			sb.WriteString("0")
		} else {
			sb.WriteString(v.Interface().(*big.Int).String())
		}
		return
	case t == bigIntT:
		b := v.Interface().(big.Int)
		sb.WriteString(b.String())
		return
	}
	switch v.Kind() {
	case reflect.Bool:
		fmt.Fprintf(sb, "%v", v.Bool())
	case reflect.Uint, reflect.Uint8, reflect.Uint16, reflect.Uint32, reflect.Uint64, reflect.Uintptr:
		fmt.Fprintf(sb, "%d", v.Uint())
	case reflect.Int, reflect.Int8, reflect.Int16, reflect.Int32, reflect.Int64:
		fmt.Fprintf(sb, "%d", v.Int())
	case reflect.String:
		sb.WriteString("s:" + hex.EncodeToString([]byte(v.String())))
	case reflect.Slice, reflect.Array:
		if t.Elem().Kind() == reflect.Uint8 {
			b := make([]byte, v.Len())
			for i := range b {
				b[i] = byte(v.Index(i).Uint())
			}
			sb.WriteString("x:" + hex.EncodeToString(b))
			return
		}
		sb.WriteString("[")
		for i := 0; i < v.Len(); i++ {
			if i > 0 {
				sb.WriteString(",")
			}
			canonValue(sb, v.Index(i), wt)
		}
		sb.WriteString("]")
	case reflect.Map:
		type kv struct{ k, v string }
		var kvs []kv
		it := v.MapRange()
		for it.Next() {
			var kb, vb strings.Builder
			canonValue(&kb, it.Key(), wt)
			canonValue(&vb, it.Value(), wt)
			kvs = append(kvs, kv{kb.String(), vb.String()})
		}
		sort.Slice(kvs, func(i, j int) bool { return kvs[i].k < kvs[j].k })
		sb.WriteString("{")
		for i, e := range kvs {
			if i > 0 {
				sb.WriteString(",")
			}
			sb.WriteString(e.k + "=" + e.v)
		}
		sb.WriteString("}")
	case reflect.Ptr:
		if v.IsNil() {
			sb.WriteString("nil")
			return
		}
		sb.WriteString("&")
		canonValue(sb, v.Elem(), wt)
	case reflect.Interface:
		if v.IsNil() {
			sb.WriteString("nil")
			return
		}
		if wt {
			sb.WriteString("(" + v.Elem().Type().String() + ")")
		}
		canonValue(sb, v.Elem(), wt)
	case reflect.Struct:
		sb.WriteString("{")
		first := true
		for i := 0; i < t.NumField(); i++ {
			if t.Field(i).PkgPath != "" {
				continue
			}
			if !first {
				sb.WriteString(",")
			}
			first = false
			sb.WriteString(t.Field(i).Name + ":")
			canonValue(sb, v.Field(i), wt)
		}
		sb.WriteString("}")
	default:
		fmt.Fprintf(sb, "?%s", v.Kind())
	}
}

func hx(b []byte) string { return hex.EncodeToString(b) }

func unhx(s string) []byte {
	b, err := hex.DecodeString(s)
	if err != nil {
		panic(err)
	}
	return b
}

func clipS(s string, n int) string {
	if len(s) > n {
		return s[:n] + "…"
	}
	return s
}

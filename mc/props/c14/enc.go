package main

import (
	"bytes"
	"fmt"
	"math/big"
	"sort"
	"strings"

	"verifmc/core"
	"verifmc/node"

	"github.com/LemoFoundationLtd/lemochain-core/chain/types"
	"github.com/LemoFoundationLtd/lemochain-core/common"
	"github.com/LemoFoundationLtd/lemochain-core/common/crypto"
	"github.com/LemoFoundationLtd/lemochain-core/common/merkle"
	"github.com/LemoFoundationLtd/lemochain-core/common/rlp"
	"github.com/LemoFoundationLtd/lemochain-core/network"
	"github.com/LemoFoundationLtd/lemochain-core/store"
	"github.com/LemoFoundationLtd/lemochain-core/store/leveldb"
)

// ---------------------------------------------------------------------------------------------
// suites: a value is a vector of indices into per-field mini-domains

type suite struct {
	name   string
	fields []string
	dims   []int
	bases  [][]int // used only when the full product exceeds fullProductLimit
	run    func(a *acc, idx []int)
}

const fullProductLimit = 1000000

func (s *suite) product() int64 {
	p := int64(1)
	for _, d := range s.dims {
		p *= int64(d)
		if p > 1<<40 {
			return p
		}
	}
	return p
}

// vectors lists the index vectors to run: the full product when it is small enough, otherwise each
// base plus all 1- and 2-field deviations from each base (de-duplicated).
func (s *suite) vectors() (vs [][]int, mode string) {
	n := len(s.dims)
	if s.product() <= fullProductLimit {
		idx := make([]int, n)
		for {
			vs = append(vs, append([]int{}, idx...))
			i := n - 1
			for ; i >= 0; i-- {
				idx[i]++
				if idx[i] < s.dims[i] {
					break
				}
				idx[i] = 0
			}
			if i < 0 {
				break
			}
		}
		return vs, "full-product"
	}
	seen := map[string]bool{}
	add := func(v []int) {
		k := fmt.Sprint(v)
		if !seen[k] {
			seen[k] = true
			vs = append(vs, append([]int{}, v...))
		}
	}
	for _, b := range s.bases {
		if len(b) != n {
			panic("bad base in suite " + s.name)
		}
		add(b)
		for i := 0; i < n; i++ {
			for x := 0; x < s.dims[i]; x++ {
				v := append([]int{}, b...)
				v[i] = x
				add(v)
				for j := i + 1; j < n; j++ {
					for y := 0; y < s.dims[j]; y++ {
						w := append([]int{}, v...)
						w[j] = y
						add(w)
					}
				}
			}
		}
	}
	return vs, fmt.Sprintf("1-and-2-field-deviations-from-%d-bases", len(s.bases))
}

func last(dims []int) []int {
	v := make([]int, len(dims))
	for i, d := range dims {
		v[i] = d - 1
	}
	return v
}

func zeros(n int) []int { return make([]int, n) }

// ---------------------------------------------------------------------------------------------
// mini-domains

var (
	hashTyp = common.HexToHash("0x8a6bb7a1ac3b1f1e2c4d5e6f708192a3b4c5d6e7f8091a2b3c4d5e6f70819200")
	hashFF  = common.BytesToHash(bytes.Repeat([]byte{0xff}, 32))
	hashD   = []common.Hash{{}, common.HexToHash("0x01"), hashTyp, hashFF}
	rootD   = []common.Hash{{}, merkle.EmptyTrieHash, hashTyp, hashFF, common.HexToHash("0x01")}

	addrFF = common.BytesToAddress(bytes.Repeat([]byte{0xff}, 20))
	addrD  []common.Address // zero, 00..01, key u0, ff..ff  (filled in initDomains)

	u32D = []uint32{0, 1, 127, 128, 1600000000, 0xffffffff}
	u64D = []uint64{0, 1, 127, 128, 21000, 0xffffffffffffffff}
	u16D = []uint16{0, 1, 200, 65535}

	big256 = new(big.Int).Sub(new(big.Int).Lsh(big.NewInt(1), 256), big.NewInt(1))
	bigTyp = new(big.Int).Mul(big.NewInt(1234567), new(big.Int).Exp(big.NewInt(10), big.NewInt(18), nil))
	// *big.Int fields: nil, 0, 1, 128, typical, 2^256-1
	bigPD = []*big.Int{nil, big.NewInt(0), big.NewInt(1), big.NewInt(128), bigTyp, big256}

	bytesD = [][]byte{nil, {}, {0x00}, {0x7f}, {0x80}, bytes.Repeat([]byte{0xab}, 32), bytes.Repeat([]byte{0xcd}, 55), bytes.Repeat([]byte{0xef}, 56), bytes.Repeat([]byte{0x11}, 1024)}
	strD   = []string{"", "a", "lemo-user.01", strings.Repeat("z", 256), "\xff\x00\xfe"}

	sigValidMarker = []byte("VALID") // replaced by a real signature over the object's hash
)

func initDomains() {
	addrD = []common.Address{{}, common.HexToAddress("0x01"), node.User(0).Addr, addrFF}
}

func cpBig(b *big.Int) *big.Int {
	if b == nil {
		return nil
	}
	return new(big.Int).Set(b)
}

func profileD() []types.Profile {
	return []types.Profile{
		nil,
		{},
		{"name": "x"},
		{types.CandidateKeyIsCandidate: "true", types.CandidateKeyNodeID: strings.Repeat("5e", 64), types.CandidateKeyHost: "127.0.0.1", types.CandidateKeyPort: "7001",
			types.CandidateKeyIncomeAddress: "Lemo83GN72GYH2NZ8BA729Z9TCT7KQ5FC3CR6DJG", types.CandidateKeyDepositAmount: "5000000000000000000000000", types.CandidateKeyIntroduction: "intro"},
		{"": "", "a": "", "b": strings.Repeat("v", 300), "\x00": "\x80", "zz": "1", "za": "2", "aa": "3", "ab": "4", "ba": "5"},
	}
}

func cpProfile(p types.Profile) types.Profile {
	if p == nil {
		return nil
	}
	q := make(types.Profile)
	// insert in descending key order so that insertion order differs from sorted order
	keys := make([]string, 0, len(p))
	for k := range p {
		keys = append(keys, k)
	}
	sort.Sort(sort.Reverse(sort.StringSlice(keys)))
	for _, k := range keys {
		q[k] = p[k]
	}
	return q
}

func signersD() []types.Signers {
	return []types.Signers{
		nil,
		{},
		{{Address: addrD[2], Weight: 100}},
		{{Address: addrD[1], Weight: 50}, {Address: addrD[2], Weight: 50}},
		{{Address: addrD[3], Weight: 255}, {Address: addrD[0], Weight: 0}, {Address: addrD[2], Weight: 1}},
	}
}

// ---------------------------------------------------------------------------------------------
// generic helpers

func encodeGuard(v interface{}) (enc []byte, err error, pclass string) {
	panicked, pc, _ := guard(func() { enc, err = rlp.EncodeToBytes(v) })
	if panicked {
		return nil, fmt.Errorf("panic"), pc
	}
	return enc, err, ""
}

func decodeGuard(b []byte, p interface{}) (err error, pclass string) {
	panicked, pc, _ := guard(func() { err = rlp.DecodeBytes(b, p) })
	if panicked {
		return fmt.Errorf("panic"), pc
	}
	return err, ""
}

// firstDiff names the first top-level component in which two canonical strings differ.
func firstDiff(a, b string) string {
	fa, fb := splitTop(a), splitTop(b)
	for i := 0; i < len(fa) && i < len(fb); i++ {
		if fa[i] != fb[i] {
			name := fa[i]
			if j := strings.Index(name, ":"); j > 0 {
				name = name[:j]
			}
			return name
		}
	}
	return "shape"
}

// splitTop splits "{A:..,B:..}" at top-level commas.
func splitTop(s string) []string {
	s = strings.TrimPrefix(s, "&")
	if len(s) < 2 || s[0] != '{' {
		return []string{s}
	}
	s = s[1 : len(s)-1]
	var out []string
	depth, start := 0, 0
	for i, c := range s {
		switch c {
		case '{', '[':
			depth++
		case '}', ']':
			depth--
		case ',':
			if depth == 0 {
				out = append(out, s[start:i])
				start = i + 1
			}
		}
	}
	return append(out, s[start:])
}

// roundTrip is the generic encoder-side oracle for types without hidden state: encode, decode into
// fresh(), compare canonical forms, re-encode. hashed: byte identity of the re-encoding and
// determinism of the encoding are asserted.
func roundTrip(a *acc, sname string, idx []int, v interface{}, fresh func() interface{}, withTypes, hashed bool, tag string) (dec interface{}, enc []byte, ok bool) {
	rp := replayCase{Kind: "encode", Target: sname, Idx: idx}
	enc, err, pc := encodeGuard(v)
	if err != nil {
		a.outcomes[sname+"/encode-fails"+tag]++
		a.violate("C14/encode-fails/"+sname+"/"+pc, fmt.Sprintf("%s %v: value %s cannot be encoded: %v %s", sname, idx, clipS(canon(v, withTypes), 400), err, pc), rp, len(idx))
		return nil, nil, false
	}
	dec = fresh()
	if err, pc := decodeGuard(enc, dec); err != nil {
		a.outcomes[sname+"/own-encoding-rejected"+tag]++
		a.violate("C14/own-encoding-rejected/"+sname+"/"+errClass(err)+pc,
			fmt.Sprintf("%s %v: decode(encode(v)) fails with %v %s; v=%s enc=%x", sname, idx, err, pc, clipS(canon(v, withTypes), 400), clipB(enc, 200)), rp, len(enc))
		return nil, enc, false
	}
	c1, c2 := canon(v, withTypes), canon(dec, withTypes)
	if c1 != c2 && a.soft != "" {
		a.outcomes[sname+"/value-changes(unreachable-shape)"+tag]++
		a.note("value-differs-on-unreachable-shape/"+sname, fmt.Sprintf("idx=%v v=%s back=%s enc=%x ; unreachable because: %s", idx, clipS(c1, 200), clipS(c2, 200), clipB(enc, 80), a.soft), len(enc))
		return dec, enc, false
	}
	if c1 != c2 {
		d := firstDiff(c1, c2)
		a.outcomes[sname+"/value-changes:"+d+tag]++
		a.violate("C14/roundtrip-value-differs/"+sname+"/"+d,
			fmt.Sprintf("%s %v: decode(encode(v)) != v in %s\n  v   =%s\n  back=%s\n  enc=%x", sname, idx, d, clipS(c1, 600), clipS(c2, 600), clipB(enc, 200)), rp, len(enc))
		return dec, enc, false
	}
	enc2, err, pc := encodeGuard(dec)
	if err != nil {
		a.violate("C14/encode-fails/"+sname+"/decoded/"+pc, fmt.Sprintf("%s %v: decoded value cannot be encoded: %v %s", sname, idx, err, pc), rp, len(enc))
		return dec, enc, false
	}
	if !bytes.Equal(enc, enc2) {
		if hashed {
			a.outcomes[sname+"/reencoding-differs"+tag]++
			a.violate("C14/reencoding-differs/"+sname, fmt.Sprintf("%s %v: encode(decode(encode(v))) != encode(v): %x vs %x", sname, idx, clipB(enc2, 200), clipB(enc, 200)), rp, len(enc))
			return dec, enc, false
		}
		a.note("encoding-not-a-function-of-the-value/"+sname, fmt.Sprintf("idx=%v first=%x second=%x", idx, clipB(enc, 120), clipB(enc2, 120)), len(enc))
	}
	// determinism of the encoding of one and the same value (map iteration inside custom encoders)
	for i := 0; i < 4; i++ {
		e3, _, _ := encodeGuard(v)
		if !bytes.Equal(e3, enc) {
			if hashed {
				a.outcomes[sname+"/encoding-nondeterministic"+tag]++
				a.violate("C14/encoding-nondeterministic/"+sname, fmt.Sprintf("%s %v: two encodings of the same value differ: %x vs %x", sname, idx, clipB(enc, 200), clipB(e3, 200)), rp, len(enc))
				return dec, enc, false
			}
			a.note("encoding-not-a-function-of-the-value/"+sname, fmt.Sprintf("idx=%v first=%x again=%x", idx, clipB(enc, 120), clipB(e3, 120)), len(enc))
			break
		}
	}
	return dec, enc, true
}

func clipB(b []byte, n int) []byte {
	if len(b) > n {
		return b[:n]
	}
	return b
}

// ---------------------------------------------------------------------------------------------
// signatures

func signWith(key *node.Key, h common.Hash) []byte {
	sig, err := crypto.Sign(h[:], key.Priv)
	if err != nil {
		panic(err)
	}
	return sig
}

// ---------------------------------------------------------------------------------------------
// Header

var headerFields = []string{"ParentHash", "MinerAddress", "VersionRoot", "TxRoot", "LogRoot", "Height", "GasLimit", "GasUsed", "Time", "SignData", "DeputyRoot", "Extra"}

var hdrSigD = [][]byte{nil, {}, sigValidMarker, make([]byte, 65), {0x01}}
var hdrDeputyRootD = [][]byte{nil, {}, bytes.Repeat([]byte{0x5a}, 32), {0x00}, {0x80}}
var hdrExtraD = []string{"", "a", "verif", strings.Repeat("e", 256), "\xff\x00"}

func headerDims() []int {
	return []int{len(hashD), 4, len(hashD), len(rootD), len(rootD), len(u32D), len(u64D), len(u64D), len(u32D), len(hdrSigD), len(hdrDeputyRootD), len(hdrExtraD)}
}

func mkHeader(idx []int) (h *types.Header, validSig bool) {
	h = &types.Header{ParentHash: hashD[idx[0]], MinerAddress: addrD[idx[1]], VersionRoot: hashD[idx[2]], TxRoot: rootD[idx[3]], LogRoot: rootD[idx[4]],
		Height: u32D[idx[5]], GasLimit: u64D[idx[6]], GasUsed: u64D[idx[7]], Time: u32D[idx[8]],
		DeputyRoot: append([]byte(nil), hdrDeputyRootD[idx[10]]...), Extra: hdrExtraD[idx[11]]}
	if idx[10] == 0 {
		h.DeputyRoot = nil
	}
	sd := hdrSigD[idx[9]]
	switch {
	case bytes.Equal(sd, sigValidMarker):
		h.SignData = signWith(node.Deputy(0), h.Hash())
		validSig = true
	case sd == nil:
		h.SignData = nil
	default:
		h.SignData = append([]byte{}, sd...)
	}
	return h, validSig
}

func signerOf(h *types.Header) string {
	var id []byte
	var err error
	if p, pc, _ := guard(func() { id, err = h.SignerNodeID() }); p {
		return "panic:" + pc
	}
	if err != nil {
		return "err"
	}
	return hx(id)
}

func runHeader(a *acc, idx []int) {
	a.evals++
	const sn = "Header"
	h, valid := mkHeader(idx)
	tag := fmt.Sprintf("/txroot=%s/logroot=%s/sig=%d", rootKind(h.TxRoot), rootKind(h.LogRoot), idx[9])
	hash0, signer0 := h.Hash(), signerOf(h)
	if valid && signer0 != hx(node.Deputy(0).NodeID) {
		a.violate("C14/signer-recovery/Header/fresh", fmt.Sprintf("Header %v: freshly signed header recovers %s", idx, signer0), replayCase{Kind: "encode", Target: sn, Idx: idx}, 0)
	}
	dec, enc, ok := roundTrip(a, sn, idx, h, func() interface{} { return new(types.Header) }, false, true, "")
	if !ok {
		return
	}
	h2 := dec.(*types.Header)
	rp := replayCase{Kind: "encode", Target: sn, Idx: idx}
	if h2.Hash() != hash0 {
		a.outcomes[sn+"/hash-changes"]++
		a.violate("C14/hash-changes/Header", fmt.Sprintf("Header %v: Hash() %x -> %x after round trip; enc=%x", idx, hash0, h2.Hash(), enc), rp, len(enc))
		return
	}
	if s2 := signerOf(h2); s2 != signer0 || strings.HasPrefix(s2, "panic") {
		a.outcomes[sn+"/signer-changes"]++
		a.violate("C14/signer-changes/Header", fmt.Sprintf("Header %v: recovered signer %s -> %s after round trip", idx, signer0, s2), rp, len(enc))
		return
	}
	a.outcomes[sn+"/ok"+tag]++
}

func rootKind(h common.Hash) string {
	switch h {
	case common.Hash{}:
		return "zero"
	case merkle.EmptyTrieHash:
		return "empty-trie(elided)"
	}
	return "set"
}

func headerSuite() *suite {
	d := headerDims()
	typ := []int{2, 2, 2, 2, 2, 4, 4, 4, 4, 2, 2, 2}
	emptyRoots := []int{2, 2, 2, 1, 1, 1, 4, 0, 4, 2, 0, 0}
	return &suite{name: "Header", fields: headerFields, dims: d, bases: [][]int{typ, zeros(len(d)), last(d), emptyRoots}, run: runHeader}
}

// ---------------------------------------------------------------------------------------------
// plain structs (no custom codec, no hidden state): network messages, store records, deputy node, equity

type plainSuite struct {
	name   string
	fields []string
	dims   []int
	mk     func(idx []int) interface{} // pointer to the value
	fresh  func() interface{}
	extra  func(a *acc, idx []int, v, dec interface{}) bool // additional equalities (Hash()); false = violation already recorded
	hashed bool
}

func (p *plainSuite) suite() *suite {
	return &suite{name: p.name, fields: p.fields, dims: p.dims, bases: [][]int{zeros(len(p.dims)), last(p.dims)}, run: func(a *acc, idx []int) {
		a.evals++
		v := p.mk(idx)
		dec, _, ok := roundTrip(a, p.name, idx, v, p.fresh, false, p.hashed, "")
		if !ok {
			return
		}
		if p.extra != nil && !p.extra(a, idx, v, dec) {
			return
		}
		a.outcomes[p.name+"/ok"]++
	}}
}

var sigDataD []types.SignData

func plainSuites() []*suite {
	validSig := types.BytesToSignData(signWith(node.Deputy(1), hashTyp))
	var ffSig types.SignData
	for i := range ffSig {
		ffSig[i] = 0xff
	}
	sigDataD = []types.SignData{{}, validSig, ffSig}
	packD := [][]types.SignData{nil, {}, {validSig}, {validSig, ffSig, {}}, func() []types.SignData {
		p := make([]types.SignData, 64)
		for i := range p {
			p[i] = validSig
			p[i][0] = byte(i)
		}
		return p
	}()}
	uintD := []uint{0, 1, 128, 1 << 40, ^uint(0)}
	nodesD := [][]string{nil, {}, {""}, {"a"}, {strings.Repeat("5e", 64) + "@127.0.0.1:7001", strings.Repeat("5f", 64) + "@10.0.0.1:60001"},
		func() []string {
			n := make([]string, 200)
			for i := range n {
				n[i] = fmt.Sprintf("%0128x@10.0.%d.%d:7001", i, i/256, i%256)
			}
			return n
		}()}
	nodeIDD := [][]byte{nil, {}, node.Deputy(0).NodeID, {0x00}, bytes.Repeat([]byte{0x04}, 65)}
	rankD := []uint32{0, 1, 127, 128, 65535, 0xffffffff}

	ps := []*plainSuite{
		{name: "network.ProtocolHandshake", fields: []string{"ChainID", "GenesisHash", "NodeVersion", "CurHeight", "CurHash", "StaHeight", "StaHash"},
			dims: []int{len(u16D), len(hashD), len(u32D), len(u32D), len(hashD), len(u32D), len(hashD)},
			mk: func(i []int) interface{} {
				return &network.ProtocolHandshake{ChainID: u16D[i[0]], GenesisHash: hashD[i[1]], NodeVersion: u32D[i[2]],
					LatestStatus: network.LatestStatus{CurHeight: u32D[i[3]], CurHash: hashD[i[4]], StaHeight: u32D[i[5]], StaHash: hashD[i[6]]}}
			}, fresh: func() interface{} { return new(network.ProtocolHandshake) },
			extra: func(a *acc, idx []int, v, dec interface{}) bool { // the Bytes() helper used on the wire
				if !bytes.Equal(v.(*network.ProtocolHandshake).Bytes(), dec.(*network.ProtocolHandshake).Bytes()) {
					a.violate("C14/reencoding-differs/network.ProtocolHandshake/Bytes", fmt.Sprintf("%v", idx), replayCase{Kind: "encode", Target: "network.ProtocolHandshake", Idx: idx}, 0)
					return false
				}
				return true
			}},
		{name: "network.LatestStatus", fields: []string{"CurHeight", "CurHash", "StaHeight", "StaHash"}, dims: []int{len(u32D), len(hashD), len(u32D), len(hashD)},
			mk: func(i []int) interface{} {
				return &network.LatestStatus{CurHeight: u32D[i[0]], CurHash: hashD[i[1]], StaHeight: u32D[i[2]], StaHash: hashD[i[3]]}
			}, fresh: func() interface{} { return new(network.LatestStatus) }},
		{name: "network.GetLatestStatus", fields: []string{"Revert"}, dims: []int{len(u32D)},
			mk:    func(i []int) interface{} { return &network.GetLatestStatus{Revert: u32D[i[0]]} },
			fresh: func() interface{} { return new(network.GetLatestStatus) }},
		{name: "network.BlockHashData", fields: []string{"Height", "Hash"}, dims: []int{len(u32D), len(hashD)},
			mk:    func(i []int) interface{} { return &network.BlockHashData{Height: u32D[i[0]], Hash: hashD[i[1]]} },
			fresh: func() interface{} { return new(network.BlockHashData) }},
		{name: "network.GetBlocksData", fields: []string{"From", "To"}, dims: []int{len(u32D), len(u32D)},
			mk: func(i []int) interface{} { // RequestBlocks encodes a pointer to the pointer
				m := &network.GetBlocksData{From: u32D[i[0]], To: u32D[i[1]]}
				return &m
			},
			fresh: func() interface{} { m := new(network.GetBlocksData); return &m }},
		{name: "network.GetSingleBlockData", fields: []string{"Hash", "Height"}, dims: []int{len(hashD), len(u32D)},
			mk:    func(i []int) interface{} { return &network.GetSingleBlockData{Hash: hashD[i[0]], Height: u32D[i[1]]} },
			fresh: func() interface{} { return new(network.GetSingleBlockData) }},
		{name: "network.BlockConfirmData", fields: []string{"Hash", "Height", "SignInfo"}, dims: []int{len(hashD), len(u32D), 3},
			mk: func(i []int) interface{} {
				return &network.BlockConfirmData{Hash: hashD[i[0]], Height: u32D[i[1]], SignInfo: sigDataD[i[2]]}
			},
			fresh: func() interface{} { return new(network.BlockConfirmData) },
			extra: func(a *acc, idx []int, v, dec interface{}) bool { // the confirmation's signer survives
				x, y := v.(*network.BlockConfirmData), dec.(*network.BlockConfirmData)
				n1, e1 := x.SignInfo.RecoverNodeID(x.Hash)
				n2, e2 := y.SignInfo.RecoverNodeID(y.Hash)
				if (e1 == nil) != (e2 == nil) || !bytes.Equal(n1, n2) {
					a.violate("C14/signer-changes/network.BlockConfirmData", fmt.Sprintf("%v: %x/%v -> %x/%v", idx, n1, e1, n2, e2), replayCase{Kind: "encode", Target: "network.BlockConfirmData", Idx: idx}, 0)
					return false
				}
				if e1 == nil {
					a.outcomes["network.BlockConfirmData/ok/signer-recovered"]++
				}
				return true
			}},
		{name: "network.GetConfirmInfo", fields: []string{"Height", "Hash"}, dims: []int{len(u32D), len(hashD)},
			mk:    func(i []int) interface{} { return &network.GetConfirmInfo{Height: u32D[i[0]], Hash: hashD[i[1]]} },
			fresh: func() interface{} { return new(network.GetConfirmInfo) }},
		{name: "network.BlockConfirms", fields: []string{"Height", "Hash", "Pack"}, dims: []int{len(u32D), len(hashD), len(packD)},
			mk: func(i []int) interface{} {
				return &network.BlockConfirms{Height: u32D[i[0]], Hash: hashD[i[1]], Pack: packD[i[2]]}
			},
			fresh: func() interface{} { return new(network.BlockConfirms) }},
		{name: "network.DiscoverResData", fields: []string{"Sequence", "Nodes"}, dims: []int{len(uintD), len(nodesD)},
			mk:    func(i []int) interface{} { return &network.DiscoverResData{Sequence: uintD[i[0]], Nodes: nodesD[i[1]]} },
			fresh: func() interface{} { return new(network.DiscoverResData) }},
		{name: "network.DiscoverReqData", fields: []string{"Sequence"}, dims: []int{len(uintD)},
			mk:    func(i []int) interface{} { return &network.DiscoverReqData{Sequence: uintD[i[0]]} },
			fresh: func() interface{} { return new(network.DiscoverReqData) }},
		{name: "store.RecordBody", fields: []string{"Key", "Val"}, dims: []int{len(bytesD), len(bytesD)},
			mk:    func(i []int) interface{} { return &store.RecordBody{Key: bytesD[i[0]], Val: bytesD[i[1]]} },
			fresh: func() interface{} { return new(store.RecordBody) }},
		{name: "leveldb.Position", fields: []string{"Flag", "Offset"}, dims: []int{len(u32D), len(u32D)},
			mk:    func(i []int) interface{} { return &leveldb.Position{Flag: u32D[i[0]], Offset: u32D[i[1]]} },
			fresh: func() interface{} { return new(leveldb.Position) }},
		{name: "store.Candidate", fields: []string{"Address", "Total"}, dims: []int{4, len(bigPD)},
			mk:    func(i []int) interface{} { return &store.Candidate{Address: addrD[i[0]], Total: cpBig(bigPD[i[1]])} },
			fresh: func() interface{} { return new(store.Candidate) }},
		{name: "DeputyNode", fields: []string{"MinerAddress", "NodeID", "Rank", "Votes"}, dims: []int{4, len(nodeIDD), len(rankD), len(bigPD)}, hashed: true,
			mk: func(i []int) interface{} {
				return &types.DeputyNode{MinerAddress: addrD[i[0]], NodeID: nodeIDD[i[1]], Rank: rankD[i[2]], Votes: cpBig(bigPD[i[3]])}
			},
			fresh: func() interface{} { return new(types.DeputyNode) },
			extra: func(a *acc, idx []int, v, dec interface{}) bool {
				if h1, h2 := v.(*types.DeputyNode).Hash(), dec.(*types.DeputyNode).Hash(); h1 != h2 {
					a.violate("C14/hash-changes/DeputyNode", fmt.Sprintf("%v: %x -> %x", idx, h1, h2), replayCase{Kind: "encode", Target: "DeputyNode", Idx: idx}, 0)
					return false
				}
				return true
			}},
		{name: "AssetEquity", fields: []string{"AssetCode", "AssetId", "Equity"}, dims: []int{len(hashD), len(hashD), len(bigPD)}, hashed: true,
			mk: func(i []int) interface{} {
				return &types.AssetEquity{AssetCode: hashD[i[0]], AssetId: hashD[i[1]], Equity: cpBig(bigPD[i[2]])}
			},
			fresh: func() interface{} { e := new(types.AssetEquity); e.Equity = new(big.Int); return e }}, // as account.GetEquityState / decodeEquity
		{name: "EventForStorage", fields: []string{"Address", "Topics", "Data", "TxHash", "TxIndex", "Index"}, dims: []int{4, 4, len(bytesD), len(hashD), len(uintD), len(uintD)},
			mk: func(i []int) interface{} {
				return &types.EventForStorage{Address: addrD[i[0]], Topics: topicsD()[i[1]], Data: bytesD[i[2]], TxHash: hashD[i[3]], TxIndex: uintD[i[4]], Index: uintD[i[5]]}
			},
			fresh: func() interface{} { return new(types.EventForStorage) }},
	}
	var out []*suite
	for _, p := range ps {
		out = append(out, p.suite())
	}
	return out
}

func topicsD() [][]common.Hash {
	return [][]common.Hash{nil, {}, {hashTyp}, {{}, common.HexToHash("0x01"), hashTyp, hashFF}}
}

// ---------------------------------------------------------------------------------------------
// Asset (custom Profile codec inside; stored in the asset trie and carried by AssetCodeLog)

var assetCatD = []uint32{0, 1, 2, 3, 0xffffffff}
var assetDecD = []uint32{0, 1, 18, 0xffffffff}

func mkAssetVal(i []int) *types.Asset {
	return &types.Asset{Category: assetCatD[i[0]], IsDivisible: i[1] == 1, AssetCode: hashD[i[2]], Decimal: assetDecD[i[3]], TotalSupply: cpBig(bigPD[i[4]]),
		IsReplenishable: i[5] == 1, Issuer: addrD[i[6]], Profile: cpProfile(profileD()[i[7]])}
}

func assetSuite() *suite {
	dims := []int{len(assetCatD), 2, len(hashD), len(assetDecD), len(bigPD), 2, 4, len(profileD())}
	return &suite{name: "Asset", fields: []string{"Category", "IsDivisible", "AssetCode", "Decimal", "TotalSupply", "IsReplenishable", "Issuer", "Profile"}, dims: dims,
		bases: [][]int{zeros(len(dims)), last(dims)},
		run: func(a *acc, idx []int) {
			a.evals++
			v := mkAssetVal(idx)
			if _, _, ok := roundTrip(a, "Asset", idx, v, mkAsset, false, true, ""); ok {
				a.outcomes[fmt.Sprintf("Asset/ok/profile=%d", idx[7])]++
			}
		}}
}

// ---------------------------------------------------------------------------------------------
// AccountData (custom codec: records map <-> list, candidate profile; stored, not hashed)

func recordsD() []map[types.ChangeLogType]types.VersionRecord {
	all := map[types.ChangeLogType]types.VersionRecord{}
	for t := 1; t <= 19; t++ {
		all[types.ChangeLogType(t)] = types.VersionRecord{Version: uint32(t * 3), Height: uint32(1000 + t)}
	}
	return []map[types.ChangeLogType]types.VersionRecord{
		nil,
		{},
		{1: {Version: 1, Height: 1}},
		{1: {Version: 0, Height: 0}, 18: {Version: 0xffffffff, Height: 0xffffffff}, 0: {Version: 128, Height: 127}},
		all,
	}
}

func cpRecords(m map[types.ChangeLogType]types.VersionRecord) map[types.ChangeLogType]types.VersionRecord {
	if m == nil {
		return nil
	}
	o := map[types.ChangeLogType]types.VersionRecord{}
	for k, v := range m {
		o[k] = v
	}
	return o
}

func accountSuite() *suite {
	fields := []string{"Address", "Balance", "CodeHash", "StorageRoot", "AssetCodeRoot", "AssetIdRoot", "EquityRoot", "VoteFor", "Votes", "Profile", "NewestRecords", "Signers"}
	dims := []int{4, len(bigPD), len(hashD), len(hashD), len(hashD), len(hashD), len(hashD), 4, len(bigPD), len(profileD()), len(recordsD()), len(signersD())}
	typ := []int{2, 4, 2, 2, 2, 2, 2, 2, 4, 3, 2, 2}
	return &suite{name: "AccountData", fields: fields, dims: dims, bases: [][]int{typ, zeros(len(dims)), last(dims)},
		run: func(a *acc, i []int) {
			a.evals++
			v := &types.AccountData{Address: addrD[i[0]], Balance: cpBig(bigPD[i[1]]), CodeHash: hashD[i[2]], StorageRoot: hashD[i[3]], AssetCodeRoot: hashD[i[4]],
				AssetIdRoot: hashD[i[5]], EquityRoot: hashD[i[6]], VoteFor: addrD[i[7]],
				Candidate:     types.Candidate{Votes: cpBig(bigPD[i[8]]), Profile: cpProfile(profileD()[i[9]])},
				NewestRecords: cpRecords(recordsD()[i[10]]), Signers: append(types.Signers(nil), signersD()[i[11]]...)}
			if _, _, ok := roundTrip(a, "AccountData", i, v, func() interface{} { return new(types.AccountData) }, false, false, ""); ok {
				a.outcomes[fmt.Sprintf("AccountData/ok/records=%d/profile=%d/signers=%d", i[10], i[9], i[11])]++
			}
		}}
}

// ---------------------------------------------------------------------------------------------
// low-level codec, encoder side: boundary values of the primitive types

func primEncSuite() *suite {
	uints := []uint64{0, 1, 127, 128, 255, 256, 65535, 65536, 1<<24 - 1, 1 << 24, 1<<32 - 1, 1 << 32, 1<<40 - 1, 1 << 40, 1<<48 - 1, 1 << 48, 1<<56 - 1, 1 << 56, 1<<64 - 1}
	lens := []int{0, 1, 2, 55, 56, 57, 255, 256, 65535, 65536}
	kinds := []string{"uint64", "uint32", "uint16", "uint8", "big", "bytes00", "bytes7f", "bytes80", "string", "list-of-bytes", "bool"}
	dims := []int{len(kinds), len(uints), len(lens)}
	return &suite{name: "primitives", fields: []string{"kind", "uint-value", "length"}, dims: dims, run: func(a *acc, idx []int) {
		a.evals++
		k, u, L := kinds[idx[0]], uints[idx[1]], lens[idx[2]]
		var v interface{}
		var fresh func() interface{}
		switch k {
		case "uint64":
			v, fresh = &u, func() interface{} { return new(uint64) }
		case "uint32":
			x := uint32(u)
			v, fresh = &x, func() interface{} { return new(uint32) }
		case "uint16":
			x := uint16(u)
			v, fresh = &x, func() interface{} { return new(uint16) }
		case "uint8":
			x := uint8(u)
			v, fresh = &x, func() interface{} { return new(uint8) }
		case "big":
			x := new(big.Int).Lsh(new(big.Int).SetUint64(u), uint(L%300))
			v, fresh = x, func() interface{} { return new(big.Int) }
		case "bytes00", "bytes7f", "bytes80":
			c := map[string]byte{"bytes00": 0x00, "bytes7f": 0x7f, "bytes80": 0x80}[k]
			x := bytes.Repeat([]byte{c}, L)
			v, fresh = &x, func() interface{} { return new([]byte) }
		case "string":
			x := strings.Repeat(string(rune('a'+int(u%26))), L)
			v, fresh = &x, func() interface{} { return new(string) }
		case "list-of-bytes":
			x := make([][]byte, 0)
			for i := 0; i < L && i < 300; i++ {
				x = append(x, []byte{byte(u), byte(i)})
			}
			v, fresh = &x, func() interface{} { return new([][]byte) }
		case "bool":
			x := u%2 == 1
			v, fresh = &x, func() interface{} { return new(bool) }
		}
		if _, _, ok := roundTrip(a, "primitives", idx, v, fresh, false, true, ""); ok {
			a.outcomes["primitives/ok/"+k]++
		}
	}}
}

// ---------------------------------------------------------------------------------------------

func allSuites() []*suite {
	out := []*suite{primEncSuite(), headerSuite(), assetSuite(), accountSuite(), txSuite(), blockSuite(), eventSuite(), txDataJSONSuite(), boxPayloadSuite()}
	out = append(out, plainSuites()...)
	out = append(out, changeLogSuites()...)
	return out
}

func suiteByName(n string) *suite {
	for _, s := range allSuites() {
		if s.name == n {
			return s
		}
	}
	return nil
}

func encoderSide(r *core.Result) {
	suites := allSuites()
	info := map[string]interface{}{}
	var jobs []job
	for _, s := range suites {
		s := s
		vs, mode := s.vectors()
		info[s.name] = map[string]interface{}{"fields": s.fields, "domain_sizes": s.dims, "product": s.product(), "mode": mode, "cases": len(vs)}
		const chunk = 256
		for i := 0; i < len(vs); i += chunk {
			part := vs[i:min(i+chunk, len(vs))]
			jobs = append(jobs, func(a *acc) {
				for _, idx := range part {
					if p, pc, detail := guard(func() { s.run(a, idx) }); p {
						a.violate("C14/panic/"+s.name+"/"+pc, fmt.Sprintf("%s %v panics: %s", s.name, idx, clipS(detail, 1500)), replayCase{Kind: "encode", Target: s.name, Idx: idx}, 0)
					}
					a.counters["encoder_cases"]++
				}
			})
		}
	}
	if skipped := runJobs(jobs); skipped > 0 {
		r.NotExhaustive(fmt.Sprintf("encoder side: internal deadline hit, %d of %d chunks not run", skipped, len(jobs)))
	}
	r.Extra["encoder_suites"] = info
}

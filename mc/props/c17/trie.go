package main

// Part A: the real store/trie (plain and secure) over a real store.TrieDatabase over the BeansDB of
// a real store.ChainDatabase, driven by event histories and compared with a map model.

import (
	"bytes"
	"encoding/hex"
	"fmt"
	"reflect"
	"sort"
	"strconv"
	"strings"
	"time"

	"verifmc/core"
	"verifmc/node"

	"github.com/LemoFoundationLtd/lemochain-core/common"
	"github.com/LemoFoundationLtd/lemochain-core/common/crypto"
	"github.com/LemoFoundationLtd/lemochain-core/store"
	"github.com/LemoFoundationLtd/lemochain-core/store/trie"
)

// ---------------------------------------------------------------------------------------------
// universes

var (
	plainKeys  [][]byte // 0..6 alphabet, 7.. probes (never written)
	secureKeys [][]byte // 0..3 alphabet, 4.. probes
	values     [][]byte // 0 = empty (delete), 1..
	emptyRoot  = common.HexToHash("56e81f171bcc55a6ff8345e692c0f86e5b48e01b996cadc001622fb5e363b421")
)

const (
	nPlainAlphabet  = 7
	nSecureAlphabet = 4
)

func fill(n int, seed byte) []byte {
	b := make([]byte, n)
	for i := range b {
		b[i] = seed + byte(i*7)
	}
	return b
}

func initUniverse() {
	long := append([]byte{0x00, 0x00}, bytes.Repeat([]byte{0xab}, 30)...)
	plainKeys = [][]byte{
		{}, {0x00}, {0x01}, {0x10}, {0x00, 0x00}, {0x00, 0x01}, long,
		// probes: never written, each shares a different amount of path with the alphabet
		{0x02}, {0x00, 0x00, 0x00}, {0x11}, {0x00, 0x00, 0xab}, append(append([]byte{}, long...), 0x01),
	}
	// secure keys: chosen by a fixed search so that the hashed keys share 2 nibbles / 1 nibble / nothing
	h := func(i int) []byte { return crypto.Keccak256([]byte(fmt.Sprintf("k%d", i))) }
	h0 := h(0)
	pick := func(pred func(x []byte) bool, skip map[int]bool) int {
		for i := 1; ; i++ {
			if !skip[i] && pred(h(i)) {
				skip[i] = true
				return i
			}
		}
	}
	used := map[int]bool{0: true}
	same2 := func(x []byte) bool { return x[0] == h0[0] }
	same1 := func(x []byte) bool { return x[0]>>4 == h0[0]>>4 && x[0] != h0[0] }
	diff := func(x []byte) bool { return x[0]>>4 != h0[0]>>4 }
	idx := []int{0, pick(same2, used), pick(same1, used), pick(diff, used), pick(same1, used), pick(same2, used), pick(diff, used)}
	for _, i := range idx {
		secureKeys = append(secureKeys, []byte(fmt.Sprintf("k%d", i)))
	}
	values = [][]byte{
		nil,
		{0x2a},          // 1: one byte (RLP: itself)
		fill(31, 0x31),  // 2
		fill(32, 0x41),  // 3: as long as a hash
		fill(100, 0x51), // 4: long string RLP form
		fill(28, 0x61),  // 5: leaf with a one-byte compact key encodes to 31 bytes: embedded in its parent
		fill(29, 0x71),  // 6: the same leaf encodes to 32 bytes: stored by hash
		{0x99},          // 7: one byte >= 0x80 (RLP: two bytes)
	}
}

type scenario struct {
	Name   string
	Secure bool
	Limit  uint16
	Keys   []int
	Vals   []int
	Depth  [2]int // quick, thorough
	Copy   bool   // the alphabet has "cp": SecureTrie.Copy() (the node's own snapshot operation of a trie object)
}

var scenarios = map[string]*scenario{}
var scenarioNames []string

func addScenario(base string, secure bool, keys, vals []int, dq, dt int) {
	for _, lim := range []uint16{0, 1, 120} {
		s := &scenario{Name: fmt.Sprintf("%s/%d", base, lim), Secure: secure, Limit: lim, Keys: keys, Vals: vals, Depth: [2]int{dq, dt}}
		scenarios[s.Name] = s
		scenarioNames = append(scenarioNames, s.Name)
	}
}

func (s *scenario) depth() int {
	if core.Thorough() {
		return s.Depth[1]
	}
	return s.Depth[0]
}

func (s *scenario) key(i int) []byte {
	if s.Secure {
		return secureKeys[i]
	}
	return plainKeys[i]
}

// readSet lists every key that is read back: the scenario's alphabet and all probes.
func (s *scenario) readSet() []int {
	l := append([]int{}, s.Keys...)
	if s.Secure {
		for i := nSecureAlphabet; i < len(secureKeys); i++ {
			l = append(l, i)
		}
	} else {
		for i := nPlainAlphabet; i < len(plainKeys); i++ {
			l = append(l, i)
		}
	}
	return l
}

// ---------------------------------------------------------------------------------------------
// per-history isolation of the shared key-value store
//
// A worker process owns one ChainDatabase for all histories it executes. The store is content
// addressed, so data left behind by an earlier history can never be wrong, but it could hide a
// write that the current history failed to make. isoDB therefore answers reads only for keys that
// were written through it (i.e. by the current history); everything is stored in and read back from
// the real BeansDB.

type isoDB struct {
	inner   *store.BeansDB
	visible map[string]bool
	gets    int
	flushes int // write batches handed to the store
}

func isoKey(flg uint32, key []byte) string {
	return strconv.Itoa(int(flg)) + ":" + hex.EncodeToString(key)
}

func (d *isoDB) NewBatch() store.Batch { return &isoBatch{d: d, inner: d.inner.NewBatch()} }
func (d *isoDB) Put(flg uint32, key, value []byte) error {
	if err := d.inner.Put(flg, key, value); err != nil {
		return err
	}
	d.visible[isoKey(flg, key)] = true
	stat("kv_put", 1)
	return nil
}
func (d *isoDB) Get(flg uint32, key []byte) ([]byte, error) {
	stat("kv_get", 1)
	d.gets++
	if !d.visible[isoKey(flg, key)] {
		stat("kv_get_absent", 1)
		return nil, nil
	}
	return d.inner.Get(flg, key)
}
func (d *isoDB) Has(flg uint32, key []byte) (bool, error) {
	v, err := d.Get(flg, key)
	return v != nil, err
}
func (d *isoDB) Delete(flg uint32, key []byte) error { panic("harness: Delete not expected") }
func (d *isoDB) Close()                              {}

type isoBatch struct {
	d     *isoDB
	inner store.Batch
}

func (b *isoBatch) Put(flg uint32, key, value []byte) error { return b.inner.Put(flg, key, value) }
func (b *isoBatch) Commit() error {
	// the keys are taken from the items as they are handed to the store (LmDBBatch keeps the caller's
	// key slice, it does not copy it)
	items := b.inner.Items()
	keys := make([]string, len(items))
	for i, it := range items {
		keys[i] = isoKey(it.Flg, it.Key)
	}
	if err := b.inner.Commit(); err != nil {
		return err
	}
	for _, k := range keys {
		b.d.visible[k] = true
	}
	stat("kv_batch_items", int64(len(items)))
	if len(items) > 0 {
		b.d.flushes++
	}
	return nil
}
func (b *isoBatch) Items() []*store.BatchItem { return b.inner.Items() }
func (b *isoBatch) ValueSize() int            { return b.inner.ValueSize() }
func (b *isoBatch) Reset()                    { b.inner.Reset() }

// ---------------------------------------------------------------------------------------------
// instance = implementation + model

type snap struct {
	root  common.Hash
	model map[string]string
}

type inst struct {
	sc    *scenario
	iso   *isoDB
	tdb   *store.TrieDatabase
	pt    *trie.Trie
	st    *trie.SecureTrie
	model map[string]string
	tc    snap   // what "ro" reopens: last trie-level commit on the current TrieDatabase
	dur   []snap // durable (trie + TrieDatabase committed) versions, oldest first, consecutive ones distinct
	// a copy taken by "cp" (at most one at a time): it must keep the content it had when it was taken
	cpS     *trie.SecureTrie
	cpModel map[string]string
	cpAt    int // number of events applied when the copy was taken
	nEv     int
}

var (
	chainDB *store.ChainDatabase
	dbDir   string
	dbUses  int
)

func openChainDB() {
	dbDir = core.ScratchDir("c17")
	chainDB = node.OpenDB(dbDir)
	dbUses = 0
}

func copyModel(m map[string]string) map[string]string {
	c := make(map[string]string, len(m))
	for k, v := range m {
		c[k] = v
	}
	return c
}

func modelString(m map[string]string) string {
	ks := make([]string, 0, len(m))
	for k := range m {
		ks = append(ks, k)
	}
	sort.Strings(ks)
	var sb strings.Builder
	for _, k := range ks {
		fmt.Fprintf(&sb, "%x=%s;", k, valName(m[k]))
	}
	return sb.String()
}

func valName(v string) string {
	for i, x := range values {
		if string(x) == v {
			return "v" + strconv.Itoa(i)
		}
	}
	return hex.EncodeToString([]byte(v))
}

func newInst(sc *scenario) *inst {
	in := &inst{sc: sc, iso: &isoDB{inner: chainDB.Beansdb, visible: map[string]bool{}}, model: map[string]string{}}
	in.tdb = store.NewTrieDatabase(in.iso)
	in.tc = snap{common.Hash{}, map[string]string{}}
	if err := in.open(common.Hash{}); err != nil {
		panic(err)
	}
	return in
}

func (in *inst) open(root common.Hash) error {
	if in.sc.Secure {
		st, err := trie.NewSecure(root, in.tdb, in.sc.Limit)
		if err != nil {
			return err
		}
		in.st, in.pt = st, nil
		return nil
	}
	pt, err := trie.New(root, in.tdb)
	if err != nil {
		return err
	}
	pt.SetCacheLimit(in.sc.Limit)
	in.pt, in.st = pt, nil
	return nil
}

func (in *inst) tryGet(k []byte) ([]byte, error) {
	if in.st != nil {
		return in.st.TryGet(k)
	}
	return in.pt.TryGet(k)
}
func (in *inst) tryUpdate(k, v []byte) error {
	if in.st != nil {
		return in.st.TryUpdate(k, v)
	}
	return in.pt.TryUpdate(k, v)
}
func (in *inst) tryDelete(k []byte) error {
	if in.st != nil {
		return in.st.TryDelete(k)
	}
	return in.pt.TryDelete(k)
}
func (in *inst) hash() common.Hash {
	if in.st != nil {
		return in.st.Hash()
	}
	return in.pt.Hash()
}
func (in *inst) commit() (common.Hash, error) {
	if in.st != nil {
		return in.st.Commit(nil)
	}
	return in.pt.Commit(nil)
}

// failure of an oracle: class is the stable part of the fingerprint.
type failure struct {
	class  string
	detail string
}

func failf(class, f string, a ...interface{}) *failure { return &failure{class, fmt.Sprintf(f, a...)} }

var secureKeyPrefixHex = hex.EncodeToString([]byte("secure-key-"))

var errInvalidHistory = fmt.Errorf("harness: history not executable")

// modelRoot is the root of a FRESH trie into which the model's content is inserted in sorted key
// order (no deletions, no commits, no reads): the reference for order/commit/eviction independence.
var modelRootMemo = map[string]common.Hash{}

func modelRoot(sc *scenario, m map[string]string) common.Hash {
	mk := fmt.Sprint(sc.Secure) + modelString(m)
	if h, ok := modelRootMemo[mk]; ok {
		return h
	}
	ks := make([]string, 0, len(m))
	for k := range m {
		ks = append(ks, k)
	}
	sort.Strings(ks)
	tdb := store.NewTrieDatabase(&isoDB{inner: chainDB.Beansdb, visible: map[string]bool{}})
	var h common.Hash
	if sc.Secure {
		t, err := trie.NewSecure(common.Hash{}, tdb, 0)
		if err != nil {
			panic(err)
		}
		for _, k := range ks {
			if err := t.TryUpdate([]byte(k), []byte(m[k])); err != nil {
				panic(err)
			}
		}
		h = t.Hash()
	} else {
		t, err := trie.New(common.Hash{}, tdb)
		if err != nil {
			panic(err)
		}
		for _, k := range ks {
			if err := t.TryUpdate([]byte(k), []byte(m[k])); err != nil {
				panic(err)
			}
		}
		h = t.Hash()
	}
	modelRootMemo[mk] = h
	stat("model_roots_built", 1)
	return h
}

func (in *inst) rpTarget() *snap {
	if len(in.dur) < 2 {
		return nil
	}
	last := in.dur[len(in.dur)-1].root
	for i := len(in.dur) - 2; i >= 0; i-- {
		if in.dur[i].root != last {
			return &in.dur[i]
		}
	}
	return nil
}

// apply executes one event on the implementation and on the model and evaluates the event's own
// oracle. It panics with errInvalidHistory if the event is not enabled.
func (in *inst) apply(ev string) *failure {
	f := strings.Fields(ev)
	in.nEv++
	if f[0] == "cp" {
		if in.st == nil || !in.sc.Copy {
			panic(errInvalidHistory)
		}
		in.cpS, in.cpModel, in.cpAt = in.st.Copy(), copyModel(in.model), in.nEv
		return nil
	}
	argKey := func() []byte {
		i, err := strconv.Atoi(f[1])
		if err != nil || i < 0 {
			panic(errInvalidHistory)
		}
		return in.sc.key(i)
	}
	switch f[0] {
	case "u":
		k := argKey()
		vi, _ := strconv.Atoi(f[2])
		v := values[vi]
		if err := in.tryUpdate(k, v); err != nil {
			return failf("error/update", "TryUpdate(%x, %d bytes) returned %v", k, len(v), err)
		}
		if len(v) == 0 {
			delete(in.model, string(k))
		} else {
			in.model[string(k)] = string(v)
		}
	case "d":
		k := argKey()
		if err := in.tryDelete(k); err != nil {
			return failf("error/delete", "TryDelete(%x) returned %v", k, err)
		}
		delete(in.model, string(k))
	case "g":
		k := argKey()
		return in.checkGet("get", k)
	case "h":
		got, want := in.hash(), modelRoot(in.sc, in.model)
		if got != want {
			return failf("hash-differs/hash", "Hash() = %x, a fresh trie with the same content {%s} has %x", got, modelString(in.model), want)
		}
	case "tc", "c":
		root, err := in.commit()
		if err != nil {
			return failf("error/commit", "Trie.Commit returned %v", err)
		}
		if want := modelRoot(in.sc, in.model); root != want {
			return failf("hash-differs/commit", "Commit() = %x, a fresh trie with the same content {%s} has %x", root, modelString(in.model), want)
		}
		in.tc = snap{root, copyModel(in.model)}
		if f[0] == "c" {
			if err := in.tdb.Commit(root, false); err != nil {
				return failf("error/dbcommit", "TrieDatabase.Commit returned %v", err)
			}
			if n := len(in.dur); n == 0 || in.dur[n-1].root != root {
				in.dur = append(in.dur, in.tc)
			}
		}
	case "ro":
		if err := in.open(in.tc.root); err != nil {
			return failf("reopen-error/same-db", "reopening committed root %x on the same TrieDatabase: %v", in.tc.root, err)
		}
		in.model = copyModel(in.tc.model)
	case "rf", "rp":
		s := snap{common.Hash{}, map[string]string{}}
		if f[0] == "rp" {
			t := in.rpTarget()
			if t == nil {
				panic(errInvalidHistory)
			}
			s = *t
		} else if n := len(in.dur); n > 0 {
			s = in.dur[n-1]
		}
		in.tdb = store.NewTrieDatabase(in.iso)
		if err := in.open(s.root); err != nil {
			return failf("reopen-error/fresh-db", "reopening durable root %x on a fresh TrieDatabase: %v", s.root, err)
		}
		in.model = copyModel(s.model)
		in.tc = s
	default:
		panic(errInvalidHistory)
	}
	return nil
}

func (in *inst) checkGet(where string, k []byte) *failure {
	got, err := in.tryGet(k)
	if err != nil {
		return failf("error/"+where, "TryGet(%x) returned %v", k, err)
	}
	want, present := in.model[string(k)]
	if !present && len(got) != 0 {
		return failf("read-differs/"+where+"/absent-key-has-value", "TryGet(%x) = %x but the key was never written or was deleted (content {%s})", k, got, modelString(in.model))
	}
	if present && string(got) != want {
		return failf("read-differs/"+where+"/wrong-value", "TryGet(%x) = %x (%d bytes), last value written is %s (%d bytes)", k, got, len(got), valName(want), len(want))
	}
	return nil
}

// terminal reads every key of the alphabet and every probe and then hashes: evaluated after the
// state key has been taken (the instance is discarded afterwards).
func (in *inst) terminal() *failure {
	for _, i := range in.sc.readSet() {
		if f := in.checkGet("final", in.sc.key(i)); f != nil {
			return f
		}
	}
	if got, want := in.hash(), modelRoot(in.sc, in.model); got != want {
		return failf("hash-differs/final", "Hash() = %x after reading every key, a fresh trie with the same content {%s} has %x", got, modelString(in.model), want)
	}
	if in.cpS != nil {
		// the copy is a trie of its own: what was written to the original afterwards is not in it
		for _, i := range in.sc.readSet() {
			k := in.sc.key(i)
			got, err := in.cpS.TryGet(k)
			if err != nil {
				return failf("error/copy-get", "TryGet(%x) on the copy returned %v", k, err)
			}
			want, present := in.cpModel[string(k)]
			if (!present && len(got) != 0) || (present && string(got) != want) {
				return failf("read-differs/copy", "the copy taken after event %d answers TryGet(%x) = %x, its content then was {%s}", in.cpAt, k, got, modelString(in.cpModel))
			}
		}
		if got, want := in.cpS.Hash(), modelRoot(in.sc, in.cpModel); got != want {
			return failf("hash-differs/copy", "the copy taken after event %d hashes to %x, a fresh trie with its content {%s} has %x", in.cpAt, got, modelString(in.cpModel), want)
		}
	}
	return nil
}

// durable is evaluated after a full commit: a new trie object over a new TrieDatabase over the same
// key-value store must have the model's content and the same root; then the proof clause.
func (in *inst) durable() *failure {
	t0 := time.Now()
	s := in.tc
	other := &inst{sc: in.sc, iso: in.iso, model: copyModel(s.model)}
	other.tdb = store.NewTrieDatabase(in.iso)
	if err := other.open(s.root); err != nil {
		return failf("reopen-error/after-commit", "reopening the just committed root %x on a fresh TrieDatabase: %v (content {%s})", s.root, err, modelString(s.model))
	}
	for _, i := range in.sc.readSet() {
		if f := other.checkGet("reopened", in.sc.key(i)); f != nil {
			return f
		}
	}
	if got := other.hash(); got != s.root {
		return failf("hash-differs/reopened", "reopened trie hashes to %x, committed root was %x", got, s.root)
	}
	if other.st != nil {
		// observation only (key preimages are not part of C17's statement): can the original key of
		// every stored entry be recovered from the store after the commit?
		for k := range s.model {
			if got := other.st.GetKey(crypto.Keccak256([]byte(k))); string(got) == k {
				stat("preimage/recovered", 1)
			} else if got == nil {
				stat("preimage/missing", 1)
			} else {
				stat("preimage/wrong", 1)
			}
		}
	}
	stat("us/durable-reopen", int64(time.Since(t0)/time.Microsecond))
	return in.proofs(s)
}

// ---------------------------------------------------------------------------------------------
// state key: everything the future can depend on, read without touching anything

type shape struct{ full, short, hash, value, embedded int }

func dumpNode(v reflect.Value, cachegen, limit uint16, sb *strings.Builder, sh *shape, top bool) {
	if v.Kind() == reflect.Interface {
		if v.IsNil() {
			sb.WriteByte('_')
			return
		}
		v = v.Elem()
	}
	flags := func(e reflect.Value) {
		fl := e.FieldByName("flags")
		h := fl.FieldByName("hash").Bytes()
		gen := uint16(fl.FieldByName("gen").Uint())
		dirty := fl.FieldByName("dirty").Bool()
		// only "how far from being unloadable" matters; a node further than 16 commits from the
		// limit cannot become unloadable within any explored history (depth bounds are < 16)
		d := cachegen - gen
		ds := "-"
		if d >= limit {
			ds = "U"
		} else if limit-d <= 16 {
			ds = strconv.Itoa(int(limit - d))
		}
		if len(h) == 0 {
			if !top {
				sh.embedded++ // no own hash (yet)
			}
			fmt.Fprintf(sb, "(-,%v,%s)", dirty, ds)
		} else {
			fmt.Fprintf(sb, "(%x,%v,%s)", h[:6], dirty, ds)
		}
	}
	switch v.Kind() {
	case reflect.Ptr:
		e := v.Elem()
		switch e.Type().Name() {
		case "fullNode":
			sh.full++
			sb.WriteByte('F')
			flags(e)
			sb.WriteByte('[')
			ch := e.FieldByName("Children")
			for i := 0; i < 17; i++ {
				dumpNode(ch.Index(i), cachegen, limit, sb, sh, false)
				sb.WriteByte(',')
			}
			sb.WriteByte(']')
		case "shortNode":
			sh.short++
			sb.WriteByte('S')
			flags(e)
			fmt.Fprintf(sb, "%x:", e.FieldByName("Key").Bytes())
			dumpNode(e.FieldByName("Val"), cachegen, limit, sb, sh, false)
		default:
			panic("harness: unknown node type " + e.Type().Name())
		}
	case reflect.Slice:
		switch v.Type().Name() {
		case "hashNode":
			sh.hash++
			fmt.Fprintf(sb, "H%x", v.Bytes()[:6])
		case "valueNode":
			sh.value++
			b := v.Bytes()
			fmt.Fprintf(sb, "V%d:%x", len(b), crypto.Keccak256(b)[:4])
		default:
			panic("harness: unknown node type " + v.Type().Name())
		}
	default:
		panic("harness: unknown node kind " + v.Kind().String())
	}
}

func (in *inst) dump() (string, shape) {
	var sb strings.Builder
	var sh shape
	var tv reflect.Value
	if in.st != nil {
		sv := reflect.ValueOf(in.st).Elem()
		tv = sv.FieldByName("trie")
		// preimages waiting for the next commit
		var pk []string
		if owner := sv.FieldByName("secKeyCacheOwner"); !owner.IsNil() && owner.Pointer() == reflect.ValueOf(in.st).Pointer() {
			for _, k := range sv.FieldByName("secKeyCache").MapKeys() {
				pk = append(pk, hex.EncodeToString([]byte(k.String()))[:8])
			}
		}
		sort.Strings(pk)
		fmt.Fprintf(&sb, "seckeys=%v|", pk)
	} else {
		tv = reflect.ValueOf(in.pt).Elem()
	}
	cg := uint16(tv.FieldByName("cachegen").Uint())
	lim := uint16(tv.FieldByName("cachelimit").Uint())
	dumpNode(tv.FieldByName("root"), cg, lim, &sb, &sh, true)
	// TrieDatabase memory layer
	nodes := in.tdb.Nodes4Test()
	hs := make([]string, 0, len(nodes))
	for h, n := range nodes {
		cs := make([]string, 0, len(n.Children))
		for c, cnt := range n.Children {
			cs = append(cs, fmt.Sprintf("%x*%d", c[:6], cnt))
		}
		sort.Strings(cs)
		hs = append(hs, fmt.Sprintf("%x/%d/%v", h[:6], n.Parents, cs))
	}
	sort.Strings(hs)
	fmt.Fprintf(&sb, "|mem=%v", hs)
	var pre []string
	for _, k := range reflect.ValueOf(in.tdb).Elem().FieldByName("preimages").MapKeys() {
		pre = append(pre, fmt.Sprintf("%02x%02x%02x", k.Index(0).Uint(), k.Index(1).Uint(), k.Index(2).Uint()))
	}
	sort.Strings(pre)
	fmt.Fprintf(&sb, "|pre=%v", pre)
	return sb.String(), sh
}

func (in *inst) stateKey() (string, shape) {
	d, sh := in.dump()
	var sb strings.Builder
	sb.WriteString(in.sc.Name)
	sb.WriteString("|model=" + modelString(in.model))
	sb.WriteString("|" + d)
	vis := make([]string, 0, len(in.iso.visible))
	for k := range in.iso.visible {
		if strings.Contains(k, secureKeyPrefixHex) {
			// Preimage records are never read by any trie operation (only by SecureTrie.GetKey).
			// Which of them reach the store depends on Go's map iteration order inside
			// TrieDatabase.Commit (see the preimage observation in durable()), so they must stay out
			// of the canonical key.
			continue
		}
		vis = append(vis, k)
	}
	sort.Strings(vis)
	sb.WriteString("|disk=" + core.Hash(strings.Join(vis, ",")))
	fmt.Fprintf(&sb, "|tc=%x{%s}", in.tc.root[:6], modelString(in.tc.model))
	if n := len(in.dur); n > 0 {
		fmt.Fprintf(&sb, "|rf=%x{%s}", in.dur[n-1].root[:6], modelString(in.dur[n-1].model))
	}
	if t := in.rpTarget(); t != nil {
		fmt.Fprintf(&sb, "|rp=%x{%s}", t.root[:6], modelString(t.model))
	}
	if in.cpS != nil {
		// the copy shares nodes with the original in ways the dump above does not show: histories with
		// copies taken at different moments are kept apart (finer than necessary, never hides anything)
		fmt.Fprintf(&sb, "|cp@%d/%d{%s}", in.cpAt, in.nEv, modelString(in.cpModel))
	}
	return sb.String(), sh
}

func (in *inst) enabled(sh shape) []string {
	var en []string
	for _, k := range in.sc.Keys {
		for _, v := range in.sc.Vals {
			en = append(en, fmt.Sprintf("u %d %d", k, v))
		}
	}
	for _, k := range in.sc.Keys {
		// both spellings of a deletion: TryDelete and TryUpdate with an empty value
		en = append(en, fmt.Sprintf("d %d", k), fmt.Sprintf("u %d 0", k))
	}
	if sh.hash > 0 {
		// A read changes the instance only by resolving hash nodes (tryGet: didResolve); on a fully
		// resolved trie it writes nothing, and its result is checked by the final read of every key.
		for _, k := range in.sc.Keys {
			en = append(en, fmt.Sprintf("g %d", k))
		}
	}
	en = append(en, "h", "tc", "c", "ro", "rf")
	if in.sc.Copy && in.st != nil && in.cpS == nil {
		en = append(en, "cp")
	}
	if in.rpTarget() != nil {
		en = append(en, "rp")
	}
	return en
}

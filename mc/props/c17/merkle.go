package main

// Part B: common/merkle (New / Root / HashNodes / FindSiblingNodes / Verify) and its three users
// (types.Transactions / ChangeLogSlice / DeputyNodes .MerkleRootSha), by exhaustive enumeration of
// leaf lists. The concrete pairing order is NOT asserted (the statement does not fix it).

import (
	"fmt"
	"math/big"
	"strings"
	"sync"
	"sync/atomic"
	"time"

	"verifmc/core"
	"verifmc/node"

	"github.com/LemoFoundationLtd/lemochain-core/chain/account"
	"github.com/LemoFoundationLtd/lemochain-core/chain/params"
	"github.com/LemoFoundationLtd/lemochain-core/chain/types"
	"github.com/LemoFoundationLtd/lemochain-core/common"
	"github.com/LemoFoundationLtd/lemochain-core/common/crypto"
	"github.com/LemoFoundationLtd/lemochain-core/common/merkle"
	"github.com/LemoFoundationLtd/lemochain-core/common/rlp"
)

type merkleCase struct {
	Family string `json:"family"`
	Leaves []int  `json:"leaves"` // indices into the leaf universe: leaf(i) = keccak("verif-c17-leaf/<i>")
}

func leaf(i int) common.Hash {
	return crypto.Keccak256Hash([]byte(fmt.Sprintf("verif-c17-leaf/%d", i)))
}

// caseResult is what one list produced; results are merged in enumeration order so that the
// outcome does not depend on goroutine scheduling.
type caseResult struct {
	c        merkleCase
	root     common.Hash
	counters map[string]int64
	outcomes []string
	viols    []core.Violation
}

var (
	rootsSeen = map[common.Hash]string{} // root -> the list that produced it
	altMasks  = []byte{0x01, 0xff}
)

func listName(l []int) string { return strings.Trim(fmt.Sprint(l), "[]") }

func alter(h common.Hash, pos int, mask byte) common.Hash {
	h[pos] ^= mask
	return h
}

func checkMerkleCase(c merkleCase) (res *caseResult) {
	res = &caseResult{c: c, counters: map[string]int64{"merkle_evaluations": 1}}
	r := res
	viol := func(class, f string, a ...interface{}) {
		fp := prop + "/merkle/" + class + "/len=" + fmt.Sprint(len(c.Leaves))
		for _, v := range res.viols {
			if v.Fingerprint == fp {
				return
			}
		}
		res.viols = append(res.viols, core.Violation{Fingerprint: fp, What: fmt.Sprintf("[%s list %s] ", c.Family, listName(c.Leaves)) + fmt.Sprintf(f, a...), Replay: map[string]interface{}{"merkle": c}})
	}
	defer func() {
		if p := recover(); p != nil {
			viol("panic", "panic: %v", p)
		}
	}()
	n := len(c.Leaves)
	leaves := make([]common.Hash, n)
	for i, x := range c.Leaves {
		leaves[i] = leaf(x)
	}
	input := append([]common.Hash{}, leaves...)
	m := merkle.New(input)
	root := m.Root()
	nodes := m.HashNodes()
	// the root is a function of the list alone
	if again := m.Root(); again != root {
		viol("root-not-stable", "Root() returned %x then %x on the same tree", root, again)
	}
	m2 := merkle.New(append([]common.Hash{}, leaves...))
	nodes2 := m2.HashNodes() // other call order on the fresh tree
	if r2 := m2.Root(); r2 != root {
		viol("root-not-a-function-of-the-list", "a fresh tree over the same list has root %x, the first one %x", r2, root)
	}
	if len(nodes2) != len(nodes) {
		viol("nodes-not-a-function-of-the-list", "HashNodes has %d entries on one tree and %d on a fresh one", len(nodes), len(nodes2))
	}
	for i := range input {
		if input[i] != leaves[i] {
			viol("input-mutated", "leaf %d of the caller's slice was changed", i)
		}
	}
	// the same list handed over as a prefix of a longer slice (spare capacity behind the leaves, as
	// after append-growth or when one array holds several lists): the root is a function of the list,
	// not of where it lives, and computing it must not write into the caller's array
	{
		const spare = 9
		pool := make([]common.Hash, n+spare)
		copy(pool, leaves)
		for i := n; i < n+spare; i++ {
			pool[i] = crypto.Keccak256Hash([]byte{0x5e, byte(i)})
		}
		want := append([]common.Hash{}, pool...)
		m3 := merkle.New(pool[:n])
		if r3 := m3.Root(); r3 != root {
			viol("root-depends-on-slice-capacity", "the list as a prefix of a longer slice has root %x, as a slice of its own %x", r3, root)
		}
		m3.HashNodes()
		for i := range pool {
			if pool[i] != want[i] {
				viol("caller-array-overwritten", "building the tree over list[:%d] changed element %d of the caller's array", n, i)
				break
			}
		}
		if n > 0 {
			if sib, err := merkle.FindSiblingNodes(leaves[n-1], m3.HashNodes()); err != nil || !merkle.Verify(leaves[n-1], root, sib) {
				viol("proof-fails-on-prefix-slice", "the proof of the last position does not verify when the list is a prefix of a longer slice (err %v)", err)
			}
		}
	}
	if n > 0 && (len(nodes) == 0 || nodes[len(nodes)-1] != root) {
		viol("hashnodes-root-mismatch", "the last entry of HashNodes is not Root()")
	}
	res.root = root
	if n == 0 {
		if _, err := merkle.FindSiblingNodes(leaf(0), nodes); err == nil {
			viol("absent-leaf-found", "FindSiblingNodes finds a leaf in the empty tree")
		}
		r.Outcome("merkle:len=0")
		return res
	}
	if _, err := merkle.FindSiblingNodes(leaf(1000), nodes); err == nil {
		viol("absent-leaf-found", "FindSiblingNodes returns a path for a hash that is not in the tree")
	}
	for pos := 0; pos < n; pos++ {
		target := leaves[pos]
		sib, err := merkle.FindSiblingNodes(target, nodes)
		if err != nil {
			viol("no-path", "FindSiblingNodes(position %d): %v", pos, err)
			continue
		}
		r.Add("merkle_positions", 1)
		verify := func(t, rt common.Hash, s []merkle.MerkleNode) bool {
			r.Add("merkle_verifications", 1)
			return merkle.Verify(t, rt, s)
		}
		if !verify(target, root, sib) {
			viol("honest-proof-rejected", "Verify rejects the path of position %d (path of %d entries)", pos, len(sib))
			continue
		}
		r.Outcome(fmt.Sprintf("merkle:len=%d:path=%d", n, len(sib)))
		for b := 0; b < common.HashLength; b++ {
			for _, mk := range altMasks {
				if verify(alter(target, b, mk), root, sib) {
					viol("altered-leaf-accepted", "Verify accepts position %d with byte %d of the leaf altered", pos, b)
				}
				if verify(target, alter(root, b, mk), sib) {
					viol("altered-root-accepted", "Verify accepts position %d against a root with byte %d altered", pos, b)
				}
			}
		}
		running := target
		for j, s := range sib {
			if s.NodeType != merkle.LeftNode && s.NodeType != merkle.RightNode {
				// the trailing RootNode entry repeats the root and is not consulted by Verify
				r.Add("merkle_rootnode_entries_skipped", 1)
				continue
			}
			cp := func() []merkle.MerkleNode { return append([]merkle.MerkleNode{}, sib...) }
			for b := 0; b < common.HashLength; b++ {
				for _, mk := range altMasks {
					a := cp()
					a[j].Hash = alter(a[j].Hash, b, mk)
					if verify(target, root, a) {
						viol("altered-sibling-accepted", "Verify accepts position %d with byte %d of path entry %d altered", pos, b, j)
					}
				}
			}
			// dropped entry
			d := append(cp()[:j], sib[j+1:]...)
			if verify(target, root, d) {
				viol("shortened-path-accepted", "Verify accepts position %d with path entry %d removed", pos, j)
			}
			// side swapped (only meaningful when the two halves differ)
			if s.Hash != running {
				a := cp()
				if a[j].NodeType == merkle.LeftNode {
					a[j].NodeType = merkle.RightNode
				} else {
					a[j].NodeType = merkle.LeftNode
				}
				if verify(target, root, a) {
					viol("swapped-side-accepted", "Verify accepts position %d with the side of path entry %d swapped", pos, j)
				}
			}
			if s.NodeType == merkle.LeftNode {
				running = crypto.Keccak256Hash(append(s.Hash[:], running[:]...))
			} else {
				running = crypto.Keccak256Hash(append(running[:], s.Hash[:]...))
			}
		}
		// the path of one leaf proves no other leaf
		for q := 0; q < n; q++ {
			if leaves[q] != target && verify(leaves[q], root, sib) {
				viol("path-proves-other-leaf", "the path of position %d verifies the different leaf of position %d", pos, q)
			}
		}
	}
	return res
}

func (r *caseResult) Add(k string, n int64) { r.counters[k] += n }
func (r *caseResult) Outcome(k string)      { r.outcomes = append(r.outcomes, k) }

// mergeCase folds one list's result into the Result and applies the cross-list oracle: distinct
// lists have distinct roots.
func mergeCase(r *core.Result, res *caseResult) {
	for k, v := range res.counters {
		r.Add(k, v)
	}
	for _, o := range res.outcomes {
		r.Outcome(o)
	}
	for _, v := range res.viols {
		r.Violate(v.Fingerprint, v.What, v.Replay)
	}
	name := listName(res.c.Leaves)
	if prev, ok := rootsSeen[res.root]; ok && prev != name {
		r.Violate(prop+"/merkle/two-lists-one-root/len="+fmt.Sprint(len(res.c.Leaves)), fmt.Sprintf("[%s] lists [%s] and [%s] have the same root %x", res.c.Family, prev, name, res.root),
			map[string]interface{}{"merkle": res.c, "merkle_other": prev})
	} else {
		rootsSeen[res.root] = name
	}
}

// enumerate calls f for every list of length exactly n over the alphabet 0..k-1.
func enumerate(n, k int, f func([]int)) {
	l := make([]int, n)
	var rec func(i int)
	rec = func(i int) {
		if i == n {
			f(append([]int{}, l...))
			return
		}
		for x := 0; x < k; x++ {
			l[i] = x
			rec(i + 1)
		}
	}
	rec(0)
}

// arrangements calls f for every ordered selection without repetition of n out of k leaves.
func arrangements(n, k int, f func([]int)) {
	l := make([]int, 0, n)
	used := make([]bool, k)
	var rec func()
	rec = func() {
		if len(l) == n {
			f(append([]int{}, l...))
			return
		}
		for x := 0; x < k; x++ {
			if !used[x] {
				used[x] = true
				l = append(l, x)
				rec()
				l = l[:len(l)-1]
				used[x] = false
			}
		}
	}
	rec()
}

func partB(r *core.Result) {
	maxDistinct, maxLen3, k4len, arrK := 17, 6, 0, 5
	if core.Thorough() {
		maxDistinct, maxLen3, k4len, arrK = 40, 8, 5, 6
	}
	t0 := time.Now()
	var cases []merkleCase
	// (1) lists of n distinct leaves, n = 0..maxDistinct
	for n := 0; n <= maxDistinct; n++ {
		l := make([]int, n)
		for i := range l {
			l[i] = i
		}
		cases = append(cases, merkleCase{"distinct", l})
	}
	// (2) all lists of length <= maxLen3 over a 3-leaf alphabet (repeated leaves)
	for n := 0; n <= maxLen3; n++ {
		enumerate(n, 3, func(l []int) { cases = append(cases, merkleCase{"alphabet3", l}) })
	}
	for n := 0; n <= k4len; n++ {
		enumerate(n, 4, func(l []int) { cases = append(cases, merkleCase{"alphabet4", l}) })
	}
	// (3) every ordered selection of up to arrK out of arrK distinct leaves (order matters)
	for n := 0; n <= arrK; n++ {
		arrangements(n, arrK, func(l []int) { cases = append(cases, merkleCase{"arrangement", l}) })
	}
	// common/merkle has no package state: lists are checked by goroutines, merged in order
	results := make([]*caseResult, len(cases))
	var wg sync.WaitGroup
	var next int64 = -1
	for w := 0; w < core.Opt.Workers; w++ {
		wg.Add(1)
		go func() {
			defer wg.Done()
			for {
				i := int(atomic.AddInt64(&next, 1))
				if i >= len(cases) {
					return
				}
				results[i] = checkMerkleCase(cases[i])
			}
		}()
	}
	wg.Wait()
	for _, res := range results {
		mergeCase(r, res)
		if n := len(res.c.Leaves); (res.c.Family == "distinct" && n == 5) || (res.c.Family == "alphabet3" && n == 4 && listName(res.c.Leaves) == "0 1 0 2") {
			r.Sample(map[string]interface{}{"merkle_list": res.c, "root": res.root.Hex(), "outcomes": res.outcomes, "counters": res.counters})
		}
	}
	r.Extra["part_b_wall_s"] = time.Since(t0).Seconds()
	r.Extra["merkle_bounds"] = map[string]int{"distinct_leaves_max_len": maxDistinct, "alphabet3_max_len": maxLen3, "alphabet4_max_len": k4len, "arrangements_of": arrK}
	r.Add("merkle_distinct_roots", int64(len(rootsSeen)))
	partBTypes(r)
}

// partBTypes: the three users of the tree.
func partBTypes(r *core.Result) {
	const k = 3
	maxLen := 4
	if core.Thorough() {
		maxLen = 6
	}
	from, to := node.User(0).Addr, node.User(1).Addr
	var txs [k]*types.Transaction
	var logs [k]*types.ChangeLog
	var deps [k]*types.DeputyNode
	for i := 0; i < k; i++ {
		txs[i] = types.NewTransaction(from, to, big.NewInt(int64(i+1)), 21000, big.NewInt(1), nil, params.OrdinaryTx, 1, 1700000000, "", "")
		logs[i] = &types.ChangeLog{LogType: account.BalanceLog, Address: from, Version: uint32(i + 1), NewVal: *big.NewInt(int64(10 + i))}
		if _, err := rlp.EncodeToBytes(logs[i]); err != nil {
			panic("harness: change log not encodable: " + err.Error())
		}
		d := node.Deputy(i)
		deps[i] = &types.DeputyNode{MinerAddress: d.Addr, NodeID: d.NodeID, Rank: uint32(i), Votes: big.NewInt(int64(100 - i))}
	}
	seen := map[string]map[common.Hash]string{"tx": {}, "log": {}, "deputy": {}}
	check := func(kind string, l []int, got common.Hash, hashes []common.Hash) {
		r.Add("merkle_type_evaluations", 1)
		viol := func(class, f string, a ...interface{}) {
			r.Violate(prop+"/merkle-user/"+kind+"/"+class, fmt.Sprintf("[%s list %s] ", kind, listName(l))+fmt.Sprintf(f, a...), map[string]interface{}{"merkle_user": kind, "list": l})
		}
		if want := merkle.New(hashes).Root(); got != want {
			viol("root-differs-from-tree", "MerkleRootSha = %x, merkle tree over the item hashes = %x", got, want)
		}
		if len(l) == 0 && got != merkle.EmptyTrieHash {
			viol("empty-list-root", "empty list has root %x, EmptyTrieHash is %x", got, merkle.EmptyTrieHash)
		}
		if len(l) > 0 && got == merkle.EmptyTrieHash {
			viol("nonempty-list-has-empty-root", "non-empty list has the empty root")
		}
		name := listName(l)
		if prev, ok := seen[kind][got]; ok && prev != name {
			viol("two-lists-one-root", "lists [%s] and [%s] have the same root", prev, name)
		}
		seen[kind][got] = name
		r.Outcome(fmt.Sprintf("merkle-user:%s:len=%d", kind, len(l)))
	}
	// nil slices
	check("tx", nil, types.Transactions(nil).MerkleRootSha(), nil)
	check("log", nil, types.ChangeLogSlice(nil).MerkleRootSha(), nil)
	check("deputy", nil, types.DeputyNodes(nil).MerkleRootSha(), nil)
	for n := 0; n <= maxLen; n++ {
		enumerate(n, k, func(l []int) {
			ts := make(types.Transactions, n)
			ls := make(types.ChangeLogSlice, n)
			ds := make(types.DeputyNodes, n)
			ht, hl, hd := make([]common.Hash, n), make([]common.Hash, n), make([]common.Hash, n)
			for i, x := range l {
				ts[i], ls[i], ds[i] = txs[x], logs[x], deps[x]
				ht[i], hl[i], hd[i] = txs[x].Hash(), logs[x].Hash(), deps[x].Hash()
			}
			check("tx", l, ts.MerkleRootSha(), ht)
			check("log", l, ls.MerkleRootSha(), hl)
			check("deputy", l, ds.MerkleRootSha(), hd)
			// determinism on a second evaluation
			if ts.MerkleRootSha() != ts.MerkleRootSha() || ls.MerkleRootSha() != ls.MerkleRootSha() || ds.MerkleRootSha() != ds.MerkleRootSha() {
				r.Violate(prop+"/merkle-user/not-deterministic", fmt.Sprintf("MerkleRootSha differs between two evaluations of list %s", listName(l)), map[string]interface{}{"list": l})
			}
		})
	}
}

// C17 — state commitments bind content: trie / Merkle roots depend only on what is stored.
//
// Part A (engine E2, core.BFS with subprocess workers): explicit-state BFS over histories of
// operations on the REAL store/trie (trie.New and trie.NewSecure) over a real store.TrieDatabase
// over the BeansDB of a real store.ChainDatabase. The first event of a history picks a scenario
// (trie kind, cache-generation limit in {0,1,120}, key and value alphabet); the following events are
//
//	u k v   TryUpdate(key k, value v)         (v = 0: the empty value, i.e. a deletion)
//	d k     TryDelete(key k)
//	g k     TryGet(key k)                      (enabled while the in-memory trie has unresolved hash nodes)
//	h       Hash()
//	tc      Trie.Commit(nil)                   (nodes go to the TrieDatabase's memory layer only)
//	c       Trie.Commit(nil) + TrieDatabase.Commit(root,false)   (what account.StorageCache.Save and Manager.Save do)
//	ro      new trie object at the last committed root over the SAME TrieDatabase (uncommitted changes are dropped)
//	rf      new TrieDatabase over the same key-value store + new trie object at the last durable root
//	rp      as rf, at the durable root before the last one (an older version, as on a fork switch)
//
// Oracles, evaluated on the last event of every history (BFS visits every prefix as a history of
// its own, so every step of every history is checked exactly once):
//   - no operation returns an error or panics;
//   - TryGet returns the model's value for every alphabet key and nothing for absent keys and for
//     probe keys that are never written (read of every key after every history);
//   - Hash()/Commit() equal the root of a FRESH trie into which the model's content is inserted in
//     sorted key order: order, deletion, commit and eviction independence;
//   - after a durable commit a new trie over a new TrieDatabase at that root reads the model's content
//     and hashes to the same root; after every reopen event the content is the committed version's;
//   - proofs: see proof.go.
//
// Part B (exhaustive enumeration, same Result): common/merkle and the three MerkleRootSha users.
package main

import (
	"encoding/json"
	"fmt"
	"os"
	"path/filepath"
	"regexp"
	"sort"
	"strconv"
	"strings"
	"time"

	"verifmc/core"
	"verifmc/node"
)

const prop = "C17"

// ---------------------------------------------------------------------------------------------
// counters: workers are killed by the pool without notice, so they publish their counters in a
// side file after every history; the coordinator sums the files.

var (
	stats      = map[string]int64{}
	statsDirty bool
)

func stat(name string, n int64) {
	stats[name] += n
	statsDirty = true
}

func flushStats() {
	dir := os.Getenv("C17_STATS")
	if dir == "" || !statsDirty {
		return
	}
	b, _ := json.Marshal(stats)
	p := filepath.Join(dir, fmt.Sprintf("%d.json", os.Getpid()))
	if err := os.WriteFile(p+".tmp", b, 0644); err == nil {
		os.Rename(p+".tmp", p)
	}
	statsDirty = false
}

func collectStats(dir string, into map[string]int64) {
	files, _ := filepath.Glob(filepath.Join(dir, "*.json"))
	for _, f := range files {
		b, err := os.ReadFile(f)
		if err != nil {
			continue
		}
		m := map[string]int64{}
		if json.Unmarshal(b, &m) != nil {
			continue
		}
		for k, v := range m {
			into[k] += v
		}
	}
}

// ---------------------------------------------------------------------------------------------

func kindOf(ev string) string { return strings.Fields(ev)[0] }

func kindSeq(evs []string) string {
	l := make([]string, len(evs))
	for i, e := range evs {
		l[i] = kindOf(e)
	}
	return strings.Join(l, ",")
}

func trieKind(sc *scenario) string {
	if sc.Secure {
		return "secure"
	}
	return "plain"
}

func run(hist []string) core.Outcome {
	if len(hist) == 0 {
		return core.Outcome{Key: "root", Enabled: append([]string{}, scenarioNames...)}
	}
	sc := scenarios[hist[0]]
	if sc == nil {
		panic(errInvalidHistory)
	}
	evs := hist[1:]
	var o core.Outcome
	viol := func(f *failure, at int) {
		o.Key, o.Enabled = "", nil
		o.Violations = append(o.Violations, core.Violation{
			Fingerprint: prop + "/" + f.class + "/" + trieKind(sc),
			What:        fmt.Sprintf("[%s, step %d of %v] %s", sc.Name, at+1, evs, f.detail),
			Replay:      map[string]interface{}{"history": hist},
		})
	}
	dbUses++
	t0 := time.Now()
	defer func() { stat("us/total", int64(time.Since(t0)/time.Microsecond)) }()
	in := newInst(sc)
	var before shape
	var modelBefore, getsBefore int
	for i, e := range evs {
		if i == len(evs)-1 {
			_, before = in.dump()
			modelBefore, getsBefore = len(in.model), in.iso.gets
		}
		if f := in.apply(e); f != nil {
			viol(f, i)
			return o
		}
		if trace {
			d, _ := in.dump()
			fmt.Printf("  after %-8s model {%s}\n      %s\n", e, modelString(in.model), d)
		}
	}
	stat("us/replay", int64(time.Since(t0)/time.Microsecond))
	key, sh := in.stateKey()
	o.Key = core.Hash(key)
	last := ""
	if len(evs) > 0 {
		last = kindOf(evs[len(evs)-1])
		stat("event/"+last, 1)
		stat("scenario/"+sc.Name, 1)
		stat(fmt.Sprintf("depth/%s/%d", sc.Name[:2], len(evs)), 1)
		for _, c := range coverage(last, before, sh, in, modelBefore, in.iso.gets-getsBefore) {
			stat("cov/"+c, 1)
			o.Tags = append(o.Tags, "cov:"+trieKind(sc)+":"+c)
		}
	}
	if len(evs) < sc.depth() {
		o.Enabled = in.enabled(sh)
	}
	if last == "c" {
		t1 := time.Now()
		f := in.durable()
		stat("us/durable+proofs", int64(time.Since(t1)/time.Microsecond))
		if f != nil {
			viol(f, len(evs)-1)
			return o
		}
		stat("durable_reopen_checks", 1)
	}
	if f := in.terminal(); f != nil {
		viol(f, len(evs)-1)
		return o
	}
	stat("content_checks", 1)
	o.Tags = append(o.Tags, fmt.Sprintf("root:%s:%x", trieKind(sc), modelRoot(sc, in.model).Bytes()[:8]))
	return o
}

// normPanics makes panic fingerprints stable: node hashes and sizes inside the message are data.
var hexRun = regexp.MustCompile(`[0-9a-f]{8,}|[0-9]+`)

func normPanics(f core.RunFunc) core.RunFunc {
	return func(h []string) core.Outcome {
		o := f(h)
		for i, v := range o.Violations {
			if strings.HasPrefix(v.Fingerprint, prop+"/panic/") {
				pre := prop + "/panic/"
				fp := pre + hexRun.ReplaceAllString(v.Fingerprint[len(pre):], "#")
				if len(h) > 0 && scenarios[h[0]] != nil {
					fp += "/" + trieKind(scenarios[h[0]])
				}
				o.Violations[i].Fingerprint = fp
			}
		}
		return o
	}
}

// trace prints the raw dump after every event (replay mode).
var trace bool

// coverage names the structural transitions the last event made (observed on the in-memory trie).
func coverage(last string, b, a shape, in *inst, modelBefore, storeReads int) []string {
	var c []string
	add := func(cond bool, name string) {
		if cond {
			c = append(c, name)
		}
	}
	switch last {
	case "u", "d":
		add(a.full > b.full, "write-creates-branch")
		add(a.full < b.full, "delete-collapses-branch")
		add(len(in.model) < modelBefore && storeReads >= 2, "delete-reads-path-and-sibling-from-store")
		add(len(in.model) == modelBefore && storeReads >= 1, "overwrite-or-noop-delete-reads-store")
		add(len(in.model) > modelBefore && storeReads >= 1, "insert-reads-store")
		add(a.short < b.short && a.full == b.full && a.value < b.value, "delete-removes-leaf")
		add(a.hash < b.hash, "write-resolves-hash-node")
		add(a.value == b.value && a.full == b.full && a.short == b.short, "write-keeps-shape")
	case "g":
		add(a.hash < b.hash, "read-resolves-hash-node")
	case "tc", "c":
		add(a.hash > b.hash, "commit-unloads-nodes(cache generation)")
		add(a.hash == b.hash && a.full+a.short > 0, "commit-keeps-nodes-in-memory")
		add(a.embedded > 0, "commit-with-embedded-node(<32 bytes)")
		add(len(in.model) == 0, "commit-empty-trie")
	case "ro", "rf", "rp":
		add(len(in.model) > 0, "reopen-nonempty")
		add(len(in.model) == 0, "reopen-empty")
	}
	return c
}

// ---------------------------------------------------------------------------------------------
// minimisation

func class(fp string) string {
	if i := strings.Index(fp, "/min="); i >= 0 {
		fp = fp[:i]
	}
	return fp
}

var shrunk = map[string]int{}

func minimise(o core.Outcome, hist []string, run core.RunFunc) core.Outcome {
	for vi, v := range o.Violations {
		cl := class(v.Fingerprint)
		if shrunk[cl] >= 3 {
			// the class has been minimised in this worker already; do not spend the budget again
			o.Violations[vi].Fingerprint = cl + "/min=(not minimised)"
			continue
		}
		shrunk[cl]++
		min := core.Shrink(hist, 1, nil, func(h []string) bool {
			for _, w := range run(h).Violations {
				if class(w.Fingerprint) == cl {
					return true
				}
			}
			return false
		})
		for _, w := range run(min).Violations {
			if class(w.Fingerprint) == cl {
				v = w
				break
			}
		}
		o.Violations[vi].Fingerprint = cl + "/min=" + kindSeq(min[1:])
		o.Violations[vi].What = v.What
		o.Violations[vi].Replay = map[string]interface{}{"history": min, "found_as": hist}
	}
	return o
}

// ---------------------------------------------------------------------------------------------

func initScenarios() {
	// plain trie; key indices: 0 "", 1 00, 2 01, 3 10, 4 0000, 5 0001, 6 = 0000ab…ab (32 bytes)
	// value indices: 1 = 1 byte, 2 = 31, 3 = 32, 4 = 100, 5 = 28, 6 = 29 bytes, 7 = 1 byte >= 0x80
	addScenario("pA", false, []int{0, 1, 2, 3}, []int{1, 3}, 5, 6) // value in the branch's 17th slot, sibling leaves
	addScenario("pB", false, []int{1, 4, 5}, []int{1, 4}, 5, 6)    // extension + nested branch carrying a value
	addScenario("pC", false, []int{4, 5, 6}, []int{2, 3}, 5, 6)    // long key below a shared prefix, 31/32-byte values
	addScenario("pD", false, []int{1, 2}, []int{5, 6, 7}, 5, 7)    // leaf exactly below / at the 32-byte embedding threshold
	addScenario("pE", false, []int{0, 1, 2, 3, 4, 5, 6}, []int{1, 4}, 4, 4)
	// secure trie; key indices 0..3 (hashed keys share 2 nibbles / 1 nibble / nothing with key 0)
	addScenario("sA", true, []int{0, 1, 2, 3}, []int{1, 3}, 4, 5)
	addScenario("sB", true, []int{0, 1, 2}, []int{2, 4}, 5, 6)
	// secure trie with SecureTrie.Copy() in the alphabet (one value per key, no cache eviction): the copy
	// keeps the content it had; uncommitted (dirty) branches are shared between copy and original
	{
		s := &scenario{Name: "sCopy/120", Secure: true, Limit: 120, Keys: []int{0, 1, 2, 3}, Vals: []int{1}, Depth: [2]int{5, 6}, Copy: true}
		scenarios[s.Name] = s
		scenarioNames = append(scenarioNames, s.Name)
	}
	sort.Strings(scenarioNames)
}

func maxDepth() int {
	m := 0
	for _, s := range scenarios {
		if d := s.depth(); d > m {
			m = d
		}
	}
	return m
}

func main() {
	core.ParseFlags()
	node.Quiet()
	initUniverse()
	initScenarios()
	safe := normPanics(core.SafeRun(prop, run))
	if core.Opt.Worker == "serve" || core.Opt.Replay != "" {
		openChainDB()
		defer os.RemoveAll(dbDir)
	}
	if core.Opt.Replay != "" {
		var rp struct {
			History []string    `json:"history"`
			Merkle  *merkleCase `json:"merkle"`
			Other   string      `json:"merkle_other"`
			Bulk    string      `json:"bulk"`
			User    string      `json:"merkle_user"`
		}
		if err := core.LoadReplay(core.Opt.Replay, &rp); err != nil {
			fmt.Fprintln(os.Stderr, err)
			os.Exit(2)
		}
		failed := false
		if rp.Bulk != "" || rp.User != "" {
			// the fixed large histories / the MerkleRootSha users are re-run as a whole
			os.RemoveAll(dbDir)
			r := core.NewResult(prop, "model_checking")
			if rp.Bulk != "" {
				partA2(r)
			} else {
				partBTypes(r)
			}
			for _, v := range r.Violations {
				fmt.Printf("VIOLATION-REPLAYED %s\n%s\n", v.Fingerprint, v.What)
				failed = true
			}
		} else if rp.Merkle != nil {
			fmt.Printf("replay merkle case %+v\n", *rp.Merkle)
			r := core.NewResult(prop, "model_checking")
			if rp.Other != "" {
				var l []int
				for _, f := range strings.Fields(rp.Other) {
					n, _ := strconv.Atoi(f)
					l = append(l, n)
				}
				mergeCase(r, checkMerkleCase(merkleCase{rp.Merkle.Family, l}))
			}
			mergeCase(r, checkMerkleCase(*rp.Merkle))
			for _, v := range r.Violations {
				fmt.Printf("VIOLATION-REPLAYED %s\n%s\n", v.Fingerprint, v.What)
				failed = true
			}
		} else {
			fmt.Printf("replay %v\n", rp.History)
			trace = true
			o := safe(rp.History)
			trace = false
			for _, v := range o.Violations {
				fmt.Printf("VIOLATION-REPLAYED %s\n%s\n", v.Fingerprint, v.What)
				failed = true
			}
		}
		os.RemoveAll(dbDir)
		if failed {
			os.Exit(1)
		}
		fmt.Println("replay: no violation")
		return
	}
	core.ServeIfWorker(func(h []string) core.Outcome {
		if dbUses >= 20000 {
			// bound the size of the worker's scratch database
			chainDB.Close()
			os.RemoveAll(dbDir)
			openChainDB()
			stat("worker_db_recreated", 1)
		}
		o := safe(h)
		if len(o.Violations) > 0 {
			o = minimise(o, h, safe)
		}
		flushStats()
		return o
	})

	r := core.NewResult(prop, "model_checking")
	r.Rule = "Part A: BFS over event histories on the real trie.Trie / trie.SecureTrie over store.TrieDatabase over a ChainDatabase's BeansDB; " +
		"21 scenarios = 7 alphabets (plain keys \"\",00,01,10,0000,0001,32-byte; 4 secure keys; values of 1,28,29,31,32,100 bytes and empty) x cache-generation limit {0,1,120}; " +
		"events update/delete/get/hash/trie-commit/durable-commit/reopen(same db)/reopen(fresh db)/reopen(previous durable root); " +
		"states are distinct raw dumps (in-memory node graph with cached hashes, dirty flags and distance to unloading; TrieDatabase memory layer with reference counts and pending preimages; " +
		"set of keys in the key-value store; reopenable roots with their content); a distinct outcome is a distinct root hash (= distinct content) or a structural transition mark. " +
		"Part A2: four fixed large histories (1500/6000 keys, 100-byte values; plain and secure; cache limit 0 and 120) that reach TrieDatabase.Commit's intermediate batch flush. " +
		"Part B: every leaf list in the stated families (n distinct leaves for every n up to the bound; all lists over a 3- and 4-leaf alphabet up to the bound; all ordered selections of up to k of k leaves), every position, every single-byte alteration (two masks) of leaf, each sibling and root, dropped and side-swapped path entries; a distinct outcome there is a distinct (list length, path length)."
	r.Assume = []string{
		"keccak256 is collision free on the enumerated inputs",
		"cache-generation distance of a node is abstracted to 'unloadable / k commits from unloadable (k<=16) / far', exact for every explored history (depth < 16)",
		"reads from the key-value store are restricted to keys written by the same history (per-history isolation of the worker's shared BeansDB); all data is stored in and read back from the real BeansDB",
		"Merkle leaves are hashes of transactions / change logs / deputy records, never a chosen 32-byte string equal to an inner node (the tree has no leaf/inner domain separation)",
	}
	statsDir := core.ScratchDir("c17stats")
	defer os.RemoveAll(statsDir)
	os.Setenv("C17_STATS", statsDir)
	bfs := core.BFS
	if os.Getenv("C17_SKIP_BFS") != "" {
		// development aid: only parts A2 and B; the result is marked as not exhaustive
		bfs = func(r *core.Result, cfg core.BFSConfig) { r.NotExhaustive("Part A skipped (C17_SKIP_BFS set)") }
	}
	bfs(r, core.BFSConfig{Prop: prop, Run: safe, MaxDepth: maxDepth() + 1, Subprocess: true,
		DiedFingerprint: func(hist []string, tail string) *core.Violation {
			lines := strings.Split(strings.TrimSpace(tail), "\n")
			first := ""
			for _, l := range lines {
				if strings.HasPrefix(l, "panic:") || strings.HasPrefix(l, "fatal error:") {
					first = l
					break
				}
			}
			if first == "" && len(lines) > 0 {
				first = lines[0]
			}
			if len(first) > 100 {
				first = first[:100]
			}
			return &core.Violation{Fingerprint: prop + "/worker-died/" + first, What: "the worker process died while executing " + fmt.Sprint(hist) + ": " + tail,
				Replay: map[string]interface{}{"history": hist}}
		}})
	os.Unsetenv("C17_STATS")
	ws := map[string]int64{}
	collectStats(statsDir, ws)
	os.RemoveAll(statsDir)
	cov := map[string]int64{}
	forged := map[string]int64{}
	events := map[string]int64{}
	perScen := map[string]int64{}
	perDepth := map[string]int64{}
	cpu := map[string]int64{}
	panics := map[string]int64{}
	preimg := map[string]int64{}
	for k, v := range ws {
		switch {
		case strings.HasPrefix(k, "cov/"):
			cov[k[4:]] = v
		case strings.HasPrefix(k, "forged_same_hash/"):
			forged[k[len("forged_same_hash/"):]] = v
		case strings.HasPrefix(k, "forged_same_hash_panic_kinds/"):
			panics[k[len("forged_same_hash_panic_kinds/"):]] = v
		case strings.HasPrefix(k, "preimage/"):
			preimg[k[len("preimage/"):]] = v
		case strings.HasPrefix(k, "us/"):
			cpu[k[3:]] = v / 1000
		case strings.HasPrefix(k, "depth/"):
			perDepth[k[6:]] = v
		case strings.HasPrefix(k, "event/"):
			events[k[6:]] = v
		case strings.HasPrefix(k, "scenario/"):
			perScen[k[9:]] = v
		default:
			r.Add(k, v)
		}
	}
	r.Extra["trie_branch_hits"] = cov
	r.Extra["trie_last_event_counts"] = events
	r.Extra["transitions_per_scenario"] = perScen
	r.Extra["transitions_per_alphabet_and_depth"] = perDepth
	r.Extra["worker_time_ms"] = cpu
	r.Extra["observation_forged_node_panics"] = panics
	r.Extra["observation_secure_key_preimages_after_commit"] = preimg
	r.Extra["observation_forged_node_under_original_hash"] = forged
	depths := map[string]int{}
	for n, s := range scenarios {
		depths[n] = s.depth()
	}
	r.Extra["scenario_depth_bounds"] = depths
	if forged["different_answer"] > 0 {
		r.Note("observation (not part of the property): trie.VerifyProof does not re-hash the blobs it reads; if the proof database is NOT keyed by the keccak of each blob, "+
			"%d of %d single-byte forgeries served under the original hash made it return a different value without error (%d panicked). The property is checked with the verifier's construction (blobs keyed by their own keccak).",
			forged["different_answer"], forged["different_answer"]+forged["rejected"]+forged["same_answer"]+forged["panic"], forged["panic"])
	}

	t2 := time.Now()
	partA2(r)
	r.Extra["part_a2_wall_s"] = time.Since(t2).Seconds()
	partB(r)
	core.Finish(r)
}

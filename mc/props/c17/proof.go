package main

// Proof clause of C17. Trie.Prove is commented out in this tree; only trie.VerifyProof exists. The
// node set a verifier would hold is assembled the way a verifier builds it: every node blob is
// stored under the keccak of its own bytes. The blobs are those reachable from the committed root,
// read back through a fresh TrieDatabase from the key-value store with the harness's own RLP walker.

import (
	"bytes"
	"fmt"
	"os"
	"path/filepath"
	"sort"
	"strings"
	"time"

	"verifmc/core"

	"github.com/LemoFoundationLtd/lemochain-core/common"
	"github.com/LemoFoundationLtd/lemochain-core/common/crypto"
	"github.com/LemoFoundationLtd/lemochain-core/store"
	"github.com/LemoFoundationLtd/lemochain-core/store/trie"
)

// rlpSplit splits the first RLP item off b: raw is the whole item including its header.
func rlpSplit(b []byte) (isList bool, payload, raw, rest []byte, err error) {
	if len(b) == 0 {
		return false, nil, nil, nil, fmt.Errorf("rlp: empty input")
	}
	t := b[0]
	var hdr, n int
	switch {
	case t < 0x80:
		return false, b[:1], b[:1], b[1:], nil
	case t < 0xb8:
		hdr, n = 1, int(t-0x80)
	case t < 0xc0:
		ll := int(t - 0xb7)
		if len(b) < 1+ll {
			return false, nil, nil, nil, fmt.Errorf("rlp: short length")
		}
		for _, x := range b[1 : 1+ll] {
			n = n<<8 | int(x)
		}
		hdr = 1 + ll
	case t < 0xf8:
		isList = true
		hdr, n = 1, int(t-0xc0)
	default:
		isList = true
		ll := int(t - 0xf7)
		if len(b) < 1+ll {
			return false, nil, nil, nil, fmt.Errorf("rlp: short length")
		}
		for _, x := range b[1 : 1+ll] {
			n = n<<8 | int(x)
		}
		hdr = 1 + ll
	}
	if len(b) < hdr+n {
		return false, nil, nil, nil, fmt.Errorf("rlp: item longer than input")
	}
	return isList, b[hdr : hdr+n], b[:hdr+n], b[hdr+n:], nil
}

// children lists the hash references inside one encoded node (descending into embedded nodes).
func children(enc []byte, out *[]common.Hash) error {
	isList, payload, _, _, err := rlpSplit(enc)
	if err != nil {
		return err
	}
	if !isList {
		return fmt.Errorf("node is not a list")
	}
	type item struct {
		isList       bool
		payload, raw []byte
	}
	var items []item
	for rest := payload; len(rest) > 0; {
		l, p, raw, r, err := rlpSplit(rest)
		if err != nil {
			return err
		}
		items = append(items, item{l, p, raw})
		rest = r
	}
	ref := func(it item) error {
		switch {
		case it.isList:
			return children(it.raw, out)
		case len(it.payload) == 32:
			*out = append(*out, common.BytesToHash(it.payload))
		case len(it.payload) == 0:
		default:
			return fmt.Errorf("reference of %d bytes", len(it.payload))
		}
		return nil
	}
	switch len(items) {
	case 2:
		if len(items[0].payload) == 0 {
			return fmt.Errorf("short node with empty key")
		}
		if items[0].payload[0]&0x20 != 0 {
			return nil // leaf: the second item is the value
		}
		return ref(items[1])
	case 17:
		for i := 0; i < 16; i++ {
			if err := ref(items[i]); err != nil {
				return err
			}
		}
		return nil
	}
	return fmt.Errorf("node with %d items", len(items))
}

type nodeSet map[common.Hash][]byte

func (s nodeSet) Get(flg uint32, key []byte) ([]byte, error) {
	return s[common.BytesToHash(key)], nil
}
func (s nodeSet) Has(flg uint32, key []byte) (bool, error) {
	_, ok := s[common.BytesToHash(key)]
	return ok, nil
}

// recording wraps a node set and remembers which hashes the verifier asked for.
type recording struct {
	nodeSet
	asked []common.Hash
}

func (r *recording) Get(flg uint32, key []byte) ([]byte, error) {
	r.asked = append(r.asked, common.BytesToHash(key))
	return r.nodeSet.Get(flg, key)
}

// assemble reads every node reachable from root through a fresh TrieDatabase.
func (in *inst) assemble(root common.Hash) (nodeSet, *failure) {
	set := nodeSet{}
	if root == emptyRoot || root == (common.Hash{}) {
		return set, nil
	}
	tdb := store.NewTrieDatabase(in.iso)
	var walk func(h common.Hash) *failure
	walk = func(h common.Hash) *failure {
		blob, err := tdb.Node(h)
		if err != nil || len(blob) == 0 {
			return failf("store/missing-node", "node %x reachable from committed root %x is not in the store (err %v)", h, root, err)
		}
		blob = common.CopyBytes(blob)
		if real := crypto.Keccak256Hash(blob); real != h {
			return failf("store/not-content-addressed", "the store returns for %x a blob whose keccak is %x", h, real)
		}
		set[h] = blob
		var cs []common.Hash
		if err := children(blob, &cs); err != nil {
			return failf("store/undecodable-node", "node %x: %v", h, err)
		}
		for _, c := range cs {
			if _, ok := set[c]; ok {
				continue
			}
			if f := walk(c); f != nil {
				return f
			}
		}
		return nil
	}
	if f := walk(root); f != nil {
		return nil, f
	}
	return set, nil
}

func (in *inst) proofKey(i int) []byte {
	k := in.sc.key(i)
	if in.sc.Secure {
		return crypto.Keccak256(k)
	}
	return k
}

type proofResult struct {
	val      []byte
	err      error
	panicked string
}

func verify(root common.Hash, key []byte, db store.DatabaseReader) (r proofResult) {
	defer func() {
		if p := recover(); p != nil {
			r = proofResult{panicked: fmt.Sprint(p)}
		}
	}()
	stat("proof_verifications", 1)
	v, err, _ := trie.VerifyProof(root, key, db)
	return proofResult{val: v, err: err}
}

// tamperMemo: the tamper sweep is a function of (root, node set, key set) alone; it is run once per
// distinct committed content in each worker.
var tamperMemo = map[string]bool{}

var flipMasks = []byte{0x01, 0x80, 0xff}

func (in *inst) proofs(s snap) *failure {
	t0 := time.Now()
	set, f := in.assemble(s.root)
	stat("us/proof-assemble", int64(time.Since(t0)/time.Microsecond))
	if f != nil {
		return f
	}
	defer func() { stat("us/proof-all", int64(time.Since(t0)/time.Microsecond)) }()
	stat("proof_sets_assembled", 1)
	keys := in.sc.readSet()
	orig := map[int]proofResult{}
	paths := map[int][]common.Hash{}
	for _, i := range keys {
		rec := &recording{nodeSet: set}
		r := verify(s.root, in.proofKey(i), rec)
		orig[i] = r
		paths[i] = rec.asked
		want, present := s.model[string(in.sc.key(i))]
		switch {
		case r.panicked != "":
			return failf("proof/panic", "VerifyProof(%x, key %x) panicked on the honest node set: %s", s.root, in.sc.key(i), r.panicked)
		case present && (r.err != nil || string(r.val) != want):
			return failf("proof/present-key-not-proved", "VerifyProof(%x, key %x) = (%x, %v) on the honest node set, stored value is %s; content {%s}", s.root, in.sc.key(i), r.val, r.err, valName(want), modelString(s.model))
		case !present && len(r.val) != 0:
			return failf("proof/absent-key-proved", "VerifyProof(%x, key %x) = %x for a key that is not stored; content {%s}", s.root, in.sc.key(i), r.val, modelString(s.model))
		}
		if present {
			stat("proof_present_ok", 1)
		} else {
			stat("proof_absent_ok", 1)
		}
	}
	// stale nodes of the other durable versions of this history, added to the honest set, change nothing
	if len(in.dur) > 1 {
		union := nodeSet{}
		for h, b := range set {
			union[h] = b
		}
		for _, d := range in.dur {
			if d.root == s.root {
				continue
			}
			other, f := in.assemble(d.root)
			if f != nil {
				f.class = "old-version/" + f.class
				f.detail = fmt.Sprintf("older durable root %x {%s}: %s", d.root, modelString(d.model), f.detail)
				return f
			}
			for h, b := range other {
				union[h] = b
			}
		}
		for _, i := range keys {
			r := verify(s.root, in.proofKey(i), union)
			if r.panicked != "" || (r.err == nil) != (orig[i].err == nil) || !bytes.Equal(r.val, orig[i].val) {
				return failf("proof/stale-nodes-change-answer", "with the nodes of older versions added VerifyProof(%x, key %x) = (%x, %v), honest set alone (%x, %v)", s.root, in.sc.key(i), r.val, r.err, orig[i].val, orig[i].err)
			}
		}
		stat("proof_union_checks", 1)
	}
	// memo key: the complete node set
	hs := make([]string, 0, len(set))
	for h, b := range set {
		hs = append(hs, fmt.Sprintf("%x:%x", h, crypto.Keccak256(b)))
	}
	sort.Strings(hs)
	// (the key set that is swept belongs to the alphabet, so the alphabet is part of the memo key)
	mk := core.Hash(fmt.Sprintf("%s|%x|%s", in.sc.Name[:2], s.root, strings.Join(hs, ",")))
	if tamperMemo[mk] {
		return nil
	}
	tamperMemo[mk] = true
	if dir := os.Getenv("C17_STATS"); dir != "" {
		// one worker per distinct node set does the sweep: claim it with an exclusive create
		f, err := os.OpenFile(filepath.Join(dir, "sweep-"+mk), os.O_CREATE|os.O_EXCL|os.O_WRONLY, 0644)
		if err != nil {
			return nil
		}
		f.Close()
	}
	stat("proof_tamper_sweeps", 1)
	for _, i := range keys {
		o := orig[i]
		key := in.proofKey(i)
		same := func(r proofResult) bool {
			// "fails or returns the same value": an error, or exactly the honest answer
			return r.panicked == "" && (r.err != nil || bytes.Equal(r.val, o.val))
		}
		for _, h := range paths[i] {
			blob, ok := set[h]
			if !ok {
				continue
			}
			// (1) node withheld
			delete(set, h)
			r := verify(s.root, key, set)
			set[h] = blob
			stat("proof_tamper_removed", 1)
			if !same(r) {
				return failf("proof/tamper/node-removed", "without node %x VerifyProof(%x, key %x) = (%x, %v, panic %q), honest answer (%x, %v)", h, s.root, key, r.val, r.err, r.panicked, o.val, o.err)
			}
			for pos := range blob {
				for _, m := range flipMasks {
					mod := common.CopyBytes(blob)
					mod[pos] ^= m
					// (2) the verifier's construction: the altered blob lands under its own keccak
					delete(set, h)
					mh := crypto.Keccak256Hash(mod)
					set[mh] = mod
					r := verify(s.root, key, set)
					delete(set, mh)
					set[h] = blob
					stat("proof_tamper_rekeyed", 1)
					if !same(r) {
						return failf("proof/tamper/altered-node", "with byte %d of node %x altered (stored under its own hash) VerifyProof(%x, key %x) = (%x, %v, panic %q), honest answer (%x, %v)", pos, h, s.root, key, r.val, r.err, r.panicked, o.val, o.err)
					}
					// (3) observation only: a forged blob served under the ORIGINAL hash, i.e. a proof
					// database that is not content addressed. VerifyProof does not re-hash what it reads,
					// so this measures what a caller loses when it skips the keying step.
					set[h] = mod
					r = verify(s.root, key, set)
					set[h] = blob
					switch {
					case r.panicked != "":
						stat("forged_same_hash/panic", 1)
						msg := r.panicked
						if len(msg) > 60 {
							msg = msg[:60]
						}
						stat("forged_same_hash_panic_kinds/"+msg, 1)
					case r.err != nil:
						stat("forged_same_hash/rejected", 1)
					case bytes.Equal(r.val, o.val):
						stat("forged_same_hash/same_answer", 1)
					default:
						stat("forged_same_hash/different_answer", 1)
					}
				}
			}
		}
	}
	return nil
}

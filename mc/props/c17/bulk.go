package main

// Part A2: a few fixed LARGE histories, run by the coordinator on its own ChainDatabase. The BFS
// alphabets keep tries tiny; TrieDatabase.Commit has a second path that flushes the write batch
// whenever it holds IdealBatchSize (100 KiB) of values, which only a commit of some thousand nodes
// reaches. These are single deterministic inputs (no sampling): N keys, 100-byte values.

import (
	"encoding/binary"
	"fmt"
	"os"
	"sort"

	"verifmc/core"

	"github.com/LemoFoundationLtd/lemochain-core/common"
	"github.com/LemoFoundationLtd/lemochain-core/common/crypto"
	"github.com/LemoFoundationLtd/lemochain-core/store"
)

func keccak(b []byte) []byte { return crypto.Keccak256(b) }

func bulkKey(i int) []byte {
	b := make([]byte, 4)
	binary.BigEndian.PutUint32(b, uint32(i)*2654435761) // spread over the nibble space, fixed
	return b
}

func bulkVal(i, version int) []byte {
	v := fill(100, byte(i))
	v[0], v[1], v[2] = byte(version), byte(i>>8), byte(i)
	return v
}

func partA2(r *core.Result) {
	openChainDB()
	defer func() {
		chainDB.Close()
		os.RemoveAll(dbDir)
	}()
	n := 1500
	if core.Thorough() {
		n = 6000
	}
	for _, secure := range []bool{false, true} {
		for _, lim := range []uint16{0, 120} {
			sc := &scenario{Name: fmt.Sprintf("bulk/%v/%d", secure, lim), Secure: secure, Limit: lim}
			func() {
				defer func() {
					if p := recover(); p != nil {
						r.Violate(prop+"/bulk/panic/"+trieKind(sc), fmt.Sprintf("[%s, %d keys] panic: %v", sc.Name, n, p), map[string]interface{}{"bulk": sc.Name, "n": n})
					}
				}()
				if f := bulkCase(r, sc, n); f != nil {
					r.Violate(prop+"/bulk/"+f.class+"/"+trieKind(sc), fmt.Sprintf("[%s, %d keys] %s", sc.Name, n, f.detail), map[string]interface{}{"bulk": sc.Name, "n": n})
				}
			}()
			r.Add("bulk_histories", 1)
		}
	}
	r.Extra["bulk_keys"] = n
}

// rootOf builds a fresh trie from the content in the given key order and hashes it (no memo: the
// point is to compare two different insertion orders at scale).
func rootOf(sc *scenario, m map[string]string, descending bool) common.Hash {
	ks := make([]string, 0, len(m))
	for k := range m {
		ks = append(ks, k)
	}
	sort.Strings(ks)
	if descending {
		for i, j := 0, len(ks)-1; i < j; i, j = i+1, j-1 {
			ks[i], ks[j] = ks[j], ks[i]
		}
	}
	t := &inst{sc: sc, iso: &isoDB{inner: chainDB.Beansdb, visible: map[string]bool{}}}
	t.tdb = store.NewTrieDatabase(t.iso)
	if err := t.open(common.Hash{}); err != nil {
		panic(err)
	}
	for _, k := range ks {
		if err := t.tryUpdate([]byte(k), []byte(m[k])); err != nil {
			panic(err)
		}
	}
	return t.hash()
}

func bulkCase(r *core.Result, sc *scenario, n int) *failure {
	in := &inst{sc: sc, iso: &isoDB{inner: chainDB.Beansdb, visible: map[string]bool{}}, model: map[string]string{}}
	in.tdb = store.NewTrieDatabase(in.iso)
	if err := in.open(common.Hash{}); err != nil {
		panic(err)
	}
	readAll := func(t *inst, m map[string]string, where string) *failure {
		for i := 0; i < n; i++ {
			k := bulkKey(i)
			got, err := t.tryGet(k)
			if err != nil {
				return failf("error/"+where, "TryGet(%x): %v", k, err)
			}
			if want := m[string(k)]; string(got) != want {
				return failf("read-differs/"+where, "TryGet(%x) = %d bytes %x…, model has %d bytes", k, len(got), head(got), len(want))
			}
			r.Add("bulk_reads", 1)
		}
		return nil
	}
	reopen := func(root common.Hash, m map[string]string, where string) *failure {
		o := &inst{sc: sc, iso: in.iso}
		o.tdb = store.NewTrieDatabase(in.iso)
		if err := o.open(root); err != nil {
			return failf("reopen-error/"+where, "root %x: %v", root, err)
		}
		if f := readAll(o, m, where); f != nil {
			return f
		}
		if got := o.hash(); got != root {
			return failf("hash-differs/"+where, "reopened trie hashes to %x, committed root %x", got, root)
		}
		return nil
	}
	commit := func(where string) (common.Hash, *failure) {
		before, flushes := len(in.iso.visible), in.iso.flushes
		root, err := in.commit()
		if err != nil {
			return root, failf("error/commit", "%v", err)
		}
		if err := in.tdb.Commit(root, false); err != nil {
			return root, failf("error/dbcommit", "%v", err)
		}
		r.Add("bulk_nodes_written", int64(len(in.iso.visible)-before))
		if in.iso.flushes-flushes > 1 {
			r.Add("bulk_commits_with_intermediate_batch_flush", 1)
		}
		if want := rootOf(sc, in.model, false); root != want {
			return root, failf("hash-differs/"+where, "Commit() = %x, fresh trie built in ascending key order = %x", root, want)
		}
		return root, nil
	}
	// version 1: N inserts (ascending i, i.e. scattered key order)
	for i := 0; i < n; i++ {
		k, v := bulkKey(i), bulkVal(i, 1)
		if err := in.tryUpdate(k, v); err != nil {
			return failf("error/update", "TryUpdate(%x): %v", k, err)
		}
		in.model[string(k)] = string(v)
	}
	if len(in.model) != n {
		panic("harness: bulk keys collide")
	}
	if a, d := rootOf(sc, in.model, false), rootOf(sc, in.model, true); a != d || a != in.hash() {
		return failf("hash-differs/insertion-order", "ascending order %x, descending order %x, history order %x", a, d, in.hash())
	}
	root1, f := commit("v1")
	if f != nil {
		return f
	}
	model1 := copyModel(in.model)
	if f := reopen(root1, model1, "v1-reopened"); f != nil {
		return f
	}
	// version 2: delete every second key, overwrite every third, on the committed (partly unloaded) trie
	for i := 0; i < n; i++ {
		k := bulkKey(i)
		switch {
		case i%2 == 0:
			if err := in.tryDelete(k); err != nil {
				return failf("error/delete", "TryDelete(%x): %v", k, err)
			}
			delete(in.model, string(k))
		case i%3 == 0:
			v := bulkVal(i, 2)
			if err := in.tryUpdate(k, v); err != nil {
				return failf("error/update", "TryUpdate(%x): %v", k, err)
			}
			in.model[string(k)] = string(v)
		}
	}
	if f := readAll(in, in.model, "v2-uncommitted"); f != nil {
		return f
	}
	root2, f := commit("v2")
	if f != nil {
		return f
	}
	if f := reopen(root2, in.model, "v2-reopened"); f != nil {
		return f
	}
	// the older version is still intact
	if f := reopen(root1, model1, "v1-reopened-after-v2"); f != nil {
		return f
	}
	// proofs for every 50th key (present in v1; present or deleted in v2) against both roots
	for _, ver := range []struct {
		root common.Hash
		m    map[string]string
	}{{root1, model1}, {root2, in.model}} {
		set, f := in.assemble(ver.root)
		if f != nil {
			return f
		}
		r.Add("bulk_proof_nodes", int64(len(set)))
		for i := 0; i < n; i += 50 {
			k := bulkKey(i)
			pk := k
			if sc.Secure {
				pk = keccak(k)
			}
			res := verify(ver.root, pk, set)
			want, present := ver.m[string(k)]
			if res.panicked != "" || (present && (res.err != nil || string(res.val) != want)) || (!present && len(res.val) != 0) {
				return failf("proof/bulk", "VerifyProof(%x, key %x) = (%d bytes, %v, panic %q), model present=%v", ver.root, k, len(res.val), res.err, res.panicked, present)
			}
			r.Add("bulk_proofs", 1)
		}
	}
	return nil
}

func head(b []byte) []byte {
	if len(b) > 4 {
		return b[:4]
	}
	return b
}

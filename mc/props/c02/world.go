package main

// The two block trees the chain states are cut from, the chain states, and the valid candidate
// blocks. Everything is built once per worker by the block factory (a node that holds every key and
// runs the real BlockAssembler without turn / replay checks).
//
// Tree A (ordinary heights):      g - f(d0) - a1(d1) - a2(d2)
//                                        \- b1(d2)
// Tree B (a term change, params.TermDuration=5, InterimDuration=2; snapshot height 5, the new
// term signs from height 8):
//   g - s1(d0: funding) - s2(d1: c0..c3 register, 50000 votes each) - s3(d2: v0 votes d1)
//     - s4(d0: v1 votes d2; v3 votes cs2; u0 pays u1) - s5(d1: SNAPSHOT) - s6(d2)
//     - s7(d1, skipping d0's slot) - s8(d1 = rank 0 of the new term: first block of the new term) ...
// "cs0".."cs3" are c0..c3 in ADDRESS order (the tie-break order). Registered candidates by votes
//   at s3 (the GRANDparent of the snapshot block): d1 ~150000 | cs0 cs1 cs2 cs3 50000 each | d0 d2 0
//   at s4 (the parent of the snapshot block):      d1 ~150000, cs2 ~60000, cs0 50000 | cs1 50000, cs3 50000, d2 ~10000, d0 0
// so the elected list is [d1, cs2, cs0]: it differs from the list one block earlier ([d1, cs0, cs1]),
// the last seat is decided by a three-way tie on the address, and two old deputies fall out.

import (
	"bytes"
	"fmt"
	"sort"
	"strings"

	"verifmc/core"
	"verifmc/node"
	"verifmc/vclock"

	"github.com/LemoFoundationLtd/lemochain-core/chain/params"
	"github.com/LemoFoundationLtd/lemochain-core/chain/types"
	"github.com/LemoFoundationLtd/lemochain-core/common"
)

const (
	nDep    = 3
	termDur = 5 // params.TermDuration for the whole process
	interim = 2 // params.InterimDuration
	slotSec = uint32(node.MineTimeout / 1000)
)

var t0 = node.GenesisTime + 100000

// lateClock is the node's clock while chain states are built: later than every block of both trees.
var lateClock = int64(t0) + 100000

// ---------------------------------------------------------------------------------------------
// keys

// cs returns the i-th of the four new candidates c0..c3 in ADDRESS order (the tie-break order).
func cs(i int) *node.Key {
	l := []*node.Key{node.K("c0"), node.K("c1"), node.K("c2"), node.K("c3")}
	sort.Slice(l, func(a, b int) bool { return bytes.Compare(l[a].Addr[:], l[b].Addr[:]) < 0 })
	return l[i]
}

// key resolves the names used in candidate / operator tables.
func key(name string) *node.Key {
	if strings.HasPrefix(name, "cs") {
		return cs(int(name[2] - '0'))
	}
	return node.K(name)
}

// universe: every account that is ever registered as a candidate in either tree (the reference
// ranking reads these accounts from the state; it does not use the store's candidate index).
func universe() []*node.Key {
	return []*node.Key{node.Deputy(0), node.Deputy(1), node.Deputy(2), cs(0), cs(1), cs(2), cs(3), node.K("outsider")}
}

// ---------------------------------------------------------------------------------------------
// trees

type tree struct {
	f      *node.Factory
	blocks map[string]*types.Block
	byHash map[common.Hash]*types.Block
	name   map[common.Hash]string
	txT    *types.Transaction // in a1
	txNew  *types.Transaction // fresh valid tx for candidate blocks
	txNew2 *types.Transaction // another fresh valid tx (by user 2)
	txVote *types.Transaction // v2 votes for cs0 (rank 2 of the coming term): changes a list member's votes
	bases  map[string]*types.Block
}

var tr *tree

func (t *tree) add(name string, b *types.Block) {
	t.blocks[name] = b
	t.byHash[b.Hash()] = b
	t.name[b.Hash()] = name
}

func (t *tree) parentOf(b *types.Block) *types.Block { return t.byHash[b.ParentHash()] }

func buildTree() *tree {
	f := node.NewFactory(core.ScratchDir("c02f"), nDep)
	t := &tree{f: f, blocks: map[string]*types.Block{}, byHash: map[common.Hash]*types.Block{}, name: map[common.Hash]string{}, bases: map[string]*types.Block{}}
	tr = t // the reference (ref.go) reads the factory's database through the global
	t.add("g", f.BC.Genesis())
	exp := uint64(t0 + 1500)
	pay := func(k *node.Key, lemo int64, i int) *types.Transaction {
		return node.Transfer(node.Founder(), k.Addr, node.Lemo(lemo), exp+uint64(i))
	}
	var fund types.Transactions
	for i := 0; i < 3; i++ {
		fund = append(fund, pay(node.User(i), 1000, i))
	}
	t.txT = node.Transfer(node.User(0), node.User(1).Addr, node.Lemo(1), exp)
	t.txNew = node.Transfer(node.User(1), node.User(2).Addr, node.Lemo(2), exp)
	t.txNew2 = node.Transfer(node.User(2), node.User(1).Addr, node.Lemo(3), exp)
	mk := func(name, parent, miner string, txs types.Transactions) {
		p := t.blocks[parent]
		tm, ok := refSlotOf(t, p, key(miner), p.Time())
		if !ok {
			panic("harness: " + name + ": " + miner + " is never in turn on " + parent)
		}
		if tm < t0 {
			tm += (t0 - tm + nDep*slotSec - 1) / (nDep * slotSec) * (nDep * slotSec)
		}
		b, inv, err := f.Make(node.BlockSpec{Parent: p, Miner: key(miner), Time: tm, Txs: txs, Extra: name})
		if err != nil || len(inv) > 0 {
			panic(fmt.Sprintf("harness: %s: %v, %d transactions not packaged", name, err, len(inv)))
		}
		t.add(name, b)
	}
	// tree A
	mk("f", "g", "d0", fund)
	mk("a1", "f", "d1", types.Transactions{t.txT})
	mk("a2", "a1", "d2", nil)
	mk("b1", "f", "d2", nil)
	// tree B
	fundB := append(types.Transactions{}, fund...)
	for i := 0; i < 4; i++ {
		fundB = append(fundB, pay(node.K(fmt.Sprintf("c%d", i)), 6000000, 10+i))
	}
	fundB = append(fundB, pay(node.K("v0"), 30000000, 20), pay(node.K("v1"), 2000000, 21), pay(node.K("v2"), 10000000, 22), pay(node.K("v3"), 2000000, 23))
	mk("s1", "g", "d0", fundB)
	var regs types.Transactions
	for i := 0; i < 4; i++ {
		k := node.K(fmt.Sprintf("c%d", i))
		regs = append(regs, node.Register(k, params.MinCandidateDeposit, node.CandidateProfile(k, fmt.Sprintf("%d", 7100+i)), exp))
	}
	mk("s2", "s1", "d1", regs)
	mk("s3", "s2", "d2", types.Transactions{node.Vote(node.K("v0"), node.Deputy(1).Addr, exp)})
	mk("s4", "s3", "d0", types.Transactions{node.Vote(node.K("v1"), node.Deputy(2).Addr, exp), node.Vote(node.K("v3"), cs(2).Addr, exp), node.Transfer(node.User(0), node.User(1).Addr, node.Lemo(1), exp+1)})
	t.txVote = node.Vote(node.K("v2"), cs(0).Addr, exp) // cs0 is ranked 2 at s4: 50000 -> ~100000 > cs2's ~60000
	mk("s5", "s4", "d1", nil)
	// the tables are written for the elected list [d1, cs2, cs0] — by the REFERENCE. What the factory
	// (the engine's ranking) wrote into s5 is judged by the oracle like every other block, not here.
	if l := refTop(t.blocks["s4"].Hash()); len(l) != nDep || l[0].Addr != node.Deputy(1).Addr || l[1].Addr != cs(2).Addr || l[2].Addr != cs(0).Addr {
		panic(fmt.Sprintf("harness: the reference does not elect [d1, cs2, cs0] at s4: %v", l))
	}
	if len(t.blocks["s5"].DeputyNodes) == 0 {
		panic("harness: s5 carries no deputy list")
	}
	// the factory's own deputy manager learns the new term the way a node does when s5 gets stable
	f.DM.SaveSnapshot(termDur, t.blocks["s5"].DeputyNodes)
	mk("s6", "s5", "d2", nil)
	mk("s7", "s6", "d1", nil) // d0's slot passes unused: the old rotation would now continue with d2
	mk("s8", "s7", "d1", nil) // first block of the new term: rank 0 of the NEW list (d1 again)
	return t
}

// ---------------------------------------------------------------------------------------------
// chain states

type state struct {
	name   string
	blocks []string // delivery order; "cf:<block>:<deputy>" delivers a confirm
}

var states = []state{
	{"fresh", []string{"f"}},
	{"chain3", []string{"f", "a1", "a2"}},
	{"forks", []string{"f", "a1", "a2", "b1"}},
	{"after-stable", []string{"f", "a1", "cf:a1:2", "a2"}},
	// a stable advance on a1 pruned its sibling b1
	{"pruned-fork", []string{"f", "a1", "b1", "cf:a1:2"}},
	// term change
	{"pre-snapshot", []string{"s1", "s2", "s3", "s4"}},
	{"post-snapshot", []string{"s1", "s2", "s3", "s4", "s5"}},
	{"interim-end(snapshot stable)", []string{"s1", "s2", "s3", "s4", "s5", "cf:s5:2", "s6", "s7"}},
	{"interim-end(snapshot not stable)", []string{"s1", "s2", "s3", "s4", "s5", "s6", "s7"}},
	{"new-term", []string{"s1", "s2", "s3", "s4", "s5", "cf:s5:2", "s6", "s7", "s8"}},
}

// stInfo is what the REFERENCE says a node in this state knows (not what the node says).
type stInfo struct {
	delivered map[common.Hash]bool
	known     map[common.Hash]bool // delivered, and not pruned by a stable advance
	stable    *types.Block
	head      string // name of the longest delivered chain's tip (only used by the "known block" operators)
}

var stInfos = map[string]*stInfo{}

func infoOf(st state) *stInfo {
	if si, ok := stInfos[st.name]; ok {
		return si
	}
	si := &stInfo{delivered: map[common.Hash]bool{}, known: map[common.Hash]bool{}, stable: tr.blocks["g"]}
	signers := map[string]map[int]bool{}
	var order []string
	for _, e := range st.blocks {
		if strings.HasPrefix(e, "cf:") {
			p := strings.Split(e, ":")
			var d int
			fmt.Sscanf(p[2], "%d", &d)
			if signers[p[1]] == nil {
				signers[p[1]] = map[int]bool{}
			}
			signers[p[1]][d] = true
			b := tr.blocks[p[1]]
			// reference rule: a block is stable once 2/3 of the 3 deputies (2) have signed it: its miner and one more
			n := 1
			for dd := range signers[p[1]] {
				if node.Deputy(dd).Addr != b.MinerAddress() {
					n++
				}
			}
			if n >= 2 && b.Height() > si.stable.Height() {
				si.stable = b
			}
			continue
		}
		si.delivered[tr.blocks[e].Hash()] = true
		order = append(order, e)
	}
	isAnc := func(a, b *types.Block) bool { // a is an ancestor of b (or b itself)
		for x := b; x != nil; x = tr.parentOf(x) {
			if x.Hash() == a.Hash() {
				return true
			}
		}
		return false
	}
	si.known[tr.blocks["g"].Hash()] = true
	best := "g"
	for _, e := range order {
		b := tr.blocks[e]
		if isAnc(b, si.stable) || isAnc(si.stable, b) {
			si.known[b.Hash()] = true
			if b.Height() > tr.blocks[best].Height() {
				best = e
			}
		}
	}
	si.head = best
	stInfos[st.name] = si
	return si
}

// ---------------------------------------------------------------------------------------------
// valid candidate blocks

type candidate struct {
	name   string
	parent string // block name
	miner  string // key name
	txs    func(t *tree) types.Transactions
	// real: the candidate is mined by a real node (the full engine with the transactions in its pool
	// and its clock at the slot), not by the block factory. Used where the factory's stand-in for a part
	// of the engine (node.canLoader mirrors DPoVP.LoadTopCandidates) would decide what "honest" means.
	real bool
}

func oneTx(t *tree) types.Transactions  { return types.Transactions{t.txNew} }
func voteTx(t *tree) types.Transactions { return types.Transactions{t.txVote} }

var candidates = map[string][]candidate{
	"fresh":  {{"empty-on-head", "f", "d1", nil, false}, {"tx-on-head", "f", "d1", oneTx, false}},
	"chain3": {{"tx-on-head", "a2", "d0", oneTx, false}, {"empty-on-mid", "a1", "d0", nil, false}},
	"forks":  {{"tx-on-short-fork", "b1", "d0", oneTx, false}, {"empty-on-head", "a2", "d0", nil, false}},
	// (b1's twin: a valid child of f at the height of the stable block a1 — finality makes the node ignore it)
	"after-stable": {{"tx-on-head", "a2", "d0", oneTx, false}, {"sibling-of-stable-block", "f", "d2", nil, false}},
	"pruned-fork":  {{"tx-on-pruned-fork", "b1", "d0", oneTx, false}, {"tx-on-stable-head", "a1", "d2", oneTx, false}},
	"pre-snapshot": {{"snapshot-empty", "s4", "d1", nil, false}, {"snapshot-tx", "s4", "d1", oneTx, true},
		{"snapshot-with-vote-for-rank2", "s4", "d1", voteTx, true}},
	"post-snapshot":                    {{"after-snapshot-tx", "s5", "d2", oneTx, false}},
	"interim-end(snapshot stable)":     {{"first-of-new-term", "s7", "d1", oneTx, false}},
	"interim-end(snapshot not stable)": {{"first-of-new-term(term not loaded)", "s7", "d1", oneTx, false}},
	"new-term":                         {{"second-of-new-term", "s8", "cs2", oneTx, false}},
}

func isSnapshotHeight(h uint32) bool { return h%termDur == 0 }

// baseBlock builds (once per worker) the valid candidate block.
func baseBlock(st state, ci int) *types.Block {
	k := fmt.Sprintf("%s/%d", st.name, ci)
	if b, ok := tr.bases[k]; ok {
		return b
	}
	cand := candidates[st.name][ci]
	parent := tr.blocks[cand.parent]
	var txs types.Transactions
	if cand.txs != nil {
		txs = cand.txs(tr)
	}
	tm, ok := refSlotOf(tr, parent, key(cand.miner), parent.Time())
	if !ok {
		panic("harness: candidate miner is never in turn: " + cand.name)
	}
	if tm < t0 {
		tm += (t0 - tm + nDep*slotSec - 1) / (nDep * slotSec) * (nDep * slotSec)
	}
	if cand.real {
		tr.bases[k] = mineReal(cand, parent, tm, txs)
		return tr.bases[k]
	}
	base, inv, err := tr.f.Make(node.BlockSpec{Parent: parent, Miner: key(cand.miner), Time: tm, Txs: txs, Extra: "cand", NoSave: true})
	if err != nil || len(inv) > 0 {
		panic(fmt.Sprintf("harness: candidate %s: %v, %d transactions not packaged", cand.name, err, len(inv)))
	}
	tr.bases[k] = base
	return base
}

// mineReal lets a real node whose key is the miner's mine the candidate: it receives the ancestors,
// gets the transactions into its pool, its clock is set to the slot, and its engine mines.
func mineReal(cand candidate, parent *types.Block, tm uint32, txs types.Transactions) *types.Block {
	var path []*types.Block
	for x := parent; x != nil && x.Height() > 0; x = tr.parentOf(x) {
		path = append([]*types.Block{x}, path...)
	}
	vclock.SetUnix(lateClock)
	m := node.NewNode(core.ScratchDir("c02m"), nDep, key(cand.miner))
	node.Drain(m)
	for _, b := range path {
		m.Use()
		if err := m.BC.InsertBlock(node.Wire(b)); err != nil {
			panic("harness: mining node refused " + tr.name[b.Hash()] + ": " + err.Error())
		}
		node.Drain(m)
	}
	for _, tx := range txs {
		if err := m.Pool.AddTx(tx.Clone()); err != nil {
			panic("harness: mining node's pool refused a transaction: " + err.Error())
		}
	}
	vclock.SetUnix(int64(tm))
	m.Use()
	m.BC.MineBlock(node.HugeTimeout)
	node.Drain(m)
	vclock.SetUnix(lateClock)
	b := m.BC.CurrentBlock()
	if b.ParentHash() != parent.Hash() || len(b.Txs) != len(txs) || b.Time() != tm {
		panic(fmt.Sprintf("harness: the mining node did not mine candidate %s (head %d, %d txs)", cand.name, b.Height(), len(b.Txs)))
	}
	out := node.Wire(b)
	out.Confirms = nil
	m.Destroy()
	return out
}

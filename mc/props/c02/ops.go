package main

// The mutation operator table and the signing modes.

import (
	"bytes"
	"fmt"
	"math/big"
	"strings"

	"verifmc/node"

	"github.com/LemoFoundationLtd/lemochain-core/chain/params"
	"github.com/LemoFoundationLtd/lemochain-core/chain/types"
	"github.com/LemoFoundationLtd/lemochain-core/common"
)

type op struct {
	group, name string
	apply       func(b *types.Block, c *ctx)
}

type ctx struct {
	t      *tree
	parent *types.Block
	base   *types.Block // the unmutated valid candidate
	cand   candidate
	si     *stInfo
	now    uint32 // the node's (virtual) clock, whole seconds
	skip   bool   // set by an operator that has nothing to do on this candidate
	// refused: the real assembler does not package the transaction list the operator asked for (there
	// is then no consistent block to offer; counted, the operator counts as reached)
	refused bool
}

func flip(h common.Hash) common.Hash { h[7] ^= 0x40; return h }

func copyNodes(l types.DeputyNodes) types.DeputyNodes {
	out := make(types.DeputyNodes, len(l))
	for i, n := range l {
		out[i] = n.Copy()
		out[i].NodeID = append([]byte{}, n.NodeID...)
	}
	return out
}

func depNode(d dep, rank uint32) *types.DeputyNode {
	return &types.DeputyNode{MinerAddress: d.Addr, NodeID: append([]byte{}, d.NodeID...), Rank: rank, Votes: new(big.Int).Set(d.Votes)}
}

// ancestorTx: a transaction that is on the ancestor path of a block on parent (nearest first).
func ancestorTx(t *tree, parent *types.Block) *types.Transaction {
	for p := parent; p != nil && p.Height() > 0; p = t.parentOf(p) {
		if len(p.Txs) > 0 {
			return p.Txs[len(p.Txs)-1]
		}
	}
	return t.txT
}

func keyByAddr(a common.Address) *node.Key {
	for _, k := range universe() {
		if k.Addr == a {
			return k
		}
	}
	return nil
}

// signerKeys: the keys the "mined-by" operators and the signing modes draw from.
var signerKeys = []string{"d0", "d1", "d2", "cs0", "cs1", "cs2", "outsider"}

func ops() []op {
	var l []op
	add := func(g, n string, f func(b *types.Block, c *ctx)) { l = append(l, op{g, n, f}) }
	add("none", "identity", func(b *types.Block, c *ctx) {})
	// header
	add("parent", "parent=grandparent", func(b *types.Block, c *ctx) { b.Header.ParentHash = c.parent.ParentHash() })
	add("parent", "parent=unknown", func(b *types.Block, c *ctx) { b.Header.ParentHash = flip(b.Header.ParentHash) })
	add("parent", "parent=sibling-fork", func(b *types.Block, c *ctx) { b.Header.ParentHash = c.t.blocks["b1"].Hash() })
	add("miner", "miner=other-deputy", func(b *types.Block, c *ctx) {
		for _, d := range refDeputies(c.t, b.Height(), c.parent) {
			if d.Addr != b.Header.MinerAddress {
				b.Header.MinerAddress = d.Addr
				return
			}
		}
	})
	add("miner", "miner=outsider", func(b *types.Block, c *ctx) { b.Header.MinerAddress = node.K("outsider").Addr })
	add("roots", "versionRoot-flipped", func(b *types.Block, c *ctx) { b.Header.VersionRoot = flip(b.Header.VersionRoot) })
	add("roots", "versionRoot-zero", func(b *types.Block, c *ctx) { b.Header.VersionRoot = common.Hash{} })
	add("roots", "logRoot-flipped", func(b *types.Block, c *ctx) { b.Header.LogRoot = flip(b.Header.LogRoot) })
	add("roots", "txRoot-flipped", func(b *types.Block, c *ctx) { b.Header.TxRoot = flip(b.Header.TxRoot) })
	add("roots", "deputyRoot-junk", func(b *types.Block, c *ctx) { b.Header.DeputyRoot = []byte{1, 2, 3} })
	add("height", "height+1", func(b *types.Block, c *ctx) { b.Header.Height++ })
	add("height", "height-1", func(b *types.Block, c *ctx) { b.Header.Height-- })
	add("height", "height=0", func(b *types.Block, c *ctx) { b.Header.Height = 0 })
	add("height", "height=max", func(b *types.Block, c *ctx) { b.Header.Height = 0xffffffff })
	add("gas", "gasLimit+1", func(b *types.Block, c *ctx) { b.Header.GasLimit++ })
	add("gas", "gasLimit=0", func(b *types.Block, c *ctx) { b.Header.GasLimit = 0 })
	add("gas", "gasUsed+1", func(b *types.Block, c *ctx) { b.Header.GasUsed++ })
	add("gas", "gasUsed=0", func(b *types.Block, c *ctx) { b.Header.GasUsed = 0 })
	add("time", "time=parent-1", func(b *types.Block, c *ctx) { b.Header.Time = c.parent.Time() - 1 })
	add("time", "time=parent", func(b *types.Block, c *ctx) { b.Header.Time = c.parent.Time() })
	add("time", "time-1(previous slot)", func(b *types.Block, c *ctx) { b.Header.Time-- })
	add("time", "time+9(last second of slot)", func(b *types.Block, c *ctx) { b.Header.Time += 9 })
	add("time", "time+10(next slot)", func(b *types.Block, c *ctx) { b.Header.Time += 10 })
	add("time", "time+30(same deputy next round)", func(b *types.Block, c *ctx) { b.Header.Time += nDep * 10 })
	add("time", "time=now+100", func(b *types.Block, c *ctx) { b.Header.Time = c.now + 100 })
	add("time", "time=now+1000000", func(b *types.Block, c *ctx) { b.Header.Time = c.now + 1000000 })
	add("time", "time=0", func(b *types.Block, c *ctx) { b.Header.Time = 0 })
	add("time", "time=1", func(b *types.Block, c *ctx) { b.Header.Time = 1 })
	add("time", "time=max", func(b *types.Block, c *ctx) { b.Header.Time = 0xffffffff })
	add("extra", "extra=256", func(b *types.Block, c *ctx) { b.Header.Extra = strings.Repeat("x", 256) })
	add("extra", "extra=257", func(b *types.Block, c *ctx) { b.Header.Extra = strings.Repeat("x", 257) })
	add("extra", "extra=100000", func(b *types.Block, c *ctx) { b.Header.Extra = strings.Repeat("x", 100000) })
	// body: transactions
	add("txs", "txs-dropped", func(b *types.Block, c *ctx) { b.Txs = nil })
	add("txs", "tx-duplicated", func(b *types.Block, c *ctx) {
		if len(b.Txs) > 0 {
			b.Txs = append(b.Txs, b.Txs[0])
		} else {
			b.Txs = types.Transactions{c.t.txNew, c.t.txNew}
		}
	})
	add("txs", "tx-added(valid)", func(b *types.Block, c *ctx) {
		b.Txs = append(b.Txs, node.Transfer(node.User(2), node.User(0).Addr, node.Lemo(1), uint64(t0+1500)))
	})
	add("txs", "tx-replayed-from-ancestor", func(b *types.Block, c *ctx) { b.Txs = append(b.Txs, ancestorTx(c.t, c.parent)) })
	add("txs", "tx-expired", func(b *types.Block, c *ctx) {
		b.Txs = append(b.Txs, node.Transfer(node.User(2), node.User(0).Addr, node.Lemo(1), uint64(b.Header.Time-1)))
	})
	add("txs", "tx-not-yet-valid", func(b *types.Block, c *ctx) {
		b.Txs = append(b.Txs, node.Transfer(node.User(2), node.User(0).Addr, node.Lemo(1), uint64(b.Header.Time+1801)))
	})
	add("txs", "tx-wrong-chain", func(b *types.Block, c *ctx) {
		to := node.User(0).Addr
		b.Txs = append(b.Txs, node.Tx(node.TxSpec{Type: params.OrdinaryTx, From: node.User(2), To: &to, Amount: node.Lemo(1), Exp: uint64(t0 + 1500), ChainID: 201}))
	})
	add("txs", "tx-signed-by-outsider", func(b *types.Block, c *ctx) {
		to := node.User(0).Addr
		un := node.Unsigned(node.TxSpec{Type: params.OrdinaryTx, From: node.User(2), To: &to, Amount: node.Lemo(1), Exp: uint64(t0 + 1500)})
		b.Txs = append(b.Txs, node.SignWith(un, node.K("outsider").Priv))
	})
	add("txs", "tx-unaffordable", func(b *types.Block, c *ctx) {
		b.Txs = append(b.Txs, node.Transfer(node.K("pauper"), node.User(0).Addr, node.Lemo(1), uint64(t0+1500)))
	})
	add("txs", "tx-gasUsed-tampered", func(b *types.Block, c *ctx) {
		if len(b.Txs) > 0 {
			cp := b.Txs[0].Clone()
			cp.SetGasUsed(cp.GasUsed() + 1)
			b.Txs = append(types.Transactions{cp}, b.Txs[1:]...)
		}
	})
	// body: transactions, EXECUTED. The operators above change the list without re-executing, so the
	// block is also inconsistent with its roots and a node may refuse it for that reason alone. A
	// cheating deputy would execute what it packages: these operators let the block factory (the
	// real assembler, which performs no window / replay checks) execute the changed list, so the
	// block is consistent in every root and gas figure and wrong ONLY in the transaction it carries.
	remake := func(b *types.Block, c *ctx, miner *node.Key, tm uint32, txs types.Transactions) {
		cl := make(types.Transactions, len(txs))
		for i, tx := range txs {
			cl[i] = tx.Clone()
			cl[i].SetGasUsed(0)
		}
		nb, inv, err := c.t.f.Make(node.BlockSpec{Parent: c.parent, Miner: miner, Time: tm, Txs: cl, Extra: b.Header.Extra, NoSave: true})
		if err != nil || len(inv) > 0 || len(nb.Txs) != len(txs) {
			c.skip, c.refused = true, true // the assembler itself does not package it: nothing to offer
			return
		}
		*b = *node.Wire(nb)
	}
	executed := func(name string, mk func(b *types.Block, c *ctx) types.Transactions) {
		add("txs-executed", name, func(b *types.Block, c *ctx) {
			k := keyByAddr(b.Header.MinerAddress)
			if k == nil {
				c.skip = true
				return
			}
			remake(b, c, k, b.Header.Time, mk(b, c))
		})
	}
	plus := func(b *types.Block, tx *types.Transaction) types.Transactions {
		return append(append(types.Transactions{}, b.Txs...), tx)
	}
	executed("tx-expired(executed)", func(b *types.Block, c *ctx) types.Transactions {
		return plus(b, node.Transfer(node.User(2), node.User(0).Addr, node.Lemo(1), uint64(b.Header.Time-1)))
	})
	executed("tx-expires-now(executed,valid)", func(b *types.Block, c *ctx) types.Transactions {
		return plus(b, node.Transfer(node.User(2), node.User(0).Addr, node.Lemo(1), uint64(b.Header.Time)))
	})
	executed("tx-lifetime-1800(executed,valid)", func(b *types.Block, c *ctx) types.Transactions {
		return plus(b, node.Transfer(node.User(2), node.User(0).Addr, node.Lemo(1), uint64(b.Header.Time+1800)))
	})
	executed("tx-lifetime-1801(executed)", func(b *types.Block, c *ctx) types.Transactions {
		return plus(b, node.Transfer(node.User(2), node.User(0).Addr, node.Lemo(1), uint64(b.Header.Time+1801)))
	})
	executed("tx-replayed-from-ancestor(executed)", func(b *types.Block, c *ctx) types.Transactions {
		return plus(b, ancestorTx(c.t, c.parent))
	})
	executed("tx-duplicated(executed)", func(b *types.Block, c *ctx) types.Transactions {
		return append(plus(b, c.t.txNew2), c.t.txNew2)
	})
	executed("tx-wrong-chain(executed)", func(b *types.Block, c *ctx) types.Transactions {
		to := node.User(0).Addr
		return plus(b, node.Tx(node.TxSpec{Type: params.OrdinaryTx, From: node.User(2), To: &to, Amount: node.Lemo(1), Exp: uint64(t0 + 1500), ChainID: 201}))
	})
	executed("box-sub-tx-lifetime-1801(executed)", func(b *types.Block, c *ctx) types.Transactions {
		sub := node.Transfer(node.User(2), node.User(0).Addr, node.Lemo(1), uint64(b.Header.Time+1801))
		return plus(b, node.Box(node.User(0), uint64(b.Header.Time+100), sub))
	})
	executed("box-sub-tx-expired(executed)", func(b *types.Block, c *ctx) types.Transactions {
		sub := node.Transfer(node.User(2), node.User(0).Addr, node.Lemo(1), uint64(b.Header.Time-1))
		return plus(b, node.Box(node.User(0), uint64(b.Header.Time+100), sub))
	})
	// well-formedness of a packaged transaction (field limits of the protocol): message <= 1024 bytes of
	// valid UTF-8, recipient name <= 100 characters of [A-Za-z0-9_.-], a transfer has a recipient, a box
	// holds no box and no transaction that expires before the box does
	wf := func(toName, msg string, b *types.Block) *types.Transaction {
		tx := types.NewTransaction(node.User(2).Addr, node.User(0).Addr, node.Lemo(1), 2000000, node.GasPrice, nil, params.OrdinaryTx, node.ChainID, uint64(b.Header.Time+100), toName, msg)
		return node.SignWith(tx, node.User(2).Priv)
	}
	executed("tx-message-1024-bytes(executed,valid)", func(b *types.Block, c *ctx) types.Transactions {
		return plus(b, wf("", strings.Repeat("m", 1024), b))
	})
	executed("tx-message-1025-bytes(executed)", func(b *types.Block, c *ctx) types.Transactions {
		return plus(b, wf("", strings.Repeat("m", 1025), b))
	})
	executed("tx-message-invalid-utf8(executed)", func(b *types.Block, c *ctx) types.Transactions {
		return plus(b, wf("", "a\xffb", b))
	})
	executed("tx-toName-100-chars(executed,valid)", func(b *types.Block, c *ctx) types.Transactions {
		return plus(b, wf(strings.Repeat("n", 100), "", b))
	})
	executed("tx-toName-101-chars(executed)", func(b *types.Block, c *ctx) types.Transactions {
		return plus(b, wf(strings.Repeat("n", 101), "", b))
	})
	executed("tx-toName-illegal-character(executed)", func(b *types.Block, c *ctx) types.Transactions {
		return plus(b, wf("bob smith", "", b))
	})
	executed("transfer-without-recipient(executed)", func(b *types.Block, c *ctx) types.Transactions {
		tx := types.NoReceiverTransaction(node.User(2).Addr, node.Lemo(1), 2000000, node.GasPrice, nil, params.OrdinaryTx, node.ChainID, uint64(b.Header.Time+100), "", "")
		return plus(b, node.SignWith(tx, node.User(2).Priv))
	})
	executed("box-sub-tx-expires-before-the-box(executed)", func(b *types.Block, c *ctx) types.Transactions {
		sub := node.Transfer(node.User(2), node.User(0).Addr, node.Lemo(1), uint64(b.Header.Time+50))
		return plus(b, node.Box(node.User(0), uint64(b.Header.Time+100), sub))
	})
	executed("box-inside-a-box(executed)", func(b *types.Block, c *ctx) types.Transactions {
		sub := node.Transfer(node.User(2), node.User(0).Addr, node.Lemo(1), uint64(b.Header.Time+200))
		inner := node.Box(node.User(1), uint64(b.Header.Time+200), sub)
		return plus(b, node.Box(node.User(0), uint64(b.Header.Time+100), inner))
	})
	// body: change logs
	add("logs", "logs-dropped", func(b *types.Block, c *ctx) { b.ChangeLogs = nil })
	add("logs", "log-first-dropped", func(b *types.Block, c *ctx) {
		if len(b.ChangeLogs) > 0 {
			b.ChangeLogs = b.ChangeLogs[1:]
		}
	})
	add("logs", "log-value-altered", func(b *types.Block, c *ctx) {
		for i, l := range b.ChangeLogs {
			if v, ok := l.NewVal.(big.Int); ok {
				cp := *l
				cp.NewVal = *new(big.Int).Add(&v, big.NewInt(1))
				nl := append(types.ChangeLogSlice{}, b.ChangeLogs...)
				nl[i] = &cp
				b.ChangeLogs = nl
				return
			}
		}
	})
	add("logs", "log-duplicated", func(b *types.Block, c *ctx) {
		if len(b.ChangeLogs) > 0 {
			b.ChangeLogs = append(b.ChangeLogs, b.ChangeLogs[0])
		}
	})
	// body: deputy nodes that do not belong there (previous term's list; the elected list of tree B)
	add("deputies", "deputyNodes-present", func(b *types.Block, c *ctx) { b.DeputyNodes = copyNodes(c.t.blocks["g"].DeputyNodes) })

	// ---- added with the clock under harness control: block times around the node's clock ----
	for _, d := range []int{-1, 0, 1, 2, 3} {
		d := d
		n := "time=now"
		if d != 0 {
			n = fmt.Sprintf("time=now%+d", d)
		}
		add("time", n, func(b *types.Block, c *ctx) { b.Header.Time = uint32(int64(c.now) + int64(d)) })
	}
	// ---- whole blocks mined (executed, sealed, signed) by another key ----
	for _, kn := range signerKeys {
		kn := kn
		add("signer", "mined-by:"+kn+"@same-time", func(b *types.Block, c *ctx) {
			if key(kn).Addr == b.Header.MinerAddress {
				c.skip = true
				return
			}
			remake(b, c, key(kn), b.Header.Time, b.Txs)
		})
		if kn == "cs1" || kn == "outsider" {
			continue // never a deputy in either tree: no slot of its own
		}
		add("signer", "mined-by:"+kn+"@its-own-slot", func(b *types.Block, c *ctx) {
			if key(kn).Addr == b.Header.MinerAddress {
				c.skip = true
				return
			}
			tm, ok := refSlotOf(c.t, c.parent, key(kn), c.parent.Time()) // its first own slot after the parent
			if !ok {
				c.skip = true
				return
			}
			remake(b, c, key(kn), tm, b.Txs)
		})
	}
	// ---- the miner's signature in its other encoding (r, n-s, v^1): same signer ----
	add("sig", "signature-reencoded(high-s)", func(b *types.Block, c *ctx) {
		if len(b.Header.SignData) == 65 {
			b.Header.SignData = node.ReencodeSig(b.Header.SignData)
		}
	})
	// ---- body: confirms (not hashed) ----
	other := func(b *types.Block, c *ctx) *node.Key {
		for _, d := range refDeputies(c.t, b.Height(), c.parent) {
			if d.Addr != b.Header.MinerAddress {
				return keyOfDep(d)
			}
		}
		return node.Deputy(0)
	}
	add("confirms", "confirm-by-other-deputy(valid)", func(b *types.Block, c *ctx) {
		b.Confirms = []types.SignData{node.SignConfirm(other(b, c), b.Header.Hash())}
	})
	add("confirms", "confirm-junk", func(b *types.Block, c *ctx) {
		var sd types.SignData
		copy(sd[:], bytes.Repeat([]byte{0x5a}, 65))
		b.Confirms = []types.SignData{sd}
	})
	add("confirms", "confirm-by-outsider", func(b *types.Block, c *ctx) {
		b.Confirms = []types.SignData{node.SignConfirm(node.K("outsider"), b.Header.Hash())}
	})
	add("confirms", "confirm-by-miner-itself", func(b *types.Block, c *ctx) {
		if k := keyByAddr(b.Header.MinerAddress); k != nil {
			b.Confirms = []types.SignData{node.SignConfirm(k, b.Header.Hash())}
		}
	})
	add("confirms", "confirm-twice(both encodings)", func(b *types.Block, c *ctx) {
		sd := node.SignConfirm(other(b, c), b.Header.Hash())
		var sd2 types.SignData
		copy(sd2[:], node.ReencodeSig(sd[:]))
		b.Confirms = []types.SignData{sd, sd2}
	})
	add("confirms", "confirm-of-another-block", func(b *types.Block, c *ctx) {
		b.Confirms = []types.SignData{node.SignConfirm(other(b, c), c.parent.Hash())}
	})
	// ---- a block the node already has ----
	add("known", "known=head-of-longest-chain", func(b *types.Block, c *ctx) { *b = *node.Wire(c.t.blocks[c.si.head]) })
	add("known", "known=parent", func(b *types.Block, c *ctx) { *b = *node.Wire(c.parent) })
	add("known", "known=stable-block", func(b *types.Block, c *ctx) { *b = *node.Wire(c.si.stable) })
	add("known", "known=head-with-body-dropped", func(b *types.Block, c *ctx) {
		*b = *node.Wire(c.t.blocks[c.si.head])
		b.Txs, b.ChangeLogs, b.DeputyNodes = nil, nil, nil
	})
	// ---- deputy list of tree B's snapshot block on a block that is not one ----
	add("deputies", "deputyNodes+root=elected-list", func(b *types.Block, c *ctx) {
		s5 := c.t.blocks["s5"]
		b.DeputyNodes = copyNodes(s5.DeputyNodes)
		b.Header.DeputyRoot = append([]byte{}, s5.Header.DeputyRoot...)
	})
	add("deputies", "deputyRoot=elected-root(no list)", func(b *types.Block, c *ctx) {
		b.Header.DeputyRoot = append([]byte{}, c.t.blocks["s5"].Header.DeputyRoot...)
	})

	// ---- snapshot blocks: the deputy list (group "snapshot": only enumerated on snapshot candidates,
	// each with the DeputyRoot kept AND recomputed for the altered list) ----
	snap := func(name string, f func(l types.DeputyNodes, c *ctx) types.DeputyNodes) {
		add("snapshot", name, func(b *types.Block, c *ctx) {
			if !isSnapshotHeight(c.base.Height()) || len(b.DeputyNodes) != nDep {
				c.skip = true // (an earlier operator of a pair may have replaced the block by one without a list)
				return
			}
			b.DeputyNodes = f(copyNodes(b.DeputyNodes), c)
		})
	}
	renumber := func(l types.DeputyNodes) types.DeputyNodes {
		for i := range l {
			l[i].Rank = uint32(i)
		}
		return l
	}
	snap("list-missing", func(l types.DeputyNodes, c *ctx) types.DeputyNodes { return nil })
	snap("list-empty", func(l types.DeputyNodes, c *ctx) types.DeputyNodes { return types.DeputyNodes{} })
	snap("drop-last", func(l types.DeputyNodes, c *ctx) types.DeputyNodes { return l[:len(l)-1] })
	snap("drop-first(ranks kept)", func(l types.DeputyNodes, c *ctx) types.DeputyNodes { return l[1:] })
	snap("drop-first(ranks renumbered)", func(l types.DeputyNodes, c *ctx) types.DeputyNodes { return renumber(l[1:]) })
	snap("add-registered-candidate-below-the-cut", func(l types.DeputyNodes, c *ctx) types.DeputyNodes {
		return append(l, depNode(refRest(c.parent.Hash())[0], uint32(len(l))))
	})
	snap("add-unregistered-outsider", func(l types.DeputyNodes, c *ctx) types.DeputyNodes {
		o := node.K("outsider")
		return append(l, &types.DeputyNode{MinerAddress: o.Addr, NodeID: o.NodeID, Rank: uint32(len(l)), Votes: new(big.Int)})
	})
	snap("replace-last-by-tied-loser", func(l types.DeputyNodes, c *ctx) types.DeputyNodes {
		l[len(l)-1] = depNode(refRest(c.parent.Hash())[0], uint32(len(l)-1))
		return l
	})
	snap("replace-last-by-unregistered-outsider", func(l types.DeputyNodes, c *ctx) types.DeputyNodes {
		o := node.K("outsider")
		l[len(l)-1] = &types.DeputyNode{MinerAddress: o.Addr, NodeID: o.NodeID, Rank: uint32(len(l) - 1), Votes: new(big.Int).Set(l[len(l)-1].Votes)}
		return l
	})
	snap("swap-1-2(ranks travel with the nodes)", func(l types.DeputyNodes, c *ctx) types.DeputyNodes {
		l[1], l[2] = l[2], l[1]
		return l
	})
	snap("swap-1-2(ranks renumbered)", func(l types.DeputyNodes, c *ctx) types.DeputyNodes {
		l[1], l[2] = l[2], l[1]
		return renumber(l)
	})
	snap("swap-0-1(ranks renumbered)", func(l types.DeputyNodes, c *ctx) types.DeputyNodes {
		l[0], l[1] = l[1], l[0]
		return renumber(l)
	})
	snap("ranks-from-1", func(l types.DeputyNodes, c *ctx) types.DeputyNodes {
		for i := range l {
			l[i].Rank = uint32(i + 1)
		}
		return l
	})
	snap("ranks-all-zero", func(l types.DeputyNodes, c *ctx) types.DeputyNodes {
		for i := range l {
			l[i].Rank = 0
		}
		return l
	})
	snap("votes+1(rank 0)", func(l types.DeputyNodes, c *ctx) types.DeputyNodes {
		l[0].Votes.Add(l[0].Votes, big.NewInt(1))
		return l
	})
	snap("votes-1(last rank)", func(l types.DeputyNodes, c *ctx) types.DeputyNodes {
		l[len(l)-1].Votes.Sub(l[len(l)-1].Votes, big.NewInt(1))
		return l
	})
	snap("votes(rank 2)>votes(rank 1)", func(l types.DeputyNodes, c *ctx) types.DeputyNodes {
		l[2].Votes.Add(l[1].Votes, big.NewInt(1))
		return l
	})
	snap("votes-all-zero", func(l types.DeputyNodes, c *ctx) types.DeputyNodes {
		for i := range l {
			l[i].Votes = new(big.Int)
		}
		return l
	})
	snap("nodeID(rank 1)=outsider's", func(l types.DeputyNodes, c *ctx) types.DeputyNodes {
		l[1].NodeID = append([]byte{}, node.K("outsider").NodeID...)
		return l
	})
	snap("nodeID(rank 0)-bit-flipped", func(l types.DeputyNodes, c *ctx) types.DeputyNodes {
		l[0].NodeID[5] ^= 1
		return l
	})
	snap("nodeID(rank 0)-truncated", func(l types.DeputyNodes, c *ctx) types.DeputyNodes {
		l[0].NodeID = l[0].NodeID[:63]
		return l
	})
	snap("minerAddress(rank 1)=outsider's", func(l types.DeputyNodes, c *ctx) types.DeputyNodes {
		l[1].MinerAddress = node.K("outsider").Addr
		return l
	})
	snap("minerAddress(rank 0)=its-income-address", func(l types.DeputyNodes, c *ctx) types.DeputyNodes {
		// a DeputyNode has no income address field: the nearest corruption is to write the income
		// address of the candidate's profile where its miner address belongs (rank 0 is d1)
		l[0].MinerAddress = node.K("income1").Addr
		return l
	})
	snap("duplicate-entry(rank 1 := rank 0)", func(l types.DeputyNodes, c *ctx) types.DeputyNodes {
		l[1] = l[0].Copy()
		l[1].Rank = 1
		return l
	})
	snap("list=previous-term-list", func(l types.DeputyNodes, c *ctx) types.DeputyNodes {
		return copyNodes(c.t.blocks["g"].DeputyNodes)
	})
	// the root alone (list untouched)
	add("snapshot", "deputyRoot-empty(list kept)", func(b *types.Block, c *ctx) {
		if !isSnapshotHeight(c.base.Height()) {
			c.skip = true
			return
		}
		b.Header.DeputyRoot = nil
	})
	add("snapshot", "deputyRoot=previous-term-root(list kept)", func(b *types.Block, c *ctx) {
		if !isSnapshotHeight(c.base.Height()) {
			c.skip = true
			return
		}
		b.Header.DeputyRoot = append([]byte{}, c.t.blocks["g"].Header.DeputyRoot...)
	})
	return l
}

// signing modes
var modes = []string{"keep-signature", "resign-miner", "resign-other-deputy", "resign-outsider", "signature-junk", "signature-empty", "resign-deputy-of-the-other-term"}

// resign replaces the header signature. "miner" is the key of the valid candidate's miner; "other
// deputy" the next deputy of the SAME term; "deputy of the other term" a key that is a deputy only in
// the term the block does not belong to (a newly elected one before the new term starts, a retired
// one after it started).
func resign(b *types.Block, mode string, c *ctx) {
	var k *node.Key
	deps := refDeputies(c.t, c.base.Height(), c.parent)
	switch mode {
	case "keep-signature":
		return
	case "resign-miner":
		k = key(c.cand.miner)
	case "resign-other-deputy":
		for i, d := range deps {
			if d.Addr == key(c.cand.miner).Addr {
				k = keyOfDep(deps[(i+1)%len(deps)])
			}
		}
	case "resign-outsider":
		k = node.K("outsider")
	case "signature-junk":
		b.Header.SignData = bytes.Repeat([]byte{0x5a}, 65)
		return
	case "signature-empty":
		b.Header.SignData = nil
		return
	case "resign-deputy-of-the-other-term":
		if c.base.Height() < termDur+interim+1 {
			k = cs(2) // elected at the snapshot of tree B, never a deputy of the genesis term
		} else {
			k = node.Deputy(2) // genesis deputy that was not re-elected
		}
	}
	sd := node.SignConfirm(k, b.Header.Hash())
	b.Header.SignData = sd[:]
}

// fixRoots recomputes TxRoot/LogRoot from the body (what a cheating miner would do before signing).
func fixRoots(b *types.Block) {
	b.Header.TxRoot = b.Txs.MerkleRootSha()
	b.Header.LogRoot = b.ChangeLogs.MerkleRootSha()
}

package main

// The reference: what the property statement (C02, with the rotation of C13 and the election rule
// of C10) says about a block, written independently of the validator.

import (
	"bytes"
	"fmt"
	"math/big"
	"sort"
	"unicode/utf8"

	"verifmc/node"

	"github.com/LemoFoundationLtd/lemochain-core/chain/params"
	"github.com/LemoFoundationLtd/lemochain-core/chain/types"
	"github.com/LemoFoundationLtd/lemochain-core/common"
)

// dep is one deputy of a term as the reference knows it.
type dep struct {
	Addr   common.Address
	NodeID []byte
	Votes  *big.Int
}

var refRankCache = map[common.Hash][]dep{}

// refRanking: all currently registered candidates in the account state of block `hash`, sorted by
// votes (descending, ties by address ascending) — C10's statement. It reads the accounts of a fixed
// universe of addresses through the state view of that block; it does not use the store's
// candidate index or its ranking.
func refRanking(hash common.Hash) []dep {
	if l, ok := refRankCache[hash]; ok {
		return l
	}
	view, err := tr.f.DB.GetActDatabase(hash)
	if err != nil {
		panic("harness: no state view for " + hash.Hex())
	}
	var l []dep
	for _, k := range universe() {
		d, err := view.Get(k.Addr)
		if err != nil || d == nil {
			continue
		}
		if d.Candidate.Profile[types.CandidateKeyIsCandidate] != types.IsCandidateNode {
			continue
		}
		v := new(big.Int)
		if d.Candidate.Votes != nil {
			v.Set(d.Candidate.Votes)
		}
		l = append(l, dep{Addr: k.Addr, NodeID: common.FromHex(d.Candidate.Profile[types.CandidateKeyNodeID]), Votes: v})
	}
	sort.SliceStable(l, func(a, b int) bool {
		if c := l[a].Votes.Cmp(l[b].Votes); c != 0 {
			return c > 0
		}
		return bytes.Compare(l[a].Addr[:], l[b].Addr[:]) < 0
	})
	refRankCache[hash] = l
	return l
}

// refTop: the ranking cut to the number of deputy seats.
func refTop(hash common.Hash) []dep {
	l := refRanking(hash)
	if len(l) > nDep {
		l = l[:nDep]
	}
	return l
}

// refRest: the registered candidates of that state that did NOT make the list (same order).
func refRest(hash common.Hash) []dep {
	l := refRanking(hash)
	if len(l) > nDep {
		return l[nDep:]
	}
	return nil
}

func genesisDeputies() []dep {
	var l []dep
	for i := 0; i < nDep; i++ {
		l = append(l, dep{Addr: node.Deputy(i).Addr, NodeID: node.Deputy(i).NodeID, Votes: new(big.Int)})
	}
	return l
}

func isTermStart(h uint32) bool { return h >= termDur+interim+1 && h%termDur == interim+1 }

// refDeputies: the deputies entitled to sign a block of the given height whose parent is `parent`:
// the genesis list until height TermDuration+InterimDuration, afterwards the list elected at the
// latest snapshot height that lies at least InterimDuration+1 below, on the block's own ancestor path.
func refDeputies(t *tree, height uint32, parent *types.Block) []dep {
	if height < termDur+interim+1 {
		return genesisDeputies()
	}
	snapH := (height - interim - 1) / termDur * termDur
	for x := parent; x != nil; x = t.parentOf(x) {
		if x.Height() == snapH {
			p := t.parentOf(x)
			if p == nil {
				return nil
			}
			return refTop(p.Hash())
		}
	}
	return nil
}

// refInTurn: the deputy whose slot the instant tm (seconds) is for a block on parent (C13's rotation:
// fixed 10 s slots rotating by rank, starting after the parent's miner; from rank 0 at height 1 and
// at the first block of a term).
func refInTurn(t *tree, parent *types.Block, tm uint32) (dep, bool) {
	if tm < parent.Time() {
		return dep{}, false
	}
	h := parent.Height() + 1
	deps := refDeputies(t, h, parent)
	n := len(deps)
	if n == 0 {
		return dep{}, false
	}
	d := int((tm-parent.Time())/slotSec)%n + 1
	if h == 1 || isTermStart(h) {
		return deps[(d-1)%n], true
	}
	for i := range deps {
		if deps[i].Addr == parent.MinerAddress() {
			return deps[(i+d)%n], true
		}
	}
	return dep{}, false
}

// refSlotOf: the first second >= notBefore (searching one full round) that belongs to k on parent.
func refSlotOf(t *tree, parent *types.Block, k *node.Key, notBefore uint32) (uint32, bool) {
	if notBefore < parent.Time() {
		notBefore = parent.Time()
	}
	// slot boundaries are parent.Time + i*slotSec
	first := parent.Time() + (notBefore-parent.Time()+slotSec-1)/slotSec*slotSec
	if d, ok := refInTurn(t, parent, notBefore); ok && d.Addr == k.Addr && bytes.Equal(d.NodeID, k.NodeID) {
		return notBefore, true
	}
	for i := uint32(0); i < nDep; i++ {
		tm := first + i*slotSec
		if d, ok := refInTurn(t, parent, tm); ok && d.Addr == k.Addr && bytes.Equal(d.NodeID, k.NodeID) {
			return tm, true
		}
	}
	return 0, false
}

func keyOfDep(d dep) *node.Key {
	for _, k := range universe() {
		if k.Addr == d.Addr {
			return k
		}
	}
	return nil
}

// validRef decides from the statement whether blk may be accepted by a node in state si whose clock
// shows nowMs (milliseconds).
func validRef(blk *types.Block, nowMs int64, si *stInfo) (bool, string) {
	ok, why, _ := validRefH(blk, nowMs, si)
	return ok, why
}

// validRefH also hands out the honest re-execution (nil when the verdict fell before it).
func validRefH(blk *types.Block, nowMs int64, si *stInfo) (bool, string, *types.Block) {
	parent := tr.byHash[blk.ParentHash()]
	if parent == nil || !si.delivered[parent.Hash()] && parent.Height() > 0 {
		return false, "parent unknown", nil
	}
	if !si.known[parent.Hash()] {
		return false, "parent pruned (not on the stable block's chain)", nil
	}
	if si.delivered[blk.Hash()] || blk.Hash() == tr.blocks["g"].Hash() {
		return false, "block already known", nil
	}
	if blk.Height() != parent.Height()+1 {
		return false, "height", nil
	}
	if blk.Time() < parent.Time() {
		return false, "time before parent", nil
	}
	if int64(blk.Time())*1000 > nowMs+1000 {
		return false, "time in the future", nil
	}
	if len(blk.Extra()) > 256 {
		return false, "extra too long", nil
	}
	turn, ok := refInTurn(tr, parent, blk.Time())
	if !ok {
		return false, "no deputy in turn", nil
	}
	id, err := blk.SignerNodeID()
	if err != nil || !bytes.Equal(id, turn.NodeID) {
		return false, "not signed by the deputy in turn", nil
	}
	if blk.MinerAddress() != turn.Addr {
		return false, "miner address is not the signer's", nil
	}
	miner := keyOfDep(turn)
	if miner == nil || !bytes.Equal(miner.NodeID, turn.NodeID) {
		return false, "deputy in turn has a node id nobody holds", nil
	}
	// transactions: window, replay (ancestor path and inside the block)
	seen := map[common.Hash]bool{}
	for p := parent; p != nil && p.Height() > 0; p = tr.parentOf(p) {
		for _, tx := range p.Txs {
			seen[tx.Hash()] = true
			if tx.Type() == params.BoxTx {
				if box, err := types.GetBox(tx.Data()); err == nil {
					for _, s := range box.SubTxList {
						seen[s.Hash()] = true
					}
				}
			}
		}
	}
	// every transaction the block executes: its own list and the sub-transactions of boxes
	var all types.Transactions
	for _, tx := range blk.Txs {
		all = append(all, tx)
		if tx.Type() == params.BoxTx {
			if box, err := types.GetBox(tx.Data()); err == nil {
				all = append(all, box.SubTxList...)
			}
		}
	}
	for _, tx := range all {
		if seen[tx.Hash()] {
			return false, "replayed tx", nil
		}
		seen[tx.Hash()] = true
		if tx.Expiration() < uint64(blk.Time()) || tx.Expiration()-uint64(blk.Time()) > 1800 {
			return false, "tx outside its window", nil
		}
		if tx.ChainID() != node.ChainID {
			return false, "tx of another chain", nil
		}
		if why := malformed(tx); why != "" {
			return false, "malformed tx: " + why, nil
		}
	}
	for _, tx := range blk.Txs {
		if tx.Type() == params.BoxTx {
			if box, err := types.GetBox(tx.Data()); err == nil {
				for _, s := range box.SubTxList {
					if s.Type() == params.BoxTx {
						return false, "malformed tx: box inside a box", nil
					}
					if s.Expiration() < tx.Expiration() {
						return false, "malformed tx: a boxed transaction expires before its box", nil
					}
				}
			}
		}
	}
	// deputy list: only on snapshot blocks, and there exactly the reference list of the parent's state
	if isSnapshotHeight(blk.Height()) {
		want := refTop(parent.Hash())
		if len(blk.DeputyNodes) != len(want) {
			return false, fmt.Sprintf("deputy list has %d entries, the top candidates at the parent are %d", len(blk.DeputyNodes), len(want)), nil
		}
		wl := make(types.DeputyNodes, len(want))
		for i, w := range want {
			g := blk.DeputyNodes[i]
			wl[i] = &types.DeputyNode{MinerAddress: w.Addr, NodeID: w.NodeID, Rank: uint32(i), Votes: w.Votes}
			switch {
			case g.MinerAddress != w.Addr:
				return false, fmt.Sprintf("deputy list entry %d is not the candidate ranked %d at the parent", i, i), nil
			case !bytes.Equal(g.NodeID, w.NodeID):
				return false, fmt.Sprintf("deputy list entry %d has another node id than the candidate's profile", i), nil
			case g.Rank != uint32(i):
				return false, fmt.Sprintf("deputy list entry %d has rank %d", i, g.Rank), nil
			case g.Votes == nil || g.Votes.Cmp(w.Votes) != 0:
				return false, fmt.Sprintf("deputy list entry %d carries other votes than the candidate has at the parent", i), nil
			}
		}
		root := wl.MerkleRootSha()
		if !bytes.Equal(blk.DeputyRoot(), root[:]) {
			return false, "deputy root is not the root of the reference list", nil
		}
	} else if len(blk.DeputyNodes) > 0 || len(blk.DeputyRoot()) > 0 {
		return false, "deputy list / deputy root on a block that is not a snapshot block", nil
	}
	// honest re-execution with the same miner choices must reproduce the block
	txs := make(types.Transactions, len(blk.Txs))
	for i, tx := range blk.Txs {
		cp := tx.Clone()
		cp.SetGasUsed(0)
		txs[i] = cp
	}
	hon, inv, err := tr.f.Make(node.BlockSpec{Parent: parent, Miner: miner, Time: blk.Time(), Txs: txs, Extra: blk.Extra(), NoSave: true, GasLimit: blk.Header.GasLimit, SetGasLimit: true})
	if err != nil || len(inv) > 0 || len(hon.Txs) != len(txs) {
		return false, "honest execution does not package these transactions", nil
	}
	if isSnapshotHeight(blk.Height()) {
		// the deputy root is a root the header commits to, but the reference above — not the
		// factory, whose candidate loader mirrors the engine's — says what it has to be
		hh := hon.Header.Copy()
		hh.DeputyRoot = blk.Header.DeputyRoot
		if hh.Hash() != blk.Hash() {
			return false, "differs from honest execution (roots / gas figures)", nil
		}
	} else if hon.Hash() != blk.Hash() {
		return false, "differs from honest execution (roots / gas figures)", nil
	}
	for i := range hon.Txs {
		if hon.Txs[i].GasUsed() != blk.Txs[i].GasUsed() {
			return false, "tx gasUsed differs from honest execution", nil
		}
	}
	return true, "", hon
}

// malformed: the field limits of the protocol a packaged transaction has to respect.
func malformed(tx *types.Transaction) string {
	if len(tx.Message()) > 1024 {
		return "message longer than 1024 bytes"
	}
	if !utf8.ValidString(tx.Message()) {
		return "message is not valid UTF-8"
	}
	if n := tx.ToName(); n != "" {
		if len(n) > 100 {
			return "recipient name longer than 100 characters"
		}
		for _, r := range n {
			if !(r >= 'a' && r <= 'z' || r >= 'A' && r <= 'Z' || r >= '0' && r <= '9' || r == '_' || r == '-' || r == '.') {
				return "recipient name with an illegal character"
			}
		}
	}
	if (tx.Type() == params.OrdinaryTx || tx.Type() == params.VoteTx) && tx.To() == nil {
		return "transfer / vote without a recipient"
	}
	if tx.Amount().Sign() < 0 {
		return "negative amount"
	}
	return ""
}

// asSent: oracle 3 (a valid block is not refused) is only applied to a block that looks the way an
// honest miner sends it — the statement leaves open what a node does with a valid header whose
// un-hashed companions are unusual: body transactions and change logs are those of the honest
// execution, body confirms (if any) are signatures of distinct deputies of the term other than the
// miner, and the miner's signature is in its canonical (low-s) encoding.
func asSent(blk, hon *types.Block) (bool, string) {
	if hon == nil {
		return false, "no honest execution"
	}
	if len(blk.ChangeLogs) != len(hon.ChangeLogs) || blk.ChangeLogs.MerkleRootSha() != hon.ChangeLogs.MerkleRootSha() {
		return false, "body change logs are not those of the execution"
	}
	if len(blk.Header.SignData) == 65 {
		half, _ := new(big.Int).SetString("7FFFFFFFFFFFFFFFFFFFFFFFFFFFFFFF5D576E7357A4501DDFE92F46681B20A0", 16)
		if new(big.Int).SetBytes(blk.Header.SignData[32:64]).Cmp(half) > 0 {
			return false, "miner signature in its high-s encoding"
		}
	}
	deps := refDeputies(tr, blk.Height(), tr.byHash[blk.ParentHash()])
	seen := map[string]bool{}
	for _, sd := range blk.Confirms {
		id, err := sd.RecoverNodeID(blk.Hash())
		okd := false
		for _, d := range deps {
			if err == nil && bytes.Equal(d.NodeID, id) && d.Addr != blk.MinerAddress() {
				okd = true
			}
		}
		if !okd || seen[string(id)] {
			return false, "body confirms that are not one signature each of other deputies"
		}
		seen[string(id)] = true
	}
	return true, ""
}

// C02 — block acceptance is sound: only valid, in-turn, correctly signed blocks enter, and a
// rejection leaves the node exactly as it was.
//
// Engine E4 (exhaustive mutation enumeration) on a real node: chain states x valid candidate
// blocks x every mutation operator of the table x re-signing mode {none, original miner, other
// deputy, outsider} (thorough: all pairs of operators from different groups). Each mutated block
// travels as RLP bytes into InsertBlock of a real node.
//
// Oracle 1 (soundness): accepted => validRef(B'), where validRef is written from the statement:
// parent known, height = parent+1, parent.time <= time <= now+1, extra <= 256 bytes, signed by the
// deputy whose slot it is (reference rotation) with that deputy's miner address, every tx inside its
// window and not a replay on the ancestor path or inside the block, and the block equals what the
// block factory produces by honestly executing (parent, the header fields a miner chooses, txs).
// Oracle 2 (no side effects): rejected => snapshot before == snapshot after.
package main

import (
	"bytes"
	"fmt"
	"math/big"
	"os"
	"sort"
	"strings"
	"time"

	"verifmc/core"
	"verifmc/node"
	"verifmc/vtask"

	"github.com/LemoFoundationLtd/lemochain-core/chain/params"
	"github.com/LemoFoundationLtd/lemochain-core/chain/types"
	"github.com/LemoFoundationLtd/lemochain-core/common"
	"github.com/LemoFoundationLtd/lemochain-core/common/rlp"
)

const prop = "C02"
const nDep = 3

var t0 = node.GenesisTime + 100000

// ---------------------------------------------------------------------------------------------
// chain states

type state struct {
	name   string
	blocks []string // delivery order; "cf:<block>:<deputy>" delivers a confirm
}

var states = []state{
	{"fresh", []string{"f"}},
	{"chain3", []string{"f", "a1", "a2"}},
	{"forks", []string{"f", "a1", "a2", "b1"}},
	{"after-stable", []string{"f", "a1", "cf:a1:2", "a2"}},
}

// tree (built once per worker in the factory): f on g by d0; a1 on f by d1; a2 on a1 by d2; b1 on f by d2
type tree struct {
	f      *node.Factory
	blocks map[string]*types.Block
	txT    *types.Transaction // in a1
	txNew  *types.Transaction // fresh valid tx for candidate blocks
	txNew2 *types.Transaction // another fresh valid tx (by user 2)
}

var tr *tree

func slot(f *node.Factory, parent *types.Block, rank int, notBefore uint32) uint32 {
	tm, ok := node.SlotTime(f.DM, parent, node.Deputy(rank), nDep)
	if !ok {
		panic("harness: no slot")
	}
	for tm < notBefore {
		tm += nDep * 10
	}
	return tm
}

func buildTree() *tree {
	f := node.NewFactory(core.ScratchDir("c02f"), nDep)
	t := &tree{f: f, blocks: map[string]*types.Block{"g": f.BC.Genesis()}}
	exp := uint64(t0 + 1500)
	var fund types.Transactions
	for i := 0; i < 3; i++ {
		fund = append(fund, node.Transfer(node.Founder(), node.User(i).Addr, node.Lemo(1000), exp+uint64(i)))
	}
	t.txT = node.Transfer(node.User(0), node.User(1).Addr, node.Lemo(1), exp)
	t.txNew = node.Transfer(node.User(1), node.User(2).Addr, node.Lemo(2), exp)
	t.txNew2 = node.Transfer(node.User(2), node.User(1).Addr, node.Lemo(3), exp)
	mk := func(name, parent string, rank int, txs types.Transactions) {
		p := t.blocks[parent]
		b, inv, err := f.Make(node.BlockSpec{Parent: p, Miner: node.Deputy(rank), Time: slot(f, p, rank, t0), Txs: txs, Extra: name})
		if err != nil || len(inv) > 0 {
			panic(fmt.Sprintf("harness: %s: %v %d", name, err, len(inv)))
		}
		t.blocks[name] = b
	}
	mk("f", "g", 0, fund)
	mk("a1", "f", 1, types.Transactions{t.txT})
	mk("a2", "a1", 2, nil)
	mk("b1", "f", 2, nil)
	return t
}

// ---------------------------------------------------------------------------------------------
// candidate blocks

type candidate struct {
	name   string
	parent string // block name
	rank   int
	txs    func(t *tree) types.Transactions
}

var candidates = map[string][]candidate{
	"fresh":        {{"empty-on-head", "f", 1, nil}, {"tx-on-head", "f", 1, func(t *tree) types.Transactions { return types.Transactions{t.txNew} }}},
	"chain3":       {{"tx-on-head", "a2", 0, func(t *tree) types.Transactions { return types.Transactions{t.txNew} }}, {"empty-on-mid", "a1", 0, nil}},
	"forks":        {{"tx-on-short-fork", "b1", 0, func(t *tree) types.Transactions { return types.Transactions{t.txNew} }}, {"empty-on-head", "a2", 0, nil}},
	"after-stable": {{"tx-on-head", "a2", 0, func(t *tree) types.Transactions { return types.Transactions{t.txNew} }}},
}

// ---------------------------------------------------------------------------------------------
// mutation operators

type op struct {
	group, name string
	apply       func(b *types.Block, c *ctx)
}

type ctx struct {
	t      *tree
	parent *types.Block
	now    uint32
}

func flip(h common.Hash) common.Hash { h[7] ^= 0x40; return h }

func ops() []op {
	var l []op
	add := func(g, n string, f func(b *types.Block, c *ctx)) { l = append(l, op{g, n, f}) }
	add("none", "identity", func(b *types.Block, c *ctx) {})
	// header
	add("parent", "parent=grandparent", func(b *types.Block, c *ctx) { b.Header.ParentHash = c.parent.ParentHash() })
	add("parent", "parent=unknown", func(b *types.Block, c *ctx) { b.Header.ParentHash = flip(b.Header.ParentHash) })
	add("parent", "parent=sibling-fork", func(b *types.Block, c *ctx) { b.Header.ParentHash = c.t.blocks["b1"].Hash() })
	add("miner", "miner=other-deputy", func(b *types.Block, c *ctx) {
		for i := 0; i < nDep; i++ {
			if node.Deputy(i).Addr != b.Header.MinerAddress {
				b.Header.MinerAddress = node.Deputy(i).Addr
				return
			}
		}
	})
	add("miner", "miner=outsider", func(b *types.Block, c *ctx) { b.Header.MinerAddress = node.K("outsider").Addr })
	add("roots", "versionRoot-flipped", func(b *types.Block, c *ctx) { b.Header.VersionRoot = flip(b.Header.VersionRoot) })
	add("roots", "versionRoot-zero", func(b *types.Block, c *ctx) { b.Header.VersionRoot = common.Hash{} })
	add("roots", "logRoot-flipped", func(b *types.Block, c *ctx) { b.Header.LogRoot = flip(b.Header.LogRoot) })
	add("roots", "txRoot-flipped", func(b *types.Block, c *ctx) { b.Header.TxRoot = flip(b.Header.TxRoot) })
	add("roots", "deputyRoot-junk", func(b *types.Block, c *ctx) { b.Header.DeputyRoot = []byte{1, 2, 3} })
	add("height", "height+1", func(b *types.Block, c *ctx) { b.Header.Height++ })
	add("height", "height-1", func(b *types.Block, c *ctx) { b.Header.Height-- })
	add("height", "height=0", func(b *types.Block, c *ctx) { b.Header.Height = 0 })
	add("height", "height=max", func(b *types.Block, c *ctx) { b.Header.Height = 0xffffffff })
	add("gas", "gasLimit+1", func(b *types.Block, c *ctx) { b.Header.GasLimit++ })
	add("gas", "gasLimit=0", func(b *types.Block, c *ctx) { b.Header.GasLimit = 0 })
	add("gas", "gasUsed+1", func(b *types.Block, c *ctx) { b.Header.GasUsed++ })
	add("gas", "gasUsed=0", func(b *types.Block, c *ctx) { b.Header.GasUsed = 0 })
	add("time", "time=parent-1", func(b *types.Block, c *ctx) { b.Header.Time = c.parent.Time() - 1 })
	add("time", "time=parent", func(b *types.Block, c *ctx) { b.Header.Time = c.parent.Time() })
	add("time", "time-1(previous slot)", func(b *types.Block, c *ctx) { b.Header.Time-- })
	add("time", "time+9(last second of slot)", func(b *types.Block, c *ctx) { b.Header.Time += 9 })
	add("time", "time+10(next slot)", func(b *types.Block, c *ctx) { b.Header.Time += 10 })
	add("time", "time+30(same deputy next round)", func(b *types.Block, c *ctx) { b.Header.Time += nDep * 10 })
	add("time", "time=now+100", func(b *types.Block, c *ctx) { b.Header.Time = c.now + 100 })
	add("time", "time=now+1000000", func(b *types.Block, c *ctx) { b.Header.Time = c.now + 1000000 })
	add("time", "time=0", func(b *types.Block, c *ctx) { b.Header.Time = 0 })
	add("time", "time=1", func(b *types.Block, c *ctx) { b.Header.Time = 1 })
	add("time", "time=max", func(b *types.Block, c *ctx) { b.Header.Time = 0xffffffff })
	add("extra", "extra=256", func(b *types.Block, c *ctx) { b.Header.Extra = strings.Repeat("x", 256) })
	add("extra", "extra=257", func(b *types.Block, c *ctx) { b.Header.Extra = strings.Repeat("x", 257) })
	add("extra", "extra=100000", func(b *types.Block, c *ctx) { b.Header.Extra = strings.Repeat("x", 100000) })
	// body: transactions
	add("txs", "txs-dropped", func(b *types.Block, c *ctx) { b.Txs = nil })
	add("txs", "tx-duplicated", func(b *types.Block, c *ctx) {
		if len(b.Txs) > 0 {
			b.Txs = append(b.Txs, b.Txs[0])
		} else {
			b.Txs = types.Transactions{c.t.txNew, c.t.txNew}
		}
	})
	add("txs", "tx-added(valid)", func(b *types.Block, c *ctx) {
		b.Txs = append(b.Txs, node.Transfer(node.User(2), node.User(0).Addr, node.Lemo(1), uint64(t0+1500)))
	})
	add("txs", "tx-replayed-from-ancestor", func(b *types.Block, c *ctx) { b.Txs = append(b.Txs, c.t.txT) })
	add("txs", "tx-expired", func(b *types.Block, c *ctx) {
		b.Txs = append(b.Txs, node.Transfer(node.User(2), node.User(0).Addr, node.Lemo(1), uint64(b.Header.Time-1)))
	})
	add("txs", "tx-not-yet-valid", func(b *types.Block, c *ctx) {
		b.Txs = append(b.Txs, node.Transfer(node.User(2), node.User(0).Addr, node.Lemo(1), uint64(b.Header.Time+1801)))
	})
	add("txs", "tx-wrong-chain", func(b *types.Block, c *ctx) {
		to := node.User(0).Addr
		b.Txs = append(b.Txs, node.Tx(node.TxSpec{Type: params.OrdinaryTx, From: node.User(2), To: &to, Amount: node.Lemo(1), Exp: uint64(t0 + 1500), ChainID: 201}))
	})
	add("txs", "tx-signed-by-outsider", func(b *types.Block, c *ctx) {
		to := node.User(0).Addr
		un := node.Unsigned(node.TxSpec{Type: params.OrdinaryTx, From: node.User(2), To: &to, Amount: node.Lemo(1), Exp: uint64(t0 + 1500)})
		b.Txs = append(b.Txs, node.SignWith(un, node.K("outsider").Priv))
	})
	add("txs", "tx-unaffordable", func(b *types.Block, c *ctx) {
		b.Txs = append(b.Txs, node.Transfer(node.K("pauper"), node.User(0).Addr, node.Lemo(1), uint64(t0+1500)))
	})
	add("txs", "tx-gasUsed-tampered", func(b *types.Block, c *ctx) {
		if len(b.Txs) > 0 {
			cp := b.Txs[0].Clone()
			cp.SetGasUsed(cp.GasUsed() + 1)
			b.Txs = append(types.Transactions{cp}, b.Txs[1:]...)
		}
	})
	// body: transactions, EXECUTED. The operators above change the list without re-executing, so the
	// block is also inconsistent with its roots and a node may refuse it for that reason alone. A
	// cheating deputy would execute what it packages: these operators let the block factory (the
	// real assembler, which performs no window / replay checks) execute the changed list, so the
	// block is consistent in every root and gas figure and wrong ONLY in the transaction it carries.
	executed := func(name string, mk func(b *types.Block, c *ctx) types.Transactions) {
		add("txs-executed", name, func(b *types.Block, c *ctx) {
			rank := -1
			for i := 0; i < nDep; i++ {
				if node.Deputy(i).Addr == b.Header.MinerAddress {
					rank = i
				}
			}
			if rank < 0 {
				return
			}
			txs := mk(b, c)
			nb, inv, err := c.t.f.Make(node.BlockSpec{Parent: c.parent, Miner: node.Deputy(rank), Time: b.Header.Time, Txs: txs, Extra: b.Header.Extra, NoSave: true})
			if err != nil || len(inv) > 0 || len(nb.Txs) != len(txs) {
				return // the assembler itself does not package it: nothing to offer
			}
			*b = *node.Wire(nb)
		})
	}
	plus := func(b *types.Block, tx *types.Transaction) types.Transactions {
		return append(append(types.Transactions{}, b.Txs...), tx)
	}
	executed("tx-expired(executed)", func(b *types.Block, c *ctx) types.Transactions {
		return plus(b, node.Transfer(node.User(2), node.User(0).Addr, node.Lemo(1), uint64(b.Header.Time-1)))
	})
	executed("tx-expires-now(executed,valid)", func(b *types.Block, c *ctx) types.Transactions {
		return plus(b, node.Transfer(node.User(2), node.User(0).Addr, node.Lemo(1), uint64(b.Header.Time)))
	})
	executed("tx-lifetime-1800(executed,valid)", func(b *types.Block, c *ctx) types.Transactions {
		return plus(b, node.Transfer(node.User(2), node.User(0).Addr, node.Lemo(1), uint64(b.Header.Time+1800)))
	})
	executed("tx-lifetime-1801(executed)", func(b *types.Block, c *ctx) types.Transactions {
		return plus(b, node.Transfer(node.User(2), node.User(0).Addr, node.Lemo(1), uint64(b.Header.Time+1801)))
	})
	executed("tx-replayed-from-ancestor(executed)", func(b *types.Block, c *ctx) types.Transactions { return plus(b, c.t.txT) })
	executed("tx-duplicated(executed)", func(b *types.Block, c *ctx) types.Transactions {
		return append(plus(b, c.t.txNew2), c.t.txNew2)
	})
	executed("tx-wrong-chain(executed)", func(b *types.Block, c *ctx) types.Transactions {
		to := node.User(0).Addr
		return plus(b, node.Tx(node.TxSpec{Type: params.OrdinaryTx, From: node.User(2), To: &to, Amount: node.Lemo(1), Exp: uint64(t0 + 1500), ChainID: 201}))
	})
	executed("box-sub-tx-lifetime-1801(executed)", func(b *types.Block, c *ctx) types.Transactions {
		sub := node.Transfer(node.User(2), node.User(0).Addr, node.Lemo(1), uint64(b.Header.Time+1801))
		return plus(b, node.Box(node.User(0), uint64(b.Header.Time+100), sub))
	})
	executed("box-sub-tx-expired(executed)", func(b *types.Block, c *ctx) types.Transactions {
		sub := node.Transfer(node.User(2), node.User(0).Addr, node.Lemo(1), uint64(b.Header.Time-1))
		return plus(b, node.Box(node.User(0), uint64(b.Header.Time+100), sub))
	})
	// body: change logs
	add("logs", "logs-dropped", func(b *types.Block, c *ctx) { b.ChangeLogs = nil })
	add("logs", "log-first-dropped", func(b *types.Block, c *ctx) {
		if len(b.ChangeLogs) > 0 {
			b.ChangeLogs = b.ChangeLogs[1:]
		}
	})
	add("logs", "log-value-altered", func(b *types.Block, c *ctx) {
		for i, l := range b.ChangeLogs {
			if v, ok := l.NewVal.(big.Int); ok {
				cp := *l
				cp.NewVal = *new(big.Int).Add(&v, big.NewInt(1))
				nl := append(types.ChangeLogSlice{}, b.ChangeLogs...)
				nl[i] = &cp
				b.ChangeLogs = nl
				return
			}
		}
	})
	add("logs", "log-duplicated", func(b *types.Block, c *ctx) {
		if len(b.ChangeLogs) > 0 {
			b.ChangeLogs = append(b.ChangeLogs, b.ChangeLogs[0])
		}
	})
	// body: deputy nodes on an ordinary block
	add("deputies", "deputyNodes-present", func(b *types.Block, c *ctx) { b.DeputyNodes = c.t.blocks["g"].DeputyNodes })
	return l
}

// resign modes
var modes = []string{"keep-signature", "resign-miner", "resign-other-deputy", "resign-outsider", "signature-junk", "signature-empty"}

func resign(b *types.Block, mode string, origRank int) {
	var k *node.Key
	switch mode {
	case "keep-signature":
		return
	case "resign-miner":
		k = node.Deputy(origRank)
	case "resign-other-deputy":
		k = node.Deputy((origRank + 1) % nDep)
	case "resign-outsider":
		k = node.K("outsider")
	case "signature-junk":
		b.Header.SignData = bytes.Repeat([]byte{0x5a}, 65)
		return
	case "signature-empty":
		b.Header.SignData = nil
		return
	}
	sd := node.SignConfirm(k, b.Header.Hash())
	b.Header.SignData = sd[:]
}

// fixRoots recomputes TxRoot/LogRoot from the body (what a cheating miner would do before signing).
func fixRoots(b *types.Block) {
	b.Header.TxRoot = b.Txs.MerkleRootSha()
	b.Header.LogRoot = b.ChangeLogs.MerkleRootSha()
}

// ---------------------------------------------------------------------------------------------
// the node under test

type nut struct {
	st    state
	n     *node.Node
	clean bool
}

// drain runs the goroutines the engines have asked for (the `go` statements of chain and
// chain/consensus are gated through the source overlay) to completion, with the node's own key as
// the process-global self key. Without this they run whenever the Go scheduler likes, possibly
// while the block factory has switched the self key to a deputy's: a background batch confirm then
// signs a stable block "as that deputy" at an arbitrary moment, which looked like a side effect of
// whatever block was being rejected at that time.
func drain(n *node.Node) {
	n.Use()
	for len(vtask.Pending()) > 0 {
		vtask.Run(0)
	}
}

func newNut(st state) *nut {
	n := node.NewNode(core.ScratchDir("c02o"), nDep, node.K("observer"))
	drain(n)
	for _, e := range st.blocks {
		if strings.HasPrefix(e, "cf:") {
			p := strings.Split(e, ":")
			var d int
			fmt.Sscanf(p[2], "%d", &d)
			b := tr.blocks[p[1]]
			n.Use()
			n.BC.InsertConfirms(b.Height(), b.Hash(), []types.SignData{node.SignConfirm(node.Deputy(d), b.Hash())})
			drain(n)
			continue
		}
		n.Use()
		if err := n.BC.InsertBlock(node.Wire(tr.blocks[e])); err != nil {
			panic("harness: state block " + e + " rejected: " + err.Error())
		}
		drain(n)
	}
	drain(n)
	return &nut{st: st, n: n, clean: true}
}

var watch = func() []common.Address {
	l := []common.Address{node.Founder().Addr, node.K("outsider").Addr, node.K("pauper").Addr}
	for i := 0; i < 3; i++ {
		l = append(l, node.User(i).Addr, node.Deputy(i).Addr, node.K(fmt.Sprintf("income%d", i)).Addr)
	}
	return l
}()

func (u *nut) snapshot() string {
	var sb strings.Builder
	n := u.n
	head, stable := n.BC.CurrentBlock(), n.BC.StableBlock()
	fmt.Fprintf(&sb, "head=%x stable=%x\n", head.Hash().Bytes()[:6], stable.Hash().Bytes()[:6])
	var stored []string
	for h := uint32(0); h <= stable.Height(); h++ {
		if b, err := n.DB.GetBlockByHeight(h); err == nil {
			stored = append(stored, fmt.Sprintf("S%d:%x:%d", h, b.Hash().Bytes()[:6], len(b.Confirms)))
		}
	}
	n.DB.IterateUnConfirms(func(b *types.Block) {
		stored = append(stored, fmt.Sprintf("U%d:%x:%d", b.Height(), b.Hash().Bytes()[:6], len(b.Confirms)))
	})
	sort.Strings(stored)
	sb.WriteString(strings.Join(stored, " ") + "\n")
	for _, a := range watch {
		fmt.Fprintf(&sb, "%x@head %s\n", a[16:], node.DumpAccount(n.DB, head.Hash(), a))
	}
	pool := n.Pool.GetTxs(t0, 1000)
	ph := make([]string, 0)
	for _, tx := range pool {
		ph = append(ph, fmt.Sprintf("%x", tx.Hash().Bytes()[:4]))
	}
	sort.Strings(ph)
	fmt.Fprintf(&sb, "pool=%v guardT=%v guardNew=%v\n", ph, n.BC.TxGuard().ExistTx(head.Hash(), tr.txT), n.BC.TxGuard().ExistTx(head.Hash(), tr.txNew))
	return sb.String()
}

// ---------------------------------------------------------------------------------------------

type caseID struct {
	State, Cand int
	Ops         []int
	Mode        int
	FixRoots    bool
}

func (c caseID) String(all []op) string {
	names := make([]string, len(c.Ops))
	for i, o := range c.Ops {
		names[i] = all[o].name
	}
	return fmt.Sprintf("state=%s block=%s ops=[%s] fixRoots=%v sign=%s", states[c.State].name, candidates[states[c.State].name][c.Cand].name, strings.Join(names, " + "), c.FixRoots, modes[c.Mode])
}

// refRank: the deputy whose slot `tm` is, for a block on `parent` (reference rotation, 3 genesis deputies, 10 s slots).
func refRank(parent *types.Block, tm uint32) (int, bool) {
	if tm < parent.Time() {
		return 0, false
	}
	d := int((tm-parent.Time())/10)%nDep + 1
	if parent.Height() == 0 {
		return (d - 1) % nDep, true
	}
	pr := -1
	for i := 0; i < nDep; i++ {
		if node.Deputy(i).Addr == parent.MinerAddress() {
			pr = i
		}
	}
	if pr < 0 {
		return 0, false
	}
	return (pr + d) % nDep, true
}

// validRef decides from the statement whether blk may be accepted by a node that knows `known` blocks.
func validRef(blk *types.Block, nowSec uint32) (bool, string) {
	var parent *types.Block
	for _, b := range tr.blocks {
		if b.Hash() == blk.ParentHash() {
			parent = b
		}
	}
	if parent == nil {
		return false, "parent unknown"
	}
	if blk.Height() != parent.Height()+1 {
		return false, "height"
	}
	if blk.Time() < parent.Time() {
		return false, "time before parent"
	}
	if blk.Time() > nowSec+1 {
		return false, "time in the future"
	}
	if len(blk.Extra()) > 256 {
		return false, "extra too long"
	}
	rank, ok := refRank(parent, blk.Time())
	if !ok {
		return false, "no deputy in turn"
	}
	id, err := blk.SignerNodeID()
	if err != nil || !bytes.Equal(id, node.Deputy(rank).NodeID) {
		return false, "not signed by the deputy in turn"
	}
	if blk.MinerAddress() != node.Deputy(rank).Addr {
		return false, "miner address is not the signer's"
	}
	// transactions: window, replay (ancestor path and inside the block)
	seen := map[common.Hash]bool{}
	for p := parent; p != nil && p.Height() > 0; {
		for _, tx := range p.Txs {
			seen[tx.Hash()] = true
		}
		var pp *types.Block
		for _, b := range tr.blocks {
			if b.Hash() == p.ParentHash() {
				pp = b
			}
		}
		p = pp
	}
	// every transaction the block executes: its own list and the sub-transactions of boxes
	var all types.Transactions
	for _, tx := range blk.Txs {
		all = append(all, tx)
		if tx.Type() == params.BoxTx {
			if box, err := types.GetBox(tx.Data()); err == nil {
				all = append(all, box.SubTxList...)
			}
		}
	}
	for _, tx := range all {
		if seen[tx.Hash()] {
			return false, "replayed tx"
		}
		seen[tx.Hash()] = true
		if tx.Expiration() < uint64(blk.Time()) || tx.Expiration()-uint64(blk.Time()) > 1800 {
			return false, "tx outside its window"
		}
		if tx.ChainID() != node.ChainID {
			return false, "tx of another chain"
		}
	}
	if len(blk.DeputyNodes) > 0 || len(blk.DeputyRoot()) > 0 {
		return false, "deputy list / deputy root on a block that is not a snapshot block"
	}
	// honest re-execution with the same miner choices must reproduce the block
	txs := make(types.Transactions, len(blk.Txs))
	for i, tx := range blk.Txs {
		cp := tx.Clone()
		cp.SetGasUsed(0)
		txs[i] = cp
	}
	hon, inv, err := tr.f.Make(node.BlockSpec{Parent: parent, Miner: node.Deputy(rank), Time: blk.Time(), Txs: txs, Extra: blk.Extra(), NoSave: true, GasLimit: blk.Header.GasLimit, SetGasLimit: true})
	if err != nil || len(inv) > 0 || len(hon.Txs) != len(txs) {
		return false, "honest execution does not package these transactions"
	}
	if hon.Hash() != blk.Hash() {
		return false, "differs from honest execution (roots / gas figures)"
	}
	for i := range hon.Txs {
		if hon.Txs[i].GasUsed() != blk.Txs[i].GasUsed() {
			return false, "tx gasUsed differs from honest execution"
		}
	}
	return true, ""
}

func runCase(u *nut, c caseID, all []op, r *core.Result) *nut {
	st := states[c.State]
	if u == nil || u.st.name != st.name || !u.clean {
		if u != nil {
			u.n.Destroy()
		}
		u = newNut(st)
	}
	cand := candidates[st.name][c.Cand]
	parent := tr.blocks[cand.parent]
	var txs types.Transactions
	if cand.txs != nil {
		txs = cand.txs(tr)
	}
	base, inv, err := tr.f.Make(node.BlockSpec{Parent: parent, Miner: node.Deputy(cand.rank), Time: slot(tr.f, parent, cand.rank, t0), Txs: txs, Extra: "cand", NoSave: true})
	if err != nil || len(inv) > 0 {
		panic(fmt.Sprintf("harness: candidate: %v", err))
	}
	blk := node.Wire(base)
	now := uint32(time.Now().Unix())
	cx := &ctx{t: tr, parent: parent, now: now}
	for _, o := range c.Ops {
		all[o].apply(blk, cx)
	}
	if c.FixRoots {
		fixRoots(blk)
	}
	resign(blk, modes[c.Mode], cand.rank)
	enc, err := rlp.EncodeToBytes(blk)
	if err != nil {
		r.Outcome("unencodable")
		return u
	}
	var wire types.Block
	if err := rlp.DecodeBytes(enc, &wire); err != nil {
		r.Outcome("undecodable:" + all[c.Ops[len(c.Ops)-1]].group)
		return u
	}
	desc := c.String(all)
	drain(u.n) // anything the factory's own engine queued while building the candidate
	before := u.snapshot()
	u.n.Use()
	var ierr error
	func() {
		defer func() {
			if p := recover(); p != nil {
				r.Violate(prop+"/panic-in-InsertBlock/"+firstWords(fmt.Sprint(p)), fmt.Sprintf("InsertBlock panicked (%v) on %s", p, desc), c)
				ierr = fmt.Errorf("panic")
				u.clean = false // a lock may be held
			}
		}()
		ierr = u.n.BC.InsertBlock(&wire)
		// background work the insertion started belongs to its effects: run it before looking
		drain(u.n)
	}()
	if !u.clean {
		// the instance is poisoned (panic while holding the chain lock): abandon without Close
		os.RemoveAll(u.n.Dir)
		return nil
	}
	accepted := ierr == nil && u.n.BC.HasBlock(wire.Hash())
	opn := "none"
	if len(c.Ops) > 0 {
		opn = all[c.Ops[0]].group
	}
	if accepted {
		u.clean = false
		var dec types.Block
		rlp.DecodeBytes(enc, &dec)
		ok, why := validRef(&dec, now)
		if !ok {
			names := make([]string, len(c.Ops))
			for i, o := range c.Ops {
				names[i] = all[o].name
			}
			r.Violate(prop+"/invalid-block-accepted/"+why+"/"+strings.Join(names, "+")+"/"+modes[c.Mode], fmt.Sprintf("accepted although %s: %s", why, desc), c)
		}
		r.Outcome("accepted/" + opn + "/" + modes[c.Mode])
		r.Add("accepted", 1)
	} else {
		after := u.snapshot()
		if after != before {
			u.clean = false
			r.Violate(prop+"/rejection-changed-state/"+diffLine(before, after)+"/"+opn, fmt.Sprintf("rejected block changed the node (%s): %s\nbefore:\n%s\nafter:\n%s", diffLine(before, after), desc, before, after), c)
		}
		r.Outcome("rejected/" + opn + "/" + modes[c.Mode])
		r.Add("rejected", 1)
	}
	return u
}

func firstWords(s string) string {
	f := strings.Fields(s)
	if len(f) > 6 {
		f = f[:6]
	}
	return strings.Join(f, " ")
}

func diffLine(a, b string) string {
	al, bl := strings.Split(a, "\n"), strings.Split(b, "\n")
	for i := range al {
		if i >= len(bl) || al[i] != bl[i] {
			f := strings.Fields(al[i])
			if len(f) > 0 {
				k := f[0]
				if j := strings.IndexAny(k, "=@"); j > 0 {
					k = k[j:]
					if strings.HasPrefix(k, "@") {
						return "account-state"
					}
					return f[0][:strings.IndexAny(f[0], "=@")]
				}
				return "stored-blocks"
			}
		}
	}
	return "?"
}

func enumerate(all []op) []caseID {
	var cases []caseID
	for si, st := range states {
		for ci := range candidates[st.name] {
			for oi := range all {
				for mi := range modes {
					for _, fr := range []bool{false, true} {
						if fr && all[oi].group != "txs" && all[oi].group != "logs" {
							continue
						}
						cases = append(cases, caseID{State: si, Cand: ci, Ops: []int{oi}, Mode: mi, FixRoots: fr})
					}
				}
			}
			if core.Thorough() {
				// all pairs of operators from different groups, re-signed by the miner or kept
				for a := range all {
					for b := a + 1; b < len(all); b++ {
						if all[a].group == all[b].group || all[a].group == "none" {
							continue
						}
						for _, mi := range []int{1, 2} {
							cases = append(cases, caseID{State: si, Cand: ci, Ops: []int{a, b}, Mode: mi, FixRoots: true})
						}
					}
				}
			}
		}
	}
	return cases
}

func main() {
	core.ParseFlags()
	node.Quiet()
	vtask.SetPolicy(vtask.Gated, "runFeedTranspondLoop", vtask.Drop)
	all := ops()
	cases := enumerate(all)
	if core.Opt.Replay != "" {
		var c caseID
		if err := core.LoadReplay(core.Opt.Replay, &c); err != nil {
			fmt.Println(err)
			os.Exit(2)
		}
		tr = buildTree()
		r := core.NewResult(prop, "exploration")
		u := runCase(nil, c, all, r)
		if u != nil {
			u.n.Destroy()
		}
		tr.f.Destroy()
		fmt.Println("replay", c.String(all))
		for _, v := range r.Violations {
			fmt.Printf("VIOLATION-REPLAYED %s\n%s\n", v.Fingerprint, v.What)
		}
		if len(r.Violations) > 0 {
			os.Exit(1)
		}
		return
	}
	if i, n, ok := core.IsWorker(); ok {
		r := core.NewResult(prop, "exploration")
		tr = buildTree()
		var u *nut
		for k := i; k < len(cases); k += n {
			// group by state so that one node serves many cases: stride over the sorted list keeps states contiguous enough
			core.Journal(cases[k].String(all))
			u = runCase(u, cases[k], all, r)
			r.Add("evaluations", 1)
			if k%997 == 0 {
				r.Sample(cases[k].String(all))
			}
			if core.OutOfTime() {
				r.NotExhaustive(fmt.Sprintf("internal deadline at case %d of %d", k, len(cases)))
				break
			}
		}
		if u != nil {
			u.n.Destroy()
		}
		tr.f.Destroy()
		core.WorkerDone(r)
	}
	r := core.NewResult(prop, "exploration")
	r.Rule = fmt.Sprintf("every single mutation operator (%d operators in groups parent/miner/roots/height/gas/time/extra/txs/logs/deputies) x %d signing modes x {roots recomputed or not} on %d (chain state, valid candidate block) pairs; thorough adds all pairs of operators from different groups re-signed by a deputy; an outcome is (verdict, operator group, signing mode)", len(all), len(modes), func() int {
		n := 0
		for _, st := range states {
			n += len(candidates[st.name])
		}
		return n
	}())
	r.Assume = []string{"3 genesis deputies, 10 s slots, observer node; wall clock is far later than every honest block time", "gasLimit and extra are the miner's free choices (validRef re-executes with the block's own values)"}
	r.Extra["cases"] = len(cases)
	core.RunShards(r, core.Opt.Workers, nil, core.Opt.Budget+2*time.Minute, func(i int, tail, journal string) {
		r.Violate(prop+"/worker-died/"+firstWords(lastPanicLine(tail)), fmt.Sprintf("worker %d died while running case {%s}:\n%s", i, journal, clipTail(tail)), map[string]string{"case": journal})
	})
	core.Finish(r)
}

func lastPanicLine(tail string) string {
	for _, l := range strings.Split(tail, "\n") {
		if strings.HasPrefix(l, "panic:") || strings.HasPrefix(l, "fatal error:") {
			return l
		}
	}
	return "no panic line"
}

func clipTail(s string) string {
	if len(s) > 3000 {
		return s[:3000]
	}
	return s
}

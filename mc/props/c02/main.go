// C02 — block acceptance is sound: only valid, in-turn, correctly signed blocks enter, and a
// rejection leaves the node exactly as it was.
//
// Engine E4 (exhaustive mutation enumeration) on a real node: chain states x valid candidate
// blocks x every mutation operator of the table x re-signing mode x node clock position (thorough:
// all pairs of operators from different groups). Each mutated block travels as RLP bytes into
// InsertBlock of a real node whose clock is the harness's (instrumenter pass `time`).
//
// Oracle 1 (soundness): accepted => validRef(B'), where validRef (ref.go) is written from the
// statement: parent known (and not pruned), height = parent+1, parent.time <= time <= clock+1 s,
// extra <= 256 bytes, signed by the deputy whose slot it is (reference rotation over the reference
// term list) with that deputy's miner address, every tx inside its window and not a replay on the
// ancestor path or inside the block, a deputy list exactly on snapshot blocks and there equal to
// the reference top-N of the parent's state with its Merkle root in the header, and the block equals
// what the block factory produces by honestly executing (parent, the header fields a miner chooses,
// txs).
// Oracle 2 (no side effects): rejected => snapshot before == snapshot after.
// Oracle 3 (the tolerance is granted): validRef(B') and B' above the stable height and its term
// loaded => accepted.
// Files: world.go (trees, states, candidates), ops.go (operators, signing modes), ref.go (reference).
package main

import (
	"fmt"
	"os"
	"runtime/debug"
	"sort"
	"strings"
	"time"

	"verifmc/core"
	"verifmc/node"
	"verifmc/vclock"
	"verifmc/vtask"

	"github.com/LemoFoundationLtd/lemochain-core/chain/deputynode"
	"github.com/LemoFoundationLtd/lemochain-core/chain/params"
	"github.com/LemoFoundationLtd/lemochain-core/chain/types"
	"github.com/LemoFoundationLtd/lemochain-core/common"
	"github.com/LemoFoundationLtd/lemochain-core/common/rlp"
)

const prop = "C02"

// ---------------------------------------------------------------------------------------------
// the node's clock

type clockPos struct {
	name  string
	offMs int64 // node clock minus the valid candidate's timestamp, milliseconds
}

// clocks[0] is the default of the operator product: the node's clock is two full rounds and one
// second later than the block, so that every time operator that stays inside the schedule is in the
// past, now-1 .. now+3 all lie inside one slot of the candidate's miner, and the candidate's
// transactions are still inside their lifetime at those instants.
var clocks = []clockPos{
	{"late(+61s)", 61000},
	{"-2s.000", -2000}, {"-2s.999", -1001},
	{"-1s.000", -1000}, {"-1s.999", -1},
	{"0s.000", 0}, {"0s.999", 999},
	{"+1s.000", 1000}, {"+1s.999", 1999},
	{"+2s.000", 2000}, {"+2s.999", 2999},
}

// ---------------------------------------------------------------------------------------------
// the node under test

type nut struct {
	st    state
	n     *node.Node
	clean bool
}

// drain runs the goroutines and timers the engines have asked for (the `go` statements and
// time.AfterFunc calls of chain and chain/consensus are gated through the source overlay) to
// completion, with the node's own key as the process-global self key. Without this they run whenever
// the Go scheduler likes, possibly while the block factory has switched the self key to a deputy's:
// a background batch confirm then signs a stable block "as that deputy" at an arbitrary moment, which
// looked like a side effect of whatever block was being rejected at that time.
func drain(n *node.Node) {
	n.Use()
	for len(vtask.Pending()) > 0 {
		vtask.Run(0)
	}
}

func newNut(st state) *nut {
	vclock.SetUnix(lateClock)
	n := node.NewNode(core.ScratchDir("c02o"), nDep, node.K("observer"))
	drain(n)
	for _, e := range st.blocks {
		if strings.HasPrefix(e, "cf:") {
			p := strings.Split(e, ":")
			var d int
			fmt.Sscanf(p[2], "%d", &d)
			b := tr.blocks[p[1]]
			n.Use()
			n.BC.InsertConfirms(b.Height(), b.Hash(), []types.SignData{node.SignConfirm(node.Deputy(d), b.Hash())})
			drain(n)
			continue
		}
		n.Use()
		if err := n.BC.InsertBlock(node.Wire(tr.blocks[e])); err != nil {
			// the blocks of the trees are honest blocks (real assembler, reference schedule, clock far
			// behind the node's): a node that refuses one refuses a valid block
			panic(stateBlockRejected{st.name, e, err.Error()})
		}
		drain(n)
	}
	drain(n)
	// the reference's idea of this state must be the node's
	si := infoOf(st)
	if n.BC.StableBlock().Hash() != si.stable.Hash() {
		panic(fmt.Sprintf("harness: state %s: stable block is %s, the reference expects %s", st.name, tr.name[n.BC.StableBlock().Hash()], tr.name[si.stable.Hash()]))
	}
	if n.BC.CurrentBlock().Hash() != tr.blocks[si.head].Hash() {
		panic(fmt.Sprintf("harness: state %s: head is %s, the reference expects %s", st.name, tr.name[n.BC.CurrentBlock().Hash()], si.head))
	}
	return &nut{st: st, n: n, clean: true}
}

type stateBlockRejected struct{ state, block, err string }

var watch = func() []common.Address {
	l := []common.Address{node.Founder().Addr, node.K("outsider").Addr, node.K("pauper").Addr, params.DepositPoolAddress, params.TermRewardContract}
	for i := 0; i < 3; i++ {
		l = append(l, node.User(i).Addr, node.Deputy(i).Addr, node.K(fmt.Sprintf("income%d", i)).Addr, node.K(fmt.Sprintf("v%d", i)).Addr)
	}
	l = append(l, node.K("v3").Addr)
	for i := 0; i < 4; i++ {
		l = append(l, node.K(fmt.Sprintf("c%d", i)).Addr)
	}
	return l
}()

func (u *nut) snapshot() string {
	var sb strings.Builder
	n := u.n
	head, stable := n.BC.CurrentBlock(), n.BC.StableBlock()
	fmt.Fprintf(&sb, "head=%x stable=%x\n", head.Hash().Bytes()[:6], stable.Hash().Bytes()[:6])
	var stored []string
	for h := uint32(0); h <= stable.Height(); h++ {
		if b, err := n.DB.GetBlockByHeight(h); err == nil {
			stored = append(stored, fmt.Sprintf("S%d:%x:%d", h, b.Hash().Bytes()[:6], len(b.Confirms)))
		}
	}
	n.DB.IterateUnConfirms(func(b *types.Block) {
		stored = append(stored, fmt.Sprintf("U%d:%x:%d", b.Height(), b.Hash().Bytes()[:6], len(b.Confirms)))
	})
	sort.Strings(stored)
	sb.WriteString(strings.Join(stored, " ") + "\n")
	for _, a := range watch {
		fmt.Fprintf(&sb, "%x@head %s\n", a[16:], node.DumpAccount(n.DB, head.Hash(), a))
	}
	pool := n.Pool.GetTxs(t0, 1000)
	ph := make([]string, 0)
	for _, tx := range pool {
		ph = append(ph, fmt.Sprintf("%x", tx.Hash().Bytes()[:4]))
	}
	sort.Strings(ph)
	fmt.Fprintf(&sb, "pool=%v guardT=%v guardNew=%v\n", ph, n.BC.TxGuard().ExistTx(head.Hash(), tr.txT), n.BC.TxGuard().ExistTx(head.Hash(), tr.txNew))
	// the term list: who may sign in the genesis term, in the next one and in the one after
	for _, h := range []uint32{1, termDur + interim + 1, 2*termDur + interim + 1} {
		var l []string
		for _, d := range n.DM.GetDeputiesByHeight(h, true) {
			l = append(l, fmt.Sprintf("%x/%x/%d/%s", d.MinerAddress[16:], d.NodeID[:3], d.Rank, d.Votes))
		}
		fmt.Fprintf(&sb, "term=signers@%d %v\n", h, l)
	}
	return sb.String()
}

// ---------------------------------------------------------------------------------------------

type caseID struct {
	State, Cand int
	Ops         []int
	Mode        int
	FixRoots    bool
	Clock       int  // index into clocks (0 = 61 s late)
	DepRoot     bool // recompute the DeputyRoot from the (altered) deputy list before signing
}

func (c caseID) opNames(all []op) []string {
	names := make([]string, len(c.Ops))
	for i, o := range c.Ops {
		names[i] = all[o].name
	}
	return names
}

func (c caseID) String(all []op) string {
	s := fmt.Sprintf("state=%s block=%s ops=[%s] fixRoots=%v sign=%s", states[c.State].name, candidates[states[c.State].name][c.Cand].name, strings.Join(c.opNames(all), " + "), c.FixRoots, modes[c.Mode])
	if c.DepRoot {
		s += " deputyRoot=recomputed"
	}
	if c.Clock != 0 {
		s += " clock=block.time" + clocks[c.Clock].name
	}
	return s
}

var replayMode bool

func runCase(u *nut, c caseID, all []op, r *core.Result) *nut {
	st := states[c.State]
	if u == nil || u.st.name != st.name || !u.clean {
		if u != nil {
			u.n.Destroy()
		}
		u = newNut(st)
	}
	si := infoOf(st)
	cand := candidates[st.name][c.Cand]
	parent := tr.blocks[cand.parent]
	base := baseBlock(st, c.Cand)
	blk := node.Wire(base)
	nowMs := int64(base.Time())*1000 + clocks[c.Clock].offMs
	cx := &ctx{t: tr, parent: parent, base: base, cand: cand, si: si, now: uint32(nowMs / 1000)}
	for _, o := range c.Ops {
		all[o].apply(blk, cx)
	}
	if cx.skip {
		r.Add("not_applicable", 1)
		if cx.refused && len(c.Ops) == 1 && c.Clock == 0 {
			r.Add("op["+all[c.Ops[0]].group+":"+all[c.Ops[0]].name+"]/assembler-refuses-to-package", 1)
		}
		return u
	}
	if c.FixRoots {
		fixRoots(blk)
	}
	if c.DepRoot {
		root := blk.DeputyNodes.MerkleRootSha()
		blk.Header.DeputyRoot = root[:]
	}
	resign(blk, modes[c.Mode], cx)
	enc, err := rlp.EncodeToBytes(blk)
	if err != nil {
		r.Outcome("unencodable")
		r.Add("unencodable", 1)
		return u
	}
	var wire types.Block
	if err := rlp.DecodeBytes(enc, &wire); err != nil {
		r.Outcome("undecodable:" + all[c.Ops[len(c.Ops)-1]].group)
		r.Add("undecodable", 1)
		return u
	}
	desc := c.String(all)
	drain(u.n) // anything the factory's own engine queued while building the candidate
	before := u.snapshot()
	u.n.Use()
	vclock.SetUnixMilli(nowMs)
	var ierr error
	func() {
		defer func() {
			if p := recover(); p != nil {
				r.Violate(prop+"/panic-in-InsertBlock/"+firstWords(fmt.Sprint(p)), fmt.Sprintf("InsertBlock panicked (%v) on %s", p, desc), c)
				ierr = fmt.Errorf("panic")
				u.clean = false // a lock may be held
			}
		}()
		ierr = u.n.BC.InsertBlock(&wire)
		// background work the insertion started belongs to its effects: run it before looking
		drain(u.n)
	}()
	vclock.SetUnix(lateClock)
	if !u.clean {
		// the instance is poisoned (panic while holding the chain lock): abandon without Close
		os.RemoveAll(u.n.Dir)
		return nil
	}
	var dec types.Block
	rlp.DecodeBytes(enc, &dec)
	known := si.delivered[dec.Hash()] || dec.Hash() == tr.blocks["g"].Hash()
	accepted := ierr == nil && u.n.BC.HasBlock(wire.Hash()) && !known
	opn, opfull := "none", "identity"
	if len(c.Ops) > 0 {
		opn = all[c.Ops[0]].group
		opfull = opn + ":" + all[c.Ops[0]].name
	}
	single := len(c.Ops) == 1
	verdict := "rejected"
	if accepted {
		verdict = "accepted"
	}
	if replayMode {
		fmt.Printf("InsertBlock returned %v; block stored: %v; verdict: %s\n", ierr, u.n.BC.HasBlock(wire.Hash()), verdict)
	}
	// evidence: which operator / clock position ended how
	if single && c.Clock == 0 {
		r.Add("op["+opfull+"]/"+verdict, 1)
	}
	if c.Clock != 0 {
		r.Add("clock[block.time"+clocks[c.Clock].name+"]/"+verdict, 1)
		if single && opn == "none" && c.Mode == 0 {
			r.Add("clock[block.time"+clocks[c.Clock].name+"]/valid-block/"+verdict, 1)
		}
		r.Outcome("clock/" + clocks[c.Clock].name + "/" + verdict)
	}
	if single && opn == "none" && c.Mode == 0 && c.Clock == 0 {
		r.Add("valid-candidate["+st.name+"/"+cand.name+"]/"+verdict, 1)
	}
	valid, why, hon := validRefH(&dec, nowMs, si)
	if replayMode {
		fmt.Printf("reference: valid=%v %s\n", valid, why)
	}
	if accepted {
		u.clean = false
		if !valid {
			fp := prop + "/invalid-block-accepted/" + why + "/" + strings.Join(c.opNames(all), "+") + "/" + modes[c.Mode] + clockClass(c.Clock)
			// when the UNMUTATED candidate (what the real assembler seals) already fails the reference for
			// this very reason, the operator is not part of the minimal case: one class per candidate
			if bok, bwhy := baseVerdict(st, c.Cand, si); !bok && bwhy == why {
				fp = prop + "/invalid-block-accepted/" + why + "/unmutated-candidate:" + cand.name
			}
			r.Violate(fp, fmt.Sprintf("accepted although %s: %s", why, desc), c)
		}
		r.Outcome("accepted/" + opn + "/" + modes[c.Mode])
		r.Add("accepted", 1)
		if isSnapshotHeight(dec.Height()) {
			if u = probeTermLoad(u, &dec, desc, c, r); u == nil {
				return nil
			}
		}
	} else {
		after := u.snapshot()
		if after != before {
			u.clean = false
			r.Violate(prop+"/rejection-changed-state/"+diffLine(before, after)+"/"+opn, fmt.Sprintf("rejected block changed the node (%s): %s\nbefore:\n%s\nafter:\n%s", diffLine(before, after), desc, before, after), c)
		}
		r.Outcome("rejected/" + opn + "/" + modes[c.Mode])
		r.Add("rejected", 1)
		if known {
			r.Add("known-block-reinserted/unchanged", 1)
		}
		// Oracle 3: a block that satisfies every clause of the statement is not refused, provided the
		// node can judge it at all (it is above the stable height and the signing term is loaded).
		termLoaded := dec.Height() < termDur+interim+1 || si.stable.Height() >= (dec.Height()-interim-1)/termDur*termDur
		// (only for a block that looks the way an honest miner sends it, see asSent: e.g. a body whose
		// change logs do not hash to the header's LogRoot is rightly refused although the header is the honest one)
		if valid {
			if sent, how := asSent(&dec, hon); !sent {
				valid = false
				r.Add("valid-header-not-as-an-honest-miner-sends-it/rejected("+how+")", 1)
			}
		}
		if valid && dec.Height() > si.stable.Height() && termLoaded {
			fp := prop + "/valid-block-rejected/" + strings.Join(c.opNames(all), "+") + "/" + modes[c.Mode] + clockClass(c.Clock)
			// when what the real assembler seals for this candidate fails the reference, every operator
			// combination that REPAIRS it is the same case: one class per candidate
			if bok, bwhy := baseVerdict(st, c.Cand, si); !bok {
				fp = prop + "/valid-block-rejected/corrected-version-of-unmutated-candidate:" + cand.name + "(" + bwhy + ")"
			}
			r.Violate(fp, fmt.Sprintf("rejected (%v) although the block satisfies every clause of the statement: %s", ierr, desc), c)
		}
		if valid && !(dec.Height() > si.stable.Height() && termLoaded) {
			r.Add("valid-but-not-judgeable(term not loaded / not above stable)", 1)
		}
	}
	return u
}

var baseVerdicts = map[string][2]string{}

// baseVerdict: the reference's verdict on the UNMUTATED candidate at the default clock.
func baseVerdict(st state, ci int, si *stInfo) (bool, string) {
	k := fmt.Sprintf("%s/%d", st.name, ci)
	if v, ok := baseVerdicts[k]; ok {
		return v[0] == "ok", v[1]
	}
	base := baseBlock(st, ci)
	ok, why := validRef(node.Wire(base), int64(base.Time())*1000+clocks[0].offMs, si)
	baseVerdicts[k] = [2]string{map[bool]string{true: "ok", false: "no"}[ok], why}
	return ok, why
}

func clockClass(i int) string {
	if i == 0 {
		return ""
	}
	return "/clock=block.time" + clocks[i].name
}

// probeTermLoad: an accepted snapshot block is what every node loads the next term from once it is
// stable. Deliver one more deputy's confirm and watch the node digest it.
func probeTermLoad(u *nut, b *types.Block, desc string, c caseID, r *core.Result) *nut {
	var signer *node.Key
	for _, d := range refDeputies(tr, b.Height(), tr.byHash[b.ParentHash()]) {
		if d.Addr != b.MinerAddress() {
			signer = keyOfDep(d)
			break
		}
	}
	if signer == nil {
		return u
	}
	u.n.Use()
	poisoned := false
	func() {
		defer func() {
			if p := recover(); p != nil {
				poisoned = true
				r.Violate(prop+"/accepted-snapshot-block-cannot-become-stable/panic:"+firstWords(fmt.Sprint(p)), fmt.Sprintf("the accepted snapshot block made the node panic (%v) when a second deputy's confirm made it stable: %s\ndeputy list in the block: %s", p, desc, b.DeputyNodes), c)
			}
		}()
		u.n.BC.InsertConfirms(b.Height(), b.Hash(), []types.SignData{node.SignConfirm(signer, b.Hash())})
		drain(u.n)
	}()
	if poisoned {
		if replayMode {
			// what a restart would do: the deputy manager reloads every term from the stable snapshot blocks
			func() {
				defer func() {
					if p := recover(); p != nil {
						fmt.Printf("after the panic the snapshot block IS the stable block (%v); building a deputy manager from this database (what a restart does) panics again: %v\n", u.n.BC.StableBlock().Hash() == b.Hash(), p)
					}
				}()
				deputynode.NewManager(nDep, u.n.DB)
				fmt.Println("a deputy manager can be built from this database")
			}()
		}
		os.RemoveAll(u.n.Dir)
		return nil
	}
	if u.n.BC.StableBlock().Hash() == b.Hash() {
		r.Add("accepted-snapshot-block/became-stable-and-term-loaded", 1)
		got := u.n.DM.GetDeputiesByHeight(b.Height()+interim+1, true)
		want := refTop(b.ParentHash())
		same := len(got) == len(want)
		for i := 0; same && i < len(got); i++ {
			same = got[i].MinerAddress == want[i].Addr && string(got[i].NodeID) == string(want[i].NodeID) && got[i].Rank == uint32(i)
		}
		if !same {
			r.Violate(prop+"/loaded-term-differs-from-reference", fmt.Sprintf("the term loaded from the accepted snapshot block is %s, the reference elects %v: %s", got, want, desc), c)
		}
	}
	return u
}

func firstWords(s string) string {
	f := strings.Fields(s)
	if len(f) > 6 {
		f = f[:6]
	}
	return strings.Join(f, " ")
}

func diffLine(a, b string) string {
	al, bl := strings.Split(a, "\n"), strings.Split(b, "\n")
	for i := range al {
		if i >= len(bl) || al[i] != bl[i] {
			f := strings.Fields(al[i])
			if len(f) > 0 {
				k := f[0]
				if j := strings.IndexAny(k, "=@"); j > 0 {
					k = k[j:]
					if strings.HasPrefix(k, "@") {
						return "account-state"
					}
					return f[0][:strings.IndexAny(f[0], "=@")]
				}
				return "stored-blocks"
			}
		}
	}
	return "?"
}

func enumerate(all []op) []caseID {
	var cases []caseID
	for si, st := range states {
		for ci, cand := range candidates[st.name] {
			snapCand := strings.HasPrefix(cand.name, "snapshot")
			for oi := range all {
				if all[oi].group == "snapshot" && !snapCand {
					continue
				}
				for mi := range modes {
					for _, fr := range []bool{false, true} {
						if fr && all[oi].group != "txs" && all[oi].group != "logs" {
							continue
						}
						for _, dr := range []bool{false, true} {
							if dr && all[oi].group != "snapshot" {
								continue
							}
							cases = append(cases, caseID{State: si, Cand: ci, Ops: []int{oi}, Mode: mi, FixRoots: fr, DepRoot: dr})
						}
					}
					// the node's clock around the block's timestamp: the valid block and every time operator
					if all[oi].group == "none" || all[oi].group == "time" {
						for ki := 1; ki < len(clocks); ki++ {
							cases = append(cases, caseID{State: si, Cand: ci, Ops: []int{oi}, Mode: mi, Clock: ki})
						}
					}
				}
			}
			if core.Thorough() {
				// all pairs of operators from different groups, re-signed by the miner or by another deputy
				for a := range all {
					for b := a + 1; b < len(all); b++ {
						if all[a].group == all[b].group || all[a].group == "none" {
							continue
						}
						if (all[a].group == "snapshot" || all[b].group == "snapshot") && !snapCand {
							continue
						}
						for _, mi := range []int{1, 2} {
							cases = append(cases, caseID{State: si, Cand: ci, Ops: []int{a, b}, Mode: mi, FixRoots: true, DepRoot: all[a].group == "snapshot" || all[b].group == "snapshot"})
						}
					}
				}
				// pairs of operators that touch only un-hashed body parts or the signature encoding, original signature kept
				bodyOnly := map[string]bool{"txs": true, "logs": true, "confirms": true, "deputies": true, "snapshot": true, "sig": true, "known": true}
				for a := range all {
					for b := a + 1; b < len(all); b++ {
						if all[a].group == all[b].group || !bodyOnly[all[a].group] || !bodyOnly[all[b].group] {
							continue
						}
						if (all[a].group == "snapshot" || all[b].group == "snapshot") && !snapCand {
							continue
						}
						cases = append(cases, caseID{State: si, Cand: ci, Ops: []int{a, b}, Mode: 0})
					}
				}
				// all pairs again at the two clock positions on either side of the tolerance, re-signed by the miner
				for a := range all {
					for b := a + 1; b < len(all); b++ {
						if all[a].group == all[b].group || all[a].group == "none" {
							continue
						}
						if (all[a].group == "snapshot" || all[b].group == "snapshot") && !snapCand {
							continue
						}
						for _, ki := range []int{2, 3} {
							cases = append(cases, caseID{State: si, Cand: ci, Ops: []int{a, b}, Mode: 1, FixRoots: true, DepRoot: all[a].group == "snapshot" || all[b].group == "snapshot", Clock: ki})
						}
					}
				}
				// every operator at every clock position, re-signed by the miner
				for oi := range all {
					if all[oi].group == "snapshot" && !snapCand || all[oi].group == "none" || all[oi].group == "time" {
						continue
					}
					for ki := 1; ki < len(clocks); ki++ {
						cases = append(cases, caseID{State: si, Cand: ci, Ops: []int{oi}, Mode: 1, FixRoots: all[oi].group == "txs" || all[oi].group == "logs", DepRoot: all[oi].group == "snapshot", Clock: ki})
					}
				}
			}
		}
	}
	return cases
}

func main() {
	core.ParseFlags()
	node.Quiet()
	params.TermDuration, params.InterimDuration = termDur, interim
	vclock.SetUnix(lateClock)
	vtask.SetPolicy(vtask.Gated, "runFeedTranspondLoop", vtask.Drop)
	all := ops()
	cases := enumerate(all)
	if core.Opt.Replay != "" {
		var c caseID
		if err := core.LoadReplay(core.Opt.Replay, &c); err != nil {
			fmt.Println(err)
			os.Exit(2)
		}
		replayMode = true
		tr = buildTree()
		r := core.NewResult(prop, "exploration")
		fmt.Println("replay", c.String(all))
		u := runCase(nil, c, all, r)
		if u != nil {
			u.n.Destroy()
		}
		tr.f.Destroy()
		for _, v := range r.Violations {
			fmt.Printf("VIOLATION-REPLAYED %s\n%s\n", v.Fingerprint, v.What)
		}
		if len(r.Violations) > 0 {
			os.Exit(1)
		}
		return
	}
	if i, n, ok := core.IsWorker(); ok {
		r := core.NewResult(prop, "exploration")
		var u *nut
		cur := "building the block trees"
		// a panic of the code under test outside InsertBlock (while the honest chain is sealed or
		// delivered) and a refused honest block are findings of their own, not a dead worker
		defer func() {
			if p := recover(); p != nil {
				if sb, ok := p.(stateBlockRejected); ok {
					r.Violate(prop+"/valid-block-rejected/honest-chain-block:"+sb.block, fmt.Sprintf("while state %s was built the node refused the honest block %s (%s)", sb.state, sb.block, sb.err), cases[0])
				} else if s := fmt.Sprint(p); strings.HasPrefix(s, "harness:") {
					panic(p)
				} else {
					r.Violate(prop+"/panic-outside-InsertBlock/"+firstWords(s), fmt.Sprintf("panic (%v) while %s\n%s", p, cur, clipTail(string(debug.Stack()))), cases[0])
				}
				r.NotExhaustive("worker stopped by a panic / a refused honest block: see violations")
				core.WorkerDone(r)
			}
		}()
		tr = buildTree()
		for k := i; k < len(cases); k += n {
			cur = "running case {" + cases[k].String(all) + "}"
			// group by state so that one node serves many cases: stride over the sorted list keeps states contiguous enough
			core.Journal(cases[k].String(all))
			u = runCase(u, cases[k], all, r)
			r.Add("evaluations", 1)
			if k%997 == 0 {
				r.Sample(cases[k].String(all))
			}
			if core.OutOfTime() {
				r.NotExhaustive(fmt.Sprintf("internal deadline at case %d of %d", k, len(cases)))
				break
			}
		}
		if u != nil {
			u.n.Destroy()
		}
		tr.f.Destroy()
		core.WorkerDone(r)
	}
	r := core.NewResult(prop, "exploration")
	nc := 0
	for _, st := range states {
		nc += len(candidates[st.name])
	}
	groups := map[string]int{}
	var gl []string
	for _, o := range all {
		if groups[o.group] == 0 {
			gl = append(gl, o.group)
		}
		groups[o.group]++
	}
	for i, g := range gl {
		gl[i] = fmt.Sprintf("%s:%d", g, groups[g])
	}
	r.Rule = fmt.Sprintf("every single mutation operator (%d operators, groups %s; group snapshot only on snapshot-height candidates, each with the DeputyRoot kept and recomputed) x %d signing modes x {tx/log roots recomputed or not} on %d (chain state, valid candidate block) pairs from %d chain states (ordinary heights, forks, after a stable advance, a pruned fork, and a term change: snapshot height, the block after it, first and second block of the new term); the valid block and every time operator additionally at %d positions of the node's clock relative to the block's timestamp (-2 s .. +2 s, millisecond parts 0 and 999); thorough adds all pairs of operators from different groups re-signed by the miner / another deputy, all pairs of body-only operators with the original signature, all pairs at the two clock positions around the tolerance, and every operator at every clock position; an outcome is (verdict, operator group, signing mode) or (clock position, verdict)", len(all), strings.Join(gl, " "), len(modes), nc, len(states), len(clocks)-1)
	r.Assume = []string{
		"3 genesis deputies, 10 s slots, observer node; the node's clock is the harness's virtual clock (instrumenter pass `time` on chain and chain/consensus): 61 s (two rounds and a second) after the candidate's timestamp unless the case names a clock position",
		fmt.Sprintf("params.TermDuration=%d, params.InterimDuration=%d for the whole process (snapshot height %d, the new term signs from height %d); 3 deputy seats, 7 registered candidates with votes {~150000, ~60000, 50000 x3 (tie broken by address: one above, two below the cut), ~10000, 0}; the elected list differs from the ranking one block earlier", termDur, interim, termDur, termDur+interim+1),
		"gasLimit and extra are the miner's free choices (validRef re-executes with the block's own values)",
		"oracle 3 (a block satisfying every clause is not refused) reads the statement's one-second tolerance as granted, not merely permitted; it is only applied above the stable height, when the signing term can be known to the node, and to blocks that look the way an honest miner sends them (honest body, clean confirms, canonical signature encoding)",
	}
	r.Extra["cases"] = len(cases)
	core.RunShards(r, core.Opt.Workers, nil, core.Opt.Budget+2*time.Minute, func(i int, tail, journal string) {
		r.Violate(prop+"/worker-died/"+firstWords(lastPanicLine(tail)), fmt.Sprintf("worker %d died while running case {%s}:\n%s", i, journal, clipTail(tail)), map[string]string{"case": journal})
	})
	coverage(r, all)
	core.Finish(r)
}

// coverage: the branches the extension is about must have been executed on both sides; otherwise
// the run does not count as exhaustive.
func coverage(r *core.Result, all []op) {
	if !r.Exhaustive {
		return
	}
	need := func(counter string) {
		if r.Counters[counter] == 0 {
			r.NotExhaustive("coverage: counter " + counter + " is zero")
		}
	}
	for i := 1; i < len(clocks); i++ {
		v := "accepted"
		if clocks[i].offMs < -1000 {
			v = "rejected"
		}
		need("clock[block.time" + clocks[i].name + "]/valid-block/" + v)
	}
	for _, st := range states {
		for _, cand := range candidates[st.name] {
			switch cand.name {
			case "tx-on-pruned-fork", "first-of-new-term(term not loaded)", "sibling-of-stable-block":
				need("valid-candidate[" + st.name + "/" + cand.name + "]/rejected")
			case "snapshot-with-vote-for-rank2":
				// what the engine seals here is the subject of a finding; either verdict counts as executed
				if r.Counters["valid-candidate["+st.name+"/"+cand.name+"]/accepted"]+r.Counters["valid-candidate["+st.name+"/"+cand.name+"]/rejected"] == 0 {
					need("valid-candidate[" + st.name + "/" + cand.name + "]/accepted")
				}
			default:
				need("valid-candidate[" + st.name + "/" + cand.name + "]/accepted")
			}
		}
	}
	hit := map[string]int64{}
	for _, o := range all {
		k := "op[" + o.group + ":" + o.name + "]/"
		hit[o.group] += r.Counters[k+"accepted"] + r.Counters[k+"rejected"]
		if r.Counters[k+"accepted"]+r.Counters[k+"rejected"]+r.Counters[k+"assembler-refuses-to-package"] == 0 {
			r.NotExhaustive("coverage: operator " + o.group + ":" + o.name + " was never applied")
		}
	}
	r.Extra["operator_applications_by_group(single, default clock)"] = hit
	need("op[extra:extra=256]/accepted")
	need("op[extra:extra=257]/rejected")
	need("op[time:time=now+1]/accepted")
	need("op[time:time=now+2]/rejected")
	need("known-block-reinserted/unchanged")
	need("accepted-snapshot-block/became-stable-and-term-loaded")
}

func lastPanicLine(tail string) string {
	for _, l := range strings.Split(tail, "\n") {
		if strings.HasPrefix(l, "panic:") || strings.HasPrefix(l, "fatal error:") {
			return l
		}
	}
	return "no panic line"
}

func clipTail(s string) string {
	if len(s) > 3000 {
		s = s[:3000]
	}
	return s
}

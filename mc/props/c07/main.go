// C07 — the change journal is faithful: exact revert at any nesting, redo reproduces the block.
//
// Engine E2 (explicit-state BFS over event histories) on the real account.Manager over a real
// ChainDatabase. Events are SafeAccount setters, Snapshot, RevertToSnapshot(i) for every live
// revision, reads (which populate the storage caches) and end-of-block (MergeChangeLogs+Finalise).
//
// Oracles (evaluated on the last event of every explored history; all prefixes are explored as
// histories of their own, so every step of every history is checked exactly once):
//   - no event panics or returns an unexpected error (RevertToSnapshot "never fails");
//   - after RevertToSnapshot(i) the observation through every public getter of every account, and the
//     journal length, equal those of a twin instance that replayed the history only up to the
//     Snapshot that created i (the twin is the reference model: a persistent copy of the state);
//   - after end-of-block, redoing the published change logs on a fresh manager over the same parent
//     (Manager.RebuildAll, the light-node path) gives the same observation for every attribute that
//     redo defines;
//   - after end-of-block, the published change logs (byte for byte, in their consensus encoding) and
//     the observation incl. all roots equal those of a reference run that executed only the events
//     NOT undone by a revert ("a transaction the miner discards leaves no trace at all").
package main

import (
	"fmt"
	"math/big"
	"os"
	"sort"
	"strconv"
	"strings"

	"verifmc/core"
	"verifmc/node"

	"github.com/LemoFoundationLtd/lemochain-core/chain/account"
	"github.com/LemoFoundationLtd/lemochain-core/chain/types"
	"github.com/LemoFoundationLtd/lemochain-core/common"
	"github.com/LemoFoundationLtd/lemochain-core/common/rlp"
	"github.com/LemoFoundationLtd/lemochain-core/store"
)

const prop = "C07"

var (
	addrs = map[string]common.Address{}
	k0    = common.HexToHash("0x01")
	k1    = common.HexToHash("0x02")
	c0    = common.HexToHash("0xc0")
	c1    = common.HexToHash("0xc1")
	i0    = common.HexToHash("0x10")
	i1    = common.HexToHash("0x11")

	db       *store.ChainDatabase
	baseHash common.Hash
	dbDir    string
)

func mkAsset(n int) *types.Asset {
	return &types.Asset{Category: 1, IsDivisible: true, AssetCode: c0, Decimal: 2, TotalSupply: big.NewInt(int64(5 * n)), IsReplenishable: true,
		Issuer: addrs["A"], Profile: types.Profile{"name": fmt.Sprintf("n%d", n), "freeze": "false"}}
}

func mkEquity(id common.Hash, n int64) *types.AssetEquity {
	return &types.AssetEquity{AssetCode: c0, AssetId: id, Equity: big.NewInt(n)}
}

func must(err error) {
	if err != nil {
		panic(err)
	}
}

// setup creates the per-process database: genesis + a base block 1 in which A and C carry
// non-trivial state of every kind, so that "old values" are real and storage reads go to tries.
func setup() {
	node.Quiet()
	for _, n := range []string{"A", "B", "C", "S1", "S2"} {
		addrs[n] = node.K("c07-" + n).Addr
	}
	dbDir = core.ScratchDir("c07")
	db = node.OpenDB(dbDir)
	g := node.SetupGenesis(db, 1)
	am := account.NewManager(g.Hash(), db)
	a := am.GetAccount(addrs["A"])
	a.SetBalance(big.NewInt(10))
	must(a.SetStorageState(k0, []byte{0xaa}))
	must(a.SetAssetCode(c0, mkAsset(1)))
	must(a.SetAssetIdState(i0, "meta0"))
	must(a.SetEquityState(i0, mkEquity(i0, 7)))
	a.SetCandidate(types.Profile{"isCandidate": "true", "host": "h0"})
	a.SetVotes(big.NewInt(3))
	a.SetVoteFor(addrs["A"])
	must(a.SetSingers(types.Signers{{Address: addrs["S1"], Weight: 50}, {Address: addrs["S2"], Weight: 50}}))
	c := am.GetAccount(addrs["C"])
	c.SetBalance(big.NewInt(4))
	c.SetCode(types.Code{0x60, 0x00})
	must(c.SetStorageState(k0, []byte{0xcc}))
	must(c.SetEquityState(i0, mkEquity(i0, 2)))
	am.MergeChangeLogs()
	must(am.Finalise())
	header := &types.Header{ParentHash: g.Hash(), MinerAddress: node.Deputy(0).Addr, Height: 1, GasLimit: g.Header.GasLimit,
		Time: g.Header.Time + 1, VersionRoot: am.GetVersionRoot(), LogRoot: am.GetChangeLogs().MerkleRootSha(),
		TxRoot: (types.Transactions{}).MerkleRootSha()}
	blk := types.NewBlock(header, nil, am.GetChangeLogs())
	baseHash = blk.Hash()
	must(db.SetBlock(baseHash, blk))
	must(am.Save(baseHash))
}

// ---------------------------------------------------------------------------------------------

var scenarios = map[string][]string{
	// broad alphabets (several attribute kinds interacting)
	"S1": {"bal A 1", "bal A 2", "bal B 1", "st A k0 -", "st A k0 v1", "st A k0 v2", "st A k1 v1", "st B k0 v1", "code B c1", "read A", "read B"},
	"S2": {"ac A c1 3", "acs A c0 name y", "acs A c1 name z", "acts A c0 9", "acts A c1 4", "aid A i0 m2", "aid A i1 m3", "eq A i0 9", "eq A i0 nil", "eq A i1 4", "eq B i0 1", "read A"},
	"S3": {"cand A p1", "cand A empty", "cs A host h2", "cs A isCandidate false", "votes A 0", "votes A 5", "vf A B", "vf A zero", "vf B A", "votes B 1", "sign A none", "sign A one", "sign B two", "read A"},
	"S4": {"sui C", "ev C 1", "ev B 2", "bal C 1", "bal C 9", "st C k0 v1", "st C k1 v2", "code B c1", "eq C i0 5", "read C", "read B"},
	// narrow alphabets explored deeper (nesting of snapshots and reverts over one or two log kinds)
	"D1": {"bal A 1", "bal A 2"},
	"D2": {"st A k0 v1", "st A k0 -", "read A"},
	"D3": {"eq B i0 1", "eq B i0 nil", "eq A i0 9"},
	"D4": {"acts A c0 9", "acs A c0 name y"},
	"D5": {"votes A 5", "vf A B", "cs A isCandidate false"},
	"D6": {"sign A one", "cand A p1"},
	"D7": {"sui C", "bal C 1", "eq C i0 5"},
	"D8": {"code B c1", "bal B 1", "ev B 2"},
	"D9": {"aid A i1 m3", "ac A c1 3", "acts A c1 4"},
	// an account whose four trie roots are still zero: first-ever writes into each trie, undone or not,
	// next to another change of the same account (so that end-of-block processes the account)
	"D10": {"st B k0 v1", "st B k0 -", "bal B 1"},
	"D11": {"eq B i0 1", "eq B i0 nil", "bal B 1"},
	"D12": {"ac B c1 3", "aid B i1 m3", "bal B 1"},
}

var deep = map[string]bool{"D1": true, "D2": true, "D3": true, "D4": true, "D5": true, "D6": true, "D7": true, "D8": true, "D9": true, "D10": true, "D11": true, "D12": true}

// enabledEvent restricts the alphabet to sequences the system can produce (see DESIGN.md, C07):
// code is written once per address (EVM.Create refuses an address that has code), SELFDESTRUCT is a
// no-op on an already destroyed contract and a destroyed contract runs no code (no SSTORE), a
// candidate-state key is only rewritten on a profile that has it, an asset code is created once.
func enabledEvent(am *account.Manager, ev string) bool {
	f := strings.Fields(ev)
	if len(f) < 2 {
		return true
	}
	acc := am.GetAccount(addrs[f[1]])
	switch f[0] {
	case "code":
		return acc.GetCodeHash() == (common.Hash{}) || acc.GetCodeHash() == common.Sha3Nil
	case "sui":
		return !acc.GetSuicide()
	case "st":
		return !acc.GetSuicide()
	case "cs":
		_, ok := acc.GetCandidate()[f[2]]
		return ok
	case "ac":
		_, err := acc.GetAssetCode(hashArg(f[2]))
		return err == types.ErrAssetNotExist
	case "acs", "acts":
		// ModifyAssetTx / IssueAssetTx / ReplenishAssetTx are refused unless the asset exists
		_, err := acc.GetAssetCode(hashArg(f[2]))
		return err == nil
	}
	return true
}

const maxSnap = 3

func hashArg(s string) common.Hash {
	switch s {
	case "k0":
		return k0
	case "k1":
		return k1
	case "c0":
		return c0
	case "c1":
		return c1
	case "i0":
		return i0
	case "i1":
		return i1
	}
	panic("bad hash arg " + s)
}

func bytesArg(s string) []byte {
	switch s {
	case "-":
		return nil
	case "v1":
		return []byte{0x11}
	case "v2":
		return []byte{0x22, 0x22}
	}
	panic("bad bytes arg " + s)
}

// apply executes one event on am. Returned errors are the setters' own error returns.
func apply(am *account.Manager, ev string) error {
	f := strings.Fields(ev)
	switch f[0] {
	case "snap":
		am.Snapshot()
		return nil
	case "rev":
		id, _ := strconv.Atoi(f[1])
		am.RevertToSnapshot(id)
		return nil
	case "fin":
		am.MergeChangeLogs()
		return am.Finalise()
	}
	acc := am.GetAccount(addrs[f[1]])
	switch f[0] {
	case "bal":
		n, _ := strconv.Atoi(f[2])
		acc.SetBalance(big.NewInt(int64(n)))
	case "st":
		return acc.SetStorageState(hashArg(f[2]), bytesArg(f[3]))
	case "code":
		acc.SetCode(types.Code{0x60, 0x01, 0x00})
	case "ac":
		if f[3] == "nil" {
			return acc.SetAssetCode(hashArg(f[2]), nil)
		}
		n, _ := strconv.Atoi(f[3])
		as := mkAsset(n)
		as.AssetCode = hashArg(f[2])
		return acc.SetAssetCode(hashArg(f[2]), as)
	case "acs":
		return acc.SetAssetCodeState(hashArg(f[2]), f[3], f[4])
	case "acts":
		n, _ := strconv.Atoi(f[3])
		return acc.SetAssetCodeTotalSupply(hashArg(f[2]), big.NewInt(int64(n)))
	case "aid":
		return acc.SetAssetIdState(hashArg(f[2]), f[3])
	case "eq":
		if f[3] == "nil" {
			return acc.SetEquityState(hashArg(f[2]), nil)
		}
		n, _ := strconv.Atoi(f[3])
		return acc.SetEquityState(hashArg(f[2]), mkEquity(hashArg(f[2]), int64(n)))
	case "cand":
		if f[2] == "empty" {
			acc.SetCandidate(types.Profile{})
		} else {
			acc.SetCandidate(types.Profile{"isCandidate": "true", "host": "h1", "port": "7002"})
		}
	case "cs":
		acc.SetCandidateState(f[2], f[3])
	case "votes":
		n, _ := strconv.Atoi(f[2])
		acc.SetVotes(big.NewInt(int64(n)))
	case "vf":
		if f[2] == "zero" {
			acc.SetVoteFor(common.Address{})
		} else {
			acc.SetVoteFor(addrs[f[2]])
		}
	case "sign":
		switch f[2] {
		case "none":
			return acc.SetSingers(types.Signers{})
		case "one":
			return acc.SetSingers(types.Signers{{Address: addrs["S1"], Weight: 100}})
		case "two":
			return acc.SetSingers(types.Signers{{Address: addrs["S1"], Weight: 60}, {Address: addrs["S2"], Weight: 40}})
		}
	case "sui":
		acc.SetSuicide(true)
	case "ev":
		n, _ := strconv.Atoi(f[2])
		am.AddEvent(&types.Event{Address: addrs[f[1]], Topics: []common.Hash{k0}, Data: []byte{byte(n)}})
	case "read":
		observeOne(am, addrs[f[1]], true)
	default:
		panic("unknown event " + ev)
	}
	return nil
}

func errStr(err error) string {
	if err == nil {
		return ""
	}
	return "!" + err.Error()
}

func normHash(h common.Hash) string {
	if h == (common.Hash{}) || h == common.Sha3Nil {
		return "empty"
	}
	return h.Hex()[:10]
}

// observeOne reads every public getter of one account. roots=false leaves out what redo of the
// published logs does not define (roots are recomputed by Finalise, not by redo).
func observeOne(am *account.Manager, addr common.Address, roots bool) string {
	a := am.GetAccount(addr)
	var sb strings.Builder
	code, cerr := a.GetCode()
	fmt.Fprintf(&sb, "\x1fbal=%s\x1fcode=%x%s\x1fsuicide=%v", a.GetBalance(), []byte(code), errStr(cerr), a.GetSuicide())
	if roots {
		// an absent code hash is written either as 0 or as keccak(""); both mean "no code"
		fmt.Fprintf(&sb, "\x1fcodeHash=%s\x1fsroot=%s\x1facroot=%s\x1fairoot=%s\x1feqroot=%s", normHash(a.GetCodeHash()), normHash(a.GetStorageRoot()),
			normHash(a.GetAssetCodeRoot()), normHash(a.GetAssetIdRoot()), normHash(a.GetEquityRoot()))
	}
	for _, k := range []common.Hash{k0, k1} {
		v, err := a.GetStorageState(k)
		fmt.Fprintf(&sb, "\x1fst[%x]=%x%s", k[31], v, errStr(err))
	}
	for _, c := range []common.Hash{c0, c1} {
		as, err := a.GetAssetCode(c)
		if err != nil {
			fmt.Fprintf(&sb, "\x1fac[%x]=%s", c[31], errStr(err))
		} else {
			pk := make([]string, 0)
			for k, v := range as.Profile {
				pk = append(pk, k+"="+v)
			}
			sort.Strings(pk)
			fmt.Fprintf(&sb, "\x1fac[%x]={%d %v %x %d %s %v %x %v}", c[31], as.Category, as.IsDivisible, as.AssetCode[31], as.Decimal, as.TotalSupply, as.IsReplenishable, as.Issuer[18:], pk)
		}
		ts, err := a.GetAssetCodeTotalSupply(c)
		fmt.Fprintf(&sb, "\x1fts[%x]=%v%s", c[31], ts, errStr(err))
		nm, err := a.GetAssetCodeState(c, "name")
		fmt.Fprintf(&sb, "\x1facs[%x]=%s%s", c[31], nm, errStr(err))
	}
	for _, i := range []common.Hash{i0, i1} {
		s, err := a.GetAssetIdState(i)
		if err == types.ErrAssetIdNotExist {
			// an absent id and an id with empty metadata are the same to every consumer (the trie stores neither)
			s, err = "", nil
		}
		fmt.Fprintf(&sb, "\x1faid[%x]=%s%s", i[31], s, errStr(err))
		e, err := a.GetEquityState(i)
		if err != nil {
			fmt.Fprintf(&sb, "\x1feq[%x]=%s", i[31], errStr(err))
		} else {
			fmt.Fprintf(&sb, "\x1feq[%x]={%x %x %s}", i[31], e.AssetCode[31], e.AssetId[31], e.Equity)
		}
	}
	pk := make([]string, 0)
	for k, v := range a.GetCandidate() {
		pk = append(pk, k+"="+v)
	}
	sort.Strings(pk)
	fmt.Fprintf(&sb, "\x1fprofile=%v\x1fhost=%s\x1fvotes=%s\x1fvoteFor=%x\x1fsigners=%s", pk, a.GetCandidateState("host"), a.GetVotes(), a.GetVoteFor().Bytes()[18:], a.GetSigners().String())
	// The in-memory event list is not an account attribute named by the property: undoAddEvent is a
	// deliberate no-op and nothing consumes Manager.GetEvents; the AddEventLog itself is covered by
	// the journal-length oracle.
	return sb.String()
}

func observe(am *account.Manager, roots bool) string {
	var sb strings.Builder
	for _, n := range []string{"A", "B", "C"} {
		fmt.Fprintf(&sb, "%s:%s\n", n, observeOne(am, addrs[n], roots))
	}
	return sb.String()
}

// rawKey is the canonical state key: everything the future can depend on, including the caches
// and the version counters, without touching anything (no getter is called).
func rawKey(am *account.Manager, scen string, finished bool) string {
	var sb strings.Builder
	sb.WriteString(scen)
	for _, a := range account.VerifLoadedAddresses(am) {
		sb.WriteString(account.VerifDumpRaw(am, a, true))
		sb.WriteString("\n")
	}
	sb.WriteString(account.VerifJournal(am))
	if finished {
		sb.WriteString("|fin")
	}
	return core.Hash(sb.String())
}

// replay runs events on a fresh manager; a setter error is part of the observable behaviour
// (returned), a panic propagates to the caller.
func replay(evs []string) (*account.Manager, []string) {
	am := account.NewManager(baseHash, db)
	errs := make([]string, len(evs))
	for i, e := range evs {
		if validate {
			ok := enabledEvent(am, e)
			if f := strings.Fields(e); f[0] == "rev" {
				ok = false
				for _, id := range account.VerifRevisions(am) {
					if strconv.Itoa(id) == f[1] {
						ok = true
					}
				}
			}
			if !ok || (i > 0 && evs[i-1] == "fin") {
				panic(errInvalidHistory)
			}
		}
		errs[i] = errStr(apply(am, e))
	}
	return am, errs
}

// validate makes replay reject histories the explorer could not have produced (used while shrinking).
var validate bool
var errInvalidHistory = fmt.Errorf("harness: history not executable")

// class is the kind of violation: the fingerprint without the differing-field list and without
// the minimal-history suffix.
func class(fp string) string {
	if i := strings.Index(fp, "/min="); i >= 0 {
		fp = fp[:i]
	}
	if i := strings.Index(fp, "/fields="); i >= 0 {
		fp = fp[:i]
	}
	return fp
}

// minimise shrinks the failing history of every violation and appends the kinds of the minimal
// history to its fingerprint, so that known findings are matched by their minimal failing trace.
func minimise(o core.Outcome, hist []string, run func([]string) core.Outcome) core.Outcome {
	for vi, v := range o.Violations {
		cl := class(v.Fingerprint)
		validate = true
		min := core.Shrink(hist, 1, removeEvent, func(h []string) (fails bool) {
			defer func() {
				if p := recover(); p != nil {
					fails = false
				}
			}()
			for _, w := range run(h).Violations {
				if class(w.Fingerprint) == cl {
					return true
				}
			}
			return false
		})
		validate = false
		// re-evaluate on the minimal history: its own differing fields and description are the finding
		for _, w := range run(min).Violations {
			if class(w.Fingerprint) == cl {
				v = w
				break
			}
		}
		o.Violations[vi].Fingerprint = class(v.Fingerprint) + fieldsOf(v.Fingerprint) + "/min=" + kindSeq(min[1:])
		o.Violations[vi].Replay = map[string]interface{}{"history": min, "found_as": hist}
		o.Violations[vi].What = v.What
	}
	return o
}

// removeEvent drops event i; dropping a Snapshot renumbers the revision ids used after it.
func removeEvent(h []string, i int) []string {
	cand := append(append([]string{}, h[:i]...), h[i+1:]...)
	if h[i] != "snap" {
		return cand
	}
	id := 0
	for _, e := range h[:i] {
		if e == "snap" {
			id++
		}
	}
	for j := i; j < len(cand); j++ {
		if f := strings.Fields(cand[j]); f[0] == "rev" {
			n, _ := strconv.Atoi(f[1])
			if n == id {
				return nil
			}
			if n > id {
				cand[j] = fmt.Sprintf("rev %d", n-1)
			}
		}
	}
	return cand
}

func fieldsOf(fp string) string {
	if i := strings.Index(fp, "/fields="); i >= 0 {
		return fp[i:]
	}
	return ""
}

func kindSeq(evs []string) string {
	l := make([]string, len(evs))
	for i, e := range evs {
		l[i] = strings.Fields(e)[0]
	}
	return strings.Join(l, ",")
}

func run(hist []string) core.Outcome {
	if len(hist) == 0 {
		en := make([]string, 0)
		for k := range scenarios {
			en = append(en, k)
		}
		sort.Strings(en)
		return core.Outcome{Key: "root", Enabled: en}
	}
	scen := hist[0]
	evs := hist[1:]
	var o core.Outcome
	viol := func(fp, what string) {
		o.Violations = append(o.Violations, core.Violation{Fingerprint: prop + "/" + fp, What: what, Replay: map[string]interface{}{"history": hist}})
	}
	am, errs := replay(evs)
	last := ""
	if len(evs) > 0 {
		last = evs[len(evs)-1]
		if e := errs[len(errs)-1]; e != "" {
			// setter error returns are legitimate only for the asset sub-record setters on a missing asset
			if !(strings.Contains(e, types.ErrAssetNotExist.Error()) && (strings.HasPrefix(last, "acs") || strings.HasPrefix(last, "acts"))) {
				viol("error/"+strings.Fields(last)[0]+"/"+e, fmt.Sprintf("event %q returned %s", last, e))
				return o
			}
			o.Tags = append(o.Tags, "err:"+strings.Fields(last)[0])
		}
	}
	finished := last == "fin"
	o.Key = rawKey(am, scen, finished)
	revs := account.VerifRevisions(am)

	switch {
	case strings.HasPrefix(last, "rev "):
		id, _ := strconv.Atoi(strings.Fields(last)[1])
		// the Snapshot that created id is the (id+1)-th "snap" event of the history
		pos, n := -1, 0
		for i, e := range evs {
			if e == "snap" {
				if n == id {
					pos = i
					break
				}
				n++
			}
		}
		if pos < 0 {
			panic("harness: snapshot event not found")
		}
		twin, _ := replay(evs[:pos+1])
		wantLen := account.VerifJournalLen(twin)
		want := observe(twin, true)
		gotLen := account.VerifJournalLen(am)
		got := observe(am, true)
		if got != want {
			names, detail := diffFields(want, got)
			viol("revert-not-exact/fields="+names, fmt.Sprintf("after %v the state differs from the state at the snapshot:\n%s", evs, detail))
		}
		if gotLen != wantLen {
			viol("revert-journal-length", fmt.Sprintf("journal has %d logs after revert, %d at the snapshot", gotLen, wantLen))
		}
		o.Tags = append(o.Tags, "revert:"+core.Hash(got))
	case finished:
		logs := am.GetChangeLogs()
		blk := &types.Block{Header: &types.Header{ParentHash: baseHash, Height: 2}, ChangeLogs: logs}
		twin := account.NewManager(baseHash, db)
		if err := twin.RebuildAll(blk); err != nil {
			viol("redo-error/"+err.Error(), fmt.Sprintf("RebuildAll of the published logs failed: %v (history %v)", err, evs))
			break
		}
		want := observe(am, false)
		got := observe(twin, false)
		if got != want {
			names, detail := diffFields(want, got)
			viol("redo-differs/fields="+names, fmt.Sprintf("redo of the published change logs differs from execution after %v (want = execution, got = redo):\n%s", evs, detail))
		}
		o.Tags = append(o.Tags, "fin:"+core.Hash(want))
		// no-trace oracle: the block must be the one that the surviving events alone produce
		if eff, undone := surviving(evs[:len(evs)-1]); undone {
			ref, _ := replay(append(eff, "fin"))
			wantLogs, gotLogs := renderLogs(ref.GetChangeLogs()), renderLogs(logs)
			wantObs, gotObs := observe(ref, true), observe(am, true)
			if wantLogs != gotLogs {
				viol("undone-events-leave-trace/logs="+logDiffKinds(ref.GetChangeLogs(), logs), fmt.Sprintf("after %v the published change logs differ from those of the surviving events %v alone:\nwith the undone events : %s\nsurviving events only : %s", evs, eff, gotLogs, wantLogs))
			} else if wantObs != gotObs {
				names, detail := diffFields(wantObs, gotObs)
				viol("undone-events-leave-trace/fields="+names, fmt.Sprintf("after %v the end-of-block state differs from that of the surviving events %v alone:\n%s", evs, eff, detail))
			}
			o.Tags = append(o.Tags, "no-trace-checked")
		}
	}

	if finished {
		return o // end of block: terminal
	}
	limit := broadDepth
	if deep[scen] {
		limit = deepDepth
	}
	if len(evs) >= limit {
		return o
	}
	en := make([]string, 0)
	for _, e := range scenarios[scen] {
		if enabledEvent(am, e) {
			en = append(en, e)
		}
	}
	if len(revs) < maxSnap {
		en = append(en, "snap")
	}
	for _, id := range revs {
		en = append(en, fmt.Sprintf("rev %d", id))
	}
	en = append(en, "fin")
	o.Enabled = en
	return o
}

// surviving returns the events that no revert has undone (snapshots and reverts themselves are
// dropped: they do not write), and whether anything was undone at all. Revision ids are the number
// of Snapshot events before the one that created them.
func surviving(evs []string) (eff []string, undone bool) {
	var snapLen []int // snapLen[id] = len(eff) when revision id was created
	for _, e := range evs {
		f := strings.Fields(e)
		switch f[0] {
		case "snap":
			snapLen = append(snapLen, len(eff))
		case "rev":
			id, _ := strconv.Atoi(f[1])
			if len(eff) > snapLen[id] {
				undone = true
			}
			eff = eff[:snapLen[id]]
		default:
			eff = append(eff, e)
		}
	}
	return append([]string{}, eff...), undone
}

// renderLogs is the list of published logs in their consensus (RLP) encoding.
func renderLogs(logs types.ChangeLogSlice) string {
	var sb strings.Builder
	for _, l := range logs {
		b, err := rlp.EncodeToBytes(l)
		if err != nil {
			fmt.Fprintf(&sb, "[%s %x v%d !%v] ", l.LogType, l.Address.Bytes()[18:], l.Version, err)
			continue
		}
		fmt.Fprintf(&sb, "[%s %x v%d %x] ", l.LogType, l.Address.Bytes()[18:], l.Version, b)
	}
	return sb.String()
}

// logDiffKinds names the log types that are in one list and not in the other (fingerprint part).
func logDiffKinds(want, got types.ChangeLogSlice) string {
	cnt := map[string]int{}
	for _, l := range got {
		b, _ := rlp.EncodeToBytes(l)
		cnt[fmt.Sprintf("%s|%x", l.LogType, b)]++
	}
	for _, l := range want {
		b, _ := rlp.EncodeToBytes(l)
		cnt[fmt.Sprintf("%s|%x", l.LogType, b)]--
	}
	set := map[string]bool{}
	for k, n := range cnt {
		t := k[:strings.Index(k, "|")]
		if n > 0 {
			set["+"+t] = true
		} else if n < 0 {
			set["-"+t] = true
		}
	}
	l := make([]string, 0)
	for k := range set {
		l = append(l, k)
	}
	sort.Strings(l)
	return strings.Join(l, ",")
}

// diffFields names the observation fields that differ (part of the fingerprint) and renders them.
func diffFields(want, got string) (names string, detail string) {
	wl, gl := strings.Split(want, "\n"), strings.Split(got, "\n")
	set := map[string]bool{}
	var sb strings.Builder
	for i := range wl {
		if i >= len(gl) {
			break
		}
		wf, gf := strings.Split(wl[i], "\x1f"), strings.Split(gl[i], "\x1f")
		wm, gm := map[string]string{}, map[string]string{}
		split := func(fs []string, m map[string]string) {
			for n, f := range fs[1:] {
				k := f
				if p := strings.IndexByte(f, '='); p > 0 {
					k = f[:p]
				}
				if k == "event" {
					k = fmt.Sprintf("event%d", n)
				}
				m[k] = f
			}
		}
		if len(wf) > 0 && len(gf) > 0 {
			split(wf, wm)
			split(gf, gm)
		}
		for k, v := range wm {
			if gm[k] != v {
				nm := k
				if strings.HasPrefix(nm, "event") {
					nm = "event"
				}
				set[nm] = true
				fmt.Fprintf(&sb, "  %s want %q got %q\n", wf[0], v, gm[k])
			}
		}
		for k, v := range gm {
			if _, ok := wm[k]; !ok {
				nm := k
				if strings.HasPrefix(nm, "event") {
					nm = "event"
				}
				set[nm] = true
				fmt.Fprintf(&sb, "  %s want (absent) got %q\n", gf[0], v)
			}
		}
	}
	l := make([]string, 0)
	for k := range set {
		l = append(l, k)
	}
	sort.Strings(l)
	return strings.Join(l, "+"), sb.String()
}

// undoneKinds lists the kinds of events between the snapshot and the revert (fingerprint part).
func kinds(evs []string) string {
	set := map[string]bool{}
	for _, e := range evs {
		set[strings.Fields(e)[0]] = true
	}
	l := make([]string, 0)
	for k := range set {
		l = append(l, k)
	}
	sort.Strings(l)
	return strings.Join(l, ",")
}

var broadDepth, deepDepth = 4, 7

func main() {
	core.ParseFlags()
	if core.Thorough() {
		broadDepth, deepDepth = 6, 9
	}
	safe := core.SafeRun(prop, run)
	if core.Opt.Worker == "serve" || core.Opt.Replay != "" {
		setup()
		defer os.RemoveAll(dbDir)
	}
	if core.Opt.Replay != "" {
		var rp struct {
			History []string `json:"history"`
		}
		must(core.LoadReplay(core.Opt.Replay, &rp))
		o := safe(rp.History)
		fmt.Printf("replay %v\n", rp.History)
		for _, v := range o.Violations {
			fmt.Printf("VIOLATION-REPLAYED %s\n%s\n", v.Fingerprint, v.What)
		}
		os.RemoveAll(dbDir)
		if len(o.Violations) > 0 {
			os.Exit(1)
		}
		return
	}
	core.ServeIfWorker(func(h []string) core.Outcome {
		o := safe(h)
		if len(o.Violations) > 0 {
			o = minimise(o, h, safe)
		}
		return o
	})
	r := core.NewResult(prop, "model_checking")
	r.Rule = "BFS over event histories on the real account.Manager (4 scenario alphabets: balance/storage/code, assets, candidate/votes/signers, suicide/events; plus Snapshot, RevertToSnapshot(i) for every live revision, reads, end-of-block); states are distinct (raw account dump incl. caches and version counters, journal, revision stack); a distinct outcome is a distinct post-revert or post-finalise observation"
	r.Assume = []string{"suicide is only applied to accounts without issued-asset records (a contract cannot sign asset transactions)",
		"an absent code hash may be written as zero or as keccak(\"\")"}
	r.Extra["broad_depth"] = broadDepth
	r.Extra["deep_depth"] = deepDepth
	core.BFS(r, core.BFSConfig{Prop: prop, Run: safe, MaxDepth: deepDepth + 1, Subprocess: true, RecycleEvery: 200000})
	core.Finish(r)
}

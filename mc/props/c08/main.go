// C08 — durability: after any crash the node restarts intact on its last stable block.
//
// Engine E3 (crash-point and torn-write enumeration). The store's os / goleveldb / sync imports are
// replaced by logging shims (mc/vfs, OVERLAY file). A workload history (insert block, confirm,
// insert-with-confirm, clean restart) runs on the real node under a two-party gate that decides how
// far the asynchronous bitcask writer may run at every operation of the foreground; the result is one
// totally ordered log of file and LevelDB operations. Every prefix of the log, plus every torn
// variant of the write in flight, is a crash image; it is materialised, reopened with the real code
// (NewChainDataBase + deputynode.NewManager + NewBlockChain) and judged by the clauses of the
// statement against the view of a node that never stopped. The recovery's own log is cut the same
// way (crash during recovery, depth 2).
package main

import (
	"crypto/sha256"
	"encoding/gob"
	"encoding/hex"
	"encoding/json"
	"fmt"
	"os"
	"path/filepath"
	"runtime"
	"sort"
	"strings"
	"time"

	"verifmc/core"
	"verifmc/node"
	"verifmc/vfs"

	"github.com/LemoFoundationLtd/lemochain-core/common/log"
)

const prop = "C08"

func main() {
	core.ParseFlags()
	node.Quiet()
	if os.Getenv("C08_LOG") != "" {
		log.Setup(log.LevelError, false, false)
	}
	installHooks()
	switch {
	case os.Getenv("C08_PROBE") != "":
		probe()
	case core.Opt.Worker == "serve":
		workerMain()
	case core.Opt.Replay != "":
		replayMain()
	default:
		coordinator()
	}
}

// ---------------------------------------------------------------------------------------------
// bounds per tier

type tierCfg struct {
	Histories []History
	Scheds    func(h History, s0 *RunLog) []Sched // deviations from S0 explored per history
	D2Every   int                                 // depth 2 on every n-th distinct untorn image of the S0 runs
	EagerOn   string                              // which images are also reopened with the writer running during the scan
	ContTo    int
}

func hist(name string, steps string) History { return History{name, strings.Fields(steps)} }

func tierConfig() tierCfg {
	if !core.Thorough() {
		return tierCfg{
			Histories: []History{
				hist("promote-one", "K1"),
				hist("one-at-a-time-then-two-at-once", "I1 C1 I2 I3 C3"),
				hist("confirmed-inserts-restart-insert-confirm", "K1 K2 X I3 C3"),
				hist("two-at-once-then-late-confirm", "I1 I2 C2 C1"),
			},
			Scheds:  func(History, *RunLog) []Sched { return nil },
			D2Every: 60,
			EagerOn: "wal-nonempty-untorn",
			ContTo:  5,
		}
	}
	return tierCfg{
		Histories: []History{
			hist("promote-one", "K1"),
			hist("one-at-a-time-then-two-at-once", "I1 C1 I2 I3 C3"),
			hist("confirmed-inserts-restart-insert-confirm", "K1 K2 X I3 C3"),
			hist("two-at-once-then-late-confirm", "I1 I2 C2 C1"),
			hist("late-confirms-around-a-restart", "I1 I2 C2 X C1 K3"),
			hist("one-at-a-time-to-4", "I1 C1 I2 C2 I3 C3 I4 C4"),
			hist("three-at-once", "K1 I2 I3 I4 C4"),
			hist("restart-after-every-promotion", "K1 X K2 X K3 X K4"),
			hist("older-confirm-first", "K1 I2 I3 C2 C3"),
			hist("unconfirmed-lost-in-restart", "K1 I2 X I2 C2 I3 C3"),
			hist("two-at-once-twice", "I1 I2 C2 I3 I4 C4"),
			hist("restart-twice-in-a-row", "K1 K2 X X K3"),
			hist("long", "K1 K2 K3 I4 I5 I6 C6"),
		},
		Scheds:  thoroughScheds,
		D2Every: 20,
		EagerOn: "wal-nonempty",
		ContTo:  5,
	}
}

// thoroughScheds: deviations from "the writer drains immediately", one window each: the writer is
// held (or allowed k operations) from the beginning of step i to the beginning of step j.
func thoroughScheds(h History, s0 *RunLog) []Sched {
	var out []Sched
	n := len(s0.StepFg)
	hasX := false
	for _, st := range h.Steps {
		if st == "X" {
			hasX = true
		}
	}
	for i := 1; i < n-1; i++ { // step i of the S0 run starts at foreground point StepFg[i]
		for _, span := range []int{1, 2} {
			j := i + span
			if j > n-1 || (span == 2 && !hasX) {
				continue
			}
			for _, perm := range []int{0, 1, 3} {
				if span == 2 && perm != 0 {
					continue
				}
				out = append(out, Sched{[]Window{{s0.StepFg[i], s0.StepFg[j], perm}}})
			}
		}
	}
	return out
}

// ---------------------------------------------------------------------------------------------
// files shared with the workers

func saveGob(path string, v interface{}) {
	f, err := os.Create(path)
	if err != nil {
		panic(err)
	}
	defer f.Close()
	if err := gob.NewEncoder(f).Encode(v); err != nil {
		panic(err)
	}
}

func loadGob(path string, v interface{}) {
	f, err := os.Open(path)
	if err != nil {
		panic(err)
	}
	defer f.Close()
	if err := gob.NewDecoder(f).Decode(v); err != nil {
		panic(err)
	}
}

func logDigest(ops []vfs.Op) string {
	h := sha256.New()
	for i := range ops {
		op := &ops[i]
		fmt.Fprintf(h, "%c|%s|%s|%d|%d|", op.Class, op.Kind, op.Path, op.Off, len(op.Data))
		h.Write(op.Data)
		h.Write(op.Key)
		h.Write(op.Val)
		for _, kv := range op.Batch {
			h.Write(kv.Key)
			h.Write(kv.Val)
		}
		h.Write([]byte(op.Note))
	}
	return hex.EncodeToString(h.Sum(nil)[:8])
}

// ---------------------------------------------------------------------------------------------
// cuts of a log

// cutInfo describes the crash point "the first Cut entries of the log completed".
type cutInfo struct {
	Cut      int
	Required int    // highest promotion completed before the cut
	Step     string // workload step in progress
	After    string // name of the last completed operation ("start" at the beginning)
	Before   string // name of the next operation ("end" at the end)
	FgAfter  string // name of the last completed FOREGROUND operation: the phase of the store's protocol
}

func stepKind(st string) string {
	switch {
	case st == "open":
		return "reopen"
	case st == "final-drain":
		return "final-drain"
	case strings.HasPrefix(st, "I"):
		return "insert"
	case strings.HasPrefix(st, "C"):
		return "confirm"
	case strings.HasPrefix(st, "K"):
		return "insert-with-confirm"
	case st == "X":
		return "restart"
	}
	return st
}

// cutsOf lists the crash points of a log: the start and the point after every real operation.
// Marks that directly follow a cut belong to it (nothing happened in between).
func cutsOf(ops []vfs.Op) []cutInfo {
	nextReal := func(i int) string {
		for ; i < len(ops); i++ {
			if ops[i].Kind != "mark" {
				return opName(&ops[i])
			}
		}
		return "end"
	}
	stepAt := func(cut int) string {
		st := "open"
		for i := 0; i < cut; i++ {
			if ops[i].Kind == "mark" && strings.HasPrefix(ops[i].Note, "step ") {
				st = ops[i].Note[5:]
			}
		}
		return st
	}
	fgAfter := "start"
	out := []cutInfo{{Cut: 0, Required: requiredAt(ops, 0), Step: "open", After: "start", Before: nextReal(0), FgAfter: fgAfter}}
	for i := range ops {
		if ops[i].Kind == "mark" {
			continue
		}
		if ops[i].Class == 'F' {
			fgAfter = opName(&ops[i])
		}
		out = append(out, cutInfo{Cut: i + 1, Required: requiredAt(ops, i+1), Step: stepAt(i + 1), After: opName(&ops[i]), Before: nextReal(i + 1), FgAfter: fgAfter})
	}
	return out
}

// posOf names a crash point for fingerprints: the phase of the store's protocol (the last completed
// foreground operation; the writer's operations in between do not make a new class) or, for a torn
// write, the operation in flight and where it was cut.
func posOf(ci cutInfo, tornName, tearKind string) string {
	if tornName != "" {
		// the operation in flight names the phase by itself
		return "torn=" + tornName + ":" + foldTear(tearKind)
	}
	return "fg-after=" + ci.FgAfter
}

// foldTear drops the granularity (256-byte multiple / 4 KiB page boundary) from a tear kind: what a
// fingerprint keeps is where the tear lies relative to the records (the counters keep both).
func foldTear(kind string) string {
	for _, unit := range []string{"4096", "256"} {
		if strings.HasPrefix(kind, unit) {
			rest := strings.TrimPrefix(strings.TrimPrefix(kind, unit), "@")
			if rest == "" {
				return "inside"
			}
			return rest
		}
	}
	return kind
}

// posOfRecovery names a crash point inside a recovery (depth 2): the last completed operation of
// the recovery, without the record kind of the writer's operations.
func posOfRecovery(ci cutInfo, tornName, tearKind string) string {
	strip := func(n string) string {
		if i := strings.IndexByte(n, '['); i > 0 && strings.HasPrefix(n, "B:") {
			return n[:i]
		}
		return n
	}
	if tornName != "" {
		return "torn=" + strip(tornName) + ":" + foldTear(tearKind)
	}
	return "after=" + strip(ci.After)
}

// imageAt builds the crash image (cut, tear) of a log.
func imageAt(base *Image, ops []vfs.Op, cut, tearBytes int) *Image {
	im := base.clone()
	for i := 0; i < cut; i++ {
		im.apply(&ops[i], -1)
	}
	if tearBytes > 0 {
		i := cut
		for i < len(ops) && ops[i].Kind == "mark" {
			i++
		}
		im.apply(&ops[i], tearBytes)
	}
	return im
}

// ---------------------------------------------------------------------------------------------
// replay artefact

type ReplaySpec struct {
	History  History `json:"history"`
	Sched    Sched   `json:"schedule"`
	Order    int     `json:"map_order_policy"`
	Cut      int     `json:"cut"`
	Tear     int     `json:"torn_bytes"`
	Mode     string  `json:"reopen_mode"`
	D2       bool    `json:"depth2,omitempty"`
	Cut2     int     `json:"cut2,omitempty"`
	Tear2    int     `json:"torn_bytes2,omitempty"`
	ContTo   int     `json:"continuation_to"`
	LogHash  string  `json:"log_digest"`
	Describe string  `json:"describe"`
	Class    string  `json:"class"`
}

// ---------------------------------------------------------------------------------------------
// worker

type runCache struct {
	path string
	rl   *RunLog
}

func workerMain() {
	var setup Setup
	loadGob(os.Getenv("C08_SETUP"), &setup)
	w := loadWorld(&setup)
	var cache []runCache
	getRun := func(path string) *RunLog {
		for _, c := range cache {
			if c.path == path {
				return c.rl
			}
		}
		var rl RunLog
		loadGob(path, &rl)
		cache = append(cache, runCache{path, &rl})
		if len(cache) > 6 {
			cache = cache[1:]
		}
		return &rl
	}
	serve(func(j *Job) (rp Reply) {
		defer func() {
			if p := recover(); p != nil {
				buf := make([]byte, 1<<14)
				buf = buf[:runtime.Stack(buf, false)]
				rp = Reply{Err: fmt.Sprintf("harness panic: %v\n%s", p, buf)}
			}
			rp.Gor = runtime.NumGoroutine()
		}()
		core.Journal(fmt.Sprintf("%s %s cut=%d tear=%d", j.Kind, j.RunFile, j.Cut, j.Tear))
		switch j.Kind {
		case "run":
			rl := w.runHistory(j.History, j.Sched, j.Order)
			saveGob(j.Out, rl)
			return Reply{Run: &RunSummary{Ops: len(rl.Ops), FgPoints: rl.FgPoints, ForcedMoves: rl.ForcedMoves, FreeMoves: rl.FreeMoves, Timeouts: rl.Timeouts,
				LockWaitsBG: rl.LockWaitsBG, LockWaitsFG: rl.LockWaitsFG, Broken: rl.Broken, Digest: logDigest(rl.Ops), FailedStep: rl.FailedStep, Failure: rl.Failure}}
		case "eval":
			rl := getRun(j.RunFile)
			img := imageAt(w.setup.Base, rl.Ops, j.Cut, j.Tear)
			res, _ := w.evaluate(img, requiredAt(rl.Ops, j.Cut), evalOpts{Mode: j.Mode, ContTo: j.ContTo, Light: j.Light})
			if hasStall(res) {
				// "the writer never finishes" is decided by the gate's real-time cap: it counts only
				// if it happens again on a fresh copy of the image
				again, _ := w.evaluate(img, requiredAt(rl.Ops, j.Cut), evalOpts{Mode: j.Mode, ContTo: j.ContTo, Light: j.Light})
				if !hasStall(again) {
					again.StallsNotReproduced = 1
					res = again
				}
			}
			return Reply{Eval: res}
		case "d2":
			rl := getRun(j.RunFile)
			img := imageAt(w.setup.Base, rl.Ops, j.Cut, j.Tear)
			return w.depth2(img, requiredAt(rl.Ops, j.Cut), j)
		}
		return Reply{Err: "bad job kind " + j.Kind}
	})
}

func hasStall(r *EvalResult) bool {
	for _, p := range r.Problems {
		if strings.HasPrefix(p.Class, "writer-does-not-finish") {
			return true
		}
	}
	return false
}

func requiredAt(ops []vfs.Op, cut int) int {
	req := 0
	for i := 0; i < cut && i < len(ops); i++ {
		if ops[i].Kind == "mark" && strings.HasPrefix(ops[i].Note, "promoted ") {
			fmt.Sscanf(ops[i].Note, "promoted %d", &req)
		}
	}
	// marks directly behind the cut belong to it (nothing happened in between)
	for i := cut; i < len(ops) && ops[i].Kind == "mark"; i++ {
		if strings.HasPrefix(ops[i].Note, "promoted ") {
			fmt.Sscanf(ops[i].Note, "promoted %d", &req)
		}
	}
	return req
}

// depth2: recover img once under the log (writer held during reopen, then redelivery), then cut that
// log: every prefix + torn variants, applied on top of img, is an image of "crash during recovery".
func (w *world) depth2(img *Image, required int, j *Job) Reply {
	first, rec := w.evaluate(img, required, evalOpts{Mode: "hold", ContTo: j.ContTo})
	if first.Abandoned {
		return Reply{D2Total: 0}
	}
	parent := map[string]bool{}
	for _, p := range first.Problems {
		parent[p.Class] = true
	}
	type d2img struct {
		cut2, tear2 int
		pos, after  string
		torn        string
	}
	var list []d2img
	cuts := cutsOf(rec)
	for _, ci := range cuts {
		if ci.Cut == 0 {
			continue // the image itself
		}
		list = append(list, d2img{ci.Cut, 0, posOfRecovery(ci, "", ""), ci.After, ""})
		k := ci.Cut
		for k < len(rec) && rec[k].Kind == "mark" {
			k++
		}
		if k < len(rec) {
			for _, t := range tearsOf(&rec[k]) {
				// during recovery: 1 byte, 1 byte short, record boundaries
				if t.kind == "1B" || t.kind == "len-1" || strings.HasSuffix(t.kind, "@record-boundary") {
					list = append(list, d2img{ci.Cut, t.n, posOfRecovery(ci, opName(&rec[k]), t.kind), ci.After, opName(&rec[k]) + ":" + t.kind})
				}
			}
		}
	}
	rp := Reply{D2Total: len(list)}
	seen := map[string]bool{}
	for i, d := range list {
		if i < j.D2From || (j.D2To > 0 && i >= j.D2To) {
			continue
		}
		im2 := imageAt(img, rec, d.cut2, d.tear2)
		dg := newDigester(im2).sum()
		if seen[dg] {
			rp.D2 = append(rp.D2, D2Result{Index: i, Cut2: d.cut2, Tear2: d.tear2, Pos: d.pos, After: d.after, Torn: d.torn, Digest: dg})
			continue
		}
		seen[dg] = true
		res, _ := w.evaluate(im2, required, evalOpts{Mode: "hold", ContTo: j.ContTo})
		// what the parent image already showed is reported there
		var keep []Problem
		for _, p := range res.Problems {
			if !parent[p.Class] {
				keep = append(keep, p)
			}
		}
		res.Problems = keep
		rp.D2 = append(rp.D2, D2Result{Index: i, Cut2: d.cut2, Tear2: d.tear2, Pos: d.pos, After: d.after, Torn: d.torn, Digest: dg, Res: res})
	}
	return rp
}

// ---------------------------------------------------------------------------------------------
// coordinator

type runInfo struct {
	idx   int
	hist  History
	sched Sched
	file  string
	rl    *RunLog
	sum   *RunSummary
}

type planned struct {
	run      *runInfo
	ci       cutInfo
	tear     int
	tornName string
	tearKind string
	digest   string
	mode     string
	light    bool
	d2       bool
}

func (p *planned) describe() string {
	s := fmt.Sprintf("history %s [%s] schedule %s: crash in step %s after %d log entries (after=%s/before=%s)", p.run.hist.Name, strings.Join(p.run.hist.Steps, " "), p.run.sched, p.ci.Step, p.ci.Cut, p.ci.After, p.ci.Before)
	if p.tear > 0 {
		s += fmt.Sprintf(", %d bytes of %s reached the file (%s)", p.tear, p.tornName, p.tearKind)
	}
	if p.mode == "eager" {
		s += "; reopened with the writer running during the startup scan"
	}
	return s
}

type candidate struct {
	fp, what string
	order    [4]int
	replay   ReplaySpec
}

func coordinator() {
	r := core.NewResult(prop, "fault_enumeration")
	cfg := tierConfig()
	scratch := core.ScratchDir("c08")
	defer os.RemoveAll(scratch)
	t0 := time.Now()
	setup := buildSetup()
	setupPath := filepath.Join(scratch, "setup.gob")
	saveGob(setupPath, setup)
	w := loadWorld(setup)
	_ = w
	order := 1

	// ---- phase 1: the S0 run of every history, then the deviating schedules
	var runs []*runInfo
	mkRun := func(h History, s Sched) *runInfo {
		ri := &runInfo{idx: len(runs), hist: h, sched: s, file: filepath.Join(scratch, fmt.Sprintf("run%d.gob", len(runs)))}
		runs = append(runs, ri)
		return ri
	}
	execRuns := func(list []*runInfo) bool {
		jobs := make([]*Job, len(list))
		for i, ri := range list {
			jobs[i] = &Job{ID: ri.idx, Kind: "run", History: ri.hist, Sched: ri.sched, Order: order, Out: ri.file}
		}
		ok := true
		complete := runJobs(setupPath, core.Opt.Workers, jobs, 5*time.Minute, func(j *Job, rp Reply) {
			ri := runs[j.ID]
			if rp.Died || rp.Err != "" || rp.Run == nil {
				ok = false
				if d := os.Getenv("C08_DEBUG_DIR"); d != "" {
					os.WriteFile(filepath.Join(d, fmt.Sprintf("run-died-%d.txt", j.ID)), []byte(rp.Err+"\n"+rp.DiedMsg), 0644)
				}
				r.NotExhaustive(fmt.Sprintf("workload run %s/%s did not complete: %s %s", ri.hist.Name, ri.sched, rp.Err, clipTail(rp.DiedMsg, 600)))
				return
			}
			ri.sum = rp.Run
			var rl RunLog
			loadGob(ri.file, &rl)
			ri.rl = &rl
		})
		return ok && complete
	}
	var s0 []*runInfo
	for _, h := range cfg.Histories {
		s0 = append(s0, mkRun(h, Sched{}))
	}
	if !execRuns(s0) {
		os.RemoveAll(scratch)
		core.Finish(r)
	}
	var devs []*runInfo
	for _, ri := range s0 {
		if ri.rl == nil || ri.rl.Failure != "" {
			continue
		}
		for _, s := range cfg.Scheds(ri.hist, ri.rl) {
			devs = append(devs, mkRun(ri.hist, s))
		}
	}
	if len(devs) > 0 {
		execRuns(devs)
	}
	r.Extra["wall_s_setup_and_runs"] = time.Since(t0).Seconds()

	// ---- phase 2: the plan — every cut and torn variant of every log, identical images once
	earlyViol := map[string]*candidate{}
	seen := map[string]bool{}
	cutDigest := map[[2]int]string{} // (run, cut) -> digest key of the untorn image there
	var plan []*planned
	histInfo := map[string]map[string]interface{}{}
	schedTried, schedEffective := 0, 0
	logSeen := map[string]bool{}
	untornS0 := 0
	for _, ri := range runs {
		if ri.rl == nil {
			continue
		}
		schedTried++
		hi := histInfo[ri.hist.Name]
		if hi == nil {
			hi = map[string]interface{}{"steps": strings.Join(ri.hist.Steps, " "), "interleavings": 0, "cuts_and_torn_variants": 0, "distinct_images_new_to_this_history": 0}
			histInfo[ri.hist.Name] = hi
		}
		r.Add("gate_forced_writer_moves", int64(ri.sum.ForcedMoves))
		r.Add("gate_free_writer_moves", int64(ri.sum.FreeMoves))
		r.Add("gate_idle_by_timeout", int64(ri.sum.Timeouts))
		r.Add("gate_writer_waited_for_wal_lock", int64(ri.sum.LockWaitsBG))
		r.Add("gate_foreground_waited_for_wal_lock", int64(ri.sum.LockWaitsFG))
		if ri.sum.Failure != "" {
			// nothing crashed, and still a step of the workload failed on a node that was started from a
			// cleanly closed directory (the continuous node accepted the same blocks)
			r.Add("evaluations", 1)
			r.Add("workload_runs_that_fail_without_a_crash", 1)
			fp := fmt.Sprintf("%s/workload-fails-without-a-crash/%s/%s", prop, stepKind(ri.sum.FailedStep), normMsg(ri.sum.Failure))
			what := fmt.Sprintf("history %s [%s] schedule %s: step %s fails although nothing crashed: %s", ri.hist.Name, strings.Join(ri.hist.Steps, " "), ri.sched, ri.sum.FailedStep, ri.sum.Failure)
			if c, ok := earlyViol[fp]; !ok || ri.idx < c.order[0] {
				earlyViol[fp] = &candidate{fp, what, [4]int{ri.idx, 0, 0, 0}, ReplaySpec{History: ri.hist, Sched: ri.sched, Order: order, Cut: -1, ContTo: cfg.ContTo, LogHash: ri.sum.Digest, Describe: what, Class: "workload-fails-without-a-crash"}}
			}
			continue
		}
		if ri.sum.Broken != "" {
			r.NotExhaustive(fmt.Sprintf("run %s/%s: %s", ri.hist.Name, ri.sched, ri.sum.Broken))
			continue
		}
		if logSeen[ri.sum.Digest] {
			continue // this schedule produced the same log as an earlier one
		}
		logSeen[ri.sum.Digest] = true
		schedEffective++
		hi["interleavings"] = hi["interleavings"].(int) + 1
		ops := ri.rl.Ops
		for i := range ops {
			switch ops[i].Class {
			case 'F':
				r.Add("ops_foreground", 1)
			case 'B':
				r.Add("ops_background", 1)
			}
		}
		im := setup.Base.clone()
		dg := newDigester(im)
		cuts := cutsOf(ops)
		applied := 0
		isS0 := len(ri.sched.Windows) == 0
		for _, ci := range cuts {
			for applied < ci.Cut {
				done := dg.track(im, &ops[applied])
				im.apply(&ops[applied], -1)
				done()
				applied++
			}
			r.Add("crash_images_enumerated", 1)
			hi["cuts_and_torn_variants"] = hi["cuts_and_torn_variants"].(int) + 1
			r.Add("cut_after:"+ci.After, 1)
			r.Add("cut_in_step:"+stepKind(ci.Step), 1)
			walLen := len(im.Files["tmp.data"])
			key := fmt.Sprintf("%s/req%d", dg.sum(), ci.Required)
			cutDigest[[2]int{ri.idx, ci.Cut}] = key
			if !seen[key] {
				seen[key] = true
				hi["distinct_images_new_to_this_history"] = hi["distinct_images_new_to_this_history"].(int) + 1
				p := &planned{run: ri, ci: ci, digest: key, mode: "hold"}
				if isS0 {
					r.Add("distinct_images:S0:untorn", 1)
					untornS0++
					if cfg.D2Every > 0 && untornS0%cfg.D2Every == 0 {
						p.d2 = true
					}
				} else {
					r.Add("distinct_images:deviating:untorn", 1)
				}
				plan = append(plan, p)
				if walLen > 0 && (cfg.EagerOn == "wal-nonempty" || cfg.EagerOn == "wal-nonempty-untorn") {
					plan = append(plan, &planned{run: ri, ci: ci, digest: key, mode: "eager", light: true})
				}
			}
			// torn variants of the write in flight
			k := ci.Cut
			for k < len(ops) && ops[k].Kind == "mark" {
				k++
			}
			if k < len(ops) {
				name := opName(&ops[k])
				for _, t := range tearsOf(&ops[k]) {
					r.Add("crash_images_enumerated", 1)
					hi["cuts_and_torn_variants"] = hi["cuts_and_torn_variants"].(int) + 1
					r.Add("torn:"+name+":"+t.kind, 1)
					r.Add("cut_in_step:"+stepKind(ci.Step), 1)
					key := fmt.Sprintf("%s/req%d", dg.tornDigest(im, &ops[k], t.n), ci.Required)
					if seen[key] {
						continue
					}
					seen[key] = true
					hi["distinct_images_new_to_this_history"] = hi["distinct_images_new_to_this_history"].(int) + 1
					if isS0 {
						r.Add("distinct_images:S0:torn", 1)
					} else {
						r.Add("distinct_images:deviating:torn", 1)
					}
					plan = append(plan, &planned{run: ri, ci: ci, tear: t.n, tornName: name, tearKind: t.kind, digest: key, mode: "hold"})
					if cfg.EagerOn == "wal-nonempty" && isS0 && fileClass(ops[k].Path) == "wal" {
						plan = append(plan, &planned{run: ri, ci: ci, tear: t.n, tornName: name, tearKind: t.kind, digest: key, mode: "eager", light: true})
					}
				}
			}
		}
	}
	// non-vacuity: the phases of the store's protocol named in the property's anchors must have been cut
	for _, k := range []string{"cut_after:F:write:wal[act+blk+hgt]", "cut_after:F:write:wal[trie]", "cut_after:F:write:wal[code]", "cut_after:F:ldb:stable", "cut_after:F:sync:ctx",
		"cut_after:B:write:cask[act]", "cut_after:B:write:cask[blk]", "cut_after:B:write:cask[trie]", "cut_after:B:ldb:curpos", "cut_after:B:write:wal[assetcode]", "cut_after:F:ldbopen", "cut_in_step:restart"} {
		alt := strings.Replace(k, "F:sync:ctx", "F:rename:ctx", 1)
		if r.Counters[k] == 0 && r.Counters[alt] == 0 {
			r.NotExhaustive("coverage self-check: no crash point counted under " + k)
		}
	}
	tornWal := int64(0)
	for k, v := range r.Counters {
		if strings.HasPrefix(k, "torn:F:write:wal[") && strings.Contains(k, ":4096@") {
			tornWal += v
		}
	}
	if tornWal == 0 {
		r.NotExhaustive("coverage self-check: no write-ahead batch was large enough for a 4 KiB page tear")
	}
	r.Add("crash_images_distinct", int64(len(seen)))
	r.Extra["schedules_tried"] = schedTried
	r.Extra["schedules_effective"] = schedEffective
	r.Extra["histories"] = histInfo
	r.Extra["wall_s_until_plan"] = time.Since(t0).Seconds()

	if os.Getenv("C08_PLAN_ONLY") != "" {
		nd2, neager := 0, 0
		for _, p := range plan {
			if p.d2 {
				nd2++
			}
			if p.mode == "eager" {
				neager++
			}
		}
		fmt.Printf("plan: %d runs (%d effective), %d images to evaluate (%d of them eager/light), %d depth-2 expansions, %.1fs\n", len(runs), schedEffective, len(plan), neager, nd2, time.Since(t0).Seconds())
		return
	}
	// ---- phase 3: evaluate
	jobs := make([]*Job, 0, len(plan))
	for i, p := range plan {
		jobs = append(jobs, &Job{ID: i, Kind: "eval", RunFile: p.run.file, Cut: p.ci.Cut, Tear: p.tear, Mode: p.mode, ContTo: cfg.ContTo, Light: p.light})
	}
	cands := map[string]*candidate{}
	offer := func(fp, what string, ord [4]int, rs ReplaySpec) {
		if c, ok := cands[fp]; ok {
			for i := range ord {
				if ord[i] != c.order[i] {
					if ord[i] > c.order[i] {
						return
					}
					break
				}
			}
			if ord == c.order {
				return
			}
		}
		cands[fp] = &candidate{fp, what, ord, rs}
	}
	var d2jobs []*Job
	d2parent := map[int]*planned{}
	maxGor := 0
	handleEval := func(p *planned, res *EvalResult, depth string) {
		r.Add("evaluations", 1)
		r.Outcome(res.outcome())
		for k, v := range res.Us {
			r.Add("us_"+k, int64(v))
		}
		if res.Abandoned {
			r.Add("instances_abandoned", 1)
		}
		r.Add("gate_idle_by_timeout", int64(res.Timeouts))
		r.Add("writer_stalls_not_reproduced_on_a_second_evaluation", int64(res.StallsNotReproduced))
		if res.Stable >= 0 {
			r.Add(fmt.Sprintf("recovered_to_stable_height:%d", res.Stable), 1)
			switch {
			case res.Stable == res.Required:
				r.Add("recovered_exactly_required", 1)
			case res.Stable > res.Required:
				r.Add("recovered_newer_than_required", 1)
			}
		}
		if res.RecWrites > 0 {
			r.Add("recoveries_that_write", 1)
		}
		if res.ContDone {
			r.Add("continuations_completed", 1)
			r.Add("continuation_blocks_accepted", int64(res.Cont))
		}
		if len(res.Problems) > 0 {
			r.Add("images_with_problems", 1)
		}
	}
	replies := make([]*Reply, len(plan))
	complete := runJobs(setupPath, core.Opt.Workers, jobs, 3*time.Minute, func(j *Job, rp Reply) {
		c := rp
		replies[j.ID] = &c
	})
	holdClasses := map[string]map[string]bool{} // image digest -> problem classes seen with the writer held
	// untorn images with the writer held first: what they show is the baseline of their torn
	// neighbours and of the "writer runs during the scan" variant of the same image
	orderIDs := make([]int, 0, len(plan))
	for pass := 0; pass < 3; pass++ {
		for id, p := range plan {
			cls := 2
			if p.mode != "eager" {
				cls = 1
				if p.tear == 0 {
					cls = 0
				}
			}
			if cls == pass {
				orderIDs = append(orderIDs, id)
			}
		}
	}
	for _, id := range orderIDs {
		p := plan[id]
		if replies[id] == nil {
			continue // internal deadline
		}
		rp := *replies[id]
		if rp.Gor > maxGor {
			maxGor = rp.Gor
		}
		rs := ReplaySpec{History: p.run.hist, Sched: p.run.sched, Order: order, Cut: p.ci.Cut, Tear: p.tear, Mode: p.mode, ContTo: cfg.ContTo, LogHash: p.run.sum.Digest, Describe: p.describe()}
		ord := [4]int{p.run.idx, p.ci.Cut, p.tear, 0}
		if p.mode == "eager" {
			ord[3] = 1
		}
		pos := posOf(p.ci, p.tornName, p.tearKind)
		if p.mode == "eager" {
			pos += "/writer-runs-during-scan"
		}
		if rp.Died {
			if rp.Killed {
				r.NotExhaustive("a worker was stopped from outside while evaluating: " + p.describe())
				continue
			}
			// a goroutine nobody owns panicked (or the process exited) while this image was recovered
			msg := panicLine(rp.DiedMsg)
			r.Add("evaluations", 1)
			r.Add("images_with_problems", 1)
			r.Add("problem:process-dies", 1)
			rs.Class = "process-dies"
			offer(prop+"/process-dies/"+normMsg(msg)+"/"+pos, "the process died while recovering / continuing: "+msg+" — "+p.describe(), ord, rs)
			continue
		}
		if rp.Err != "" || rp.Eval == nil {
			r.NotExhaustive("harness error while evaluating " + p.describe() + ": " + clipTail(rp.Err, 800))
			continue
		}
		res := rp.Eval
		handleEval(p, res, "1")
		if p.mode == "eager" {
			r.Add("evaluations_writer_runs_during_scan", 1)
		} else {
			m := map[string]bool{}
			for _, pr := range res.Problems {
				m[pr.Class] = true
			}
			holdClasses[p.digest] = m
		}
		if len(r.Samples) < 6 && (id%97 == 3) {
			r.Sample(map[string]string{"image": p.describe(), "outcome": res.outcome()})
		}
		accountsWrong := false
		for _, pr := range res.Problems {
			if strings.HasPrefix(pr.Class, "account-data-not-of-the-stable-block/") {
				accountsWrong = true
			}
		}
		for _, pr := range res.Problems {
			r.Add("problem:"+pr.Class, 1)
			if p.mode == "eager" && holdClasses[p.digest][pr.Class] {
				continue // reported for the same image with the writer held
			}
			if accountsWrong && strings.HasPrefix(pr.Class, "later-block-rejected/") {
				// the same image is reported for its account data; a node that executes the next block
				// on other accounts than the stable block's derives other hashes: one finding, not two
				r.Add("later_block_rejected_on_images_reported_for_their_account_data", 1)
				continue
			}
			fpos := pos
			if p.tear > 0 && holdClasses[cutDigest[[2]int{p.run.idx, p.ci.Cut}]][pr.Class] {
				// the image without the torn write shows the same: the crash point's phase is the
				// class, the tear adds nothing
				fpos = posOf(p.ci, "", "")
				if p.mode == "eager" {
					fpos += "/writer-runs-during-scan"
				}
			}
			rs.Class = pr.Class
			offer(prop+"/"+pr.Class+"/"+fpos, pr.Detail+" — "+p.describe(), ord, rs)
		}
		if p.d2 && !res.Abandoned {
			did := len(d2jobs)
			d2jobs = append(d2jobs, &Job{ID: did, Kind: "d2", RunFile: p.run.file, Cut: p.ci.Cut, Tear: p.tear, ContTo: cfg.ContTo})
			d2parent[did] = p
		}
	}
	if !complete {
		r.NotExhaustive("internal deadline reached while evaluating crash images")
	}

	// ---- phase 4: depth 2
	if complete && len(d2jobs) > 0 {
		c2 := runJobs(setupPath, core.Opt.Workers, d2jobs, 10*time.Minute, func(j *Job, rp Reply) {
			p := d2parent[j.ID]
			if rp.Died {
				if rp.Killed {
					r.NotExhaustive("a worker was stopped from outside during depth 2 of: " + p.describe())
					return
				}
				msg := panicLine(rp.DiedMsg)
				rs := ReplaySpec{History: p.run.hist, Sched: p.run.sched, Order: order, Cut: p.ci.Cut, Tear: p.tear, Mode: "hold", D2: true, ContTo: cfg.ContTo, LogHash: p.run.sum.Digest, Describe: p.describe() + "; then a crash during recovery (the worker died; all depth-2 images of this one)", Class: "process-dies"}
				offer(prop+"/process-dies/"+normMsg(msg)+"/during-recovery", "the process died: "+msg+" — "+rs.Describe, [4]int{p.run.idx, p.ci.Cut, p.tear, 2}, rs)
				return
			}
			if rp.Err != "" {
				r.NotExhaustive("harness error during depth 2 of " + p.describe() + ": " + clipTail(rp.Err, 800))
				return
			}
			r.Add("depth2_expansions", 1)
			for _, d := range rp.D2 {
				r.Add("depth2_images_enumerated", 1)
				if d.Torn != "" {
					r.Add("depth2_torn:"+d.Torn, 1)
				} else {
					r.Add("depth2_cut_after:"+d.After, 1)
				}
				if d.Res == nil {
					continue
				}
				handleEval(p, d.Res, "2")
				r.Add("evaluations_depth2", 1)
				for _, pr := range d.Res.Problems {
					r.Add("problem:"+pr.Class, 1)
					desc := fmt.Sprintf("%s; recovery of that image was itself cut after %d of its log entries (%s)", p.describe(), d.Cut2, d.Pos)
					if d.Tear2 > 0 {
						desc += fmt.Sprintf(", %d bytes of the write in flight", d.Tear2)
					}
					rs := ReplaySpec{History: p.run.hist, Sched: p.run.sched, Order: order, Cut: p.ci.Cut, Tear: p.tear, Mode: "hold", D2: true, Cut2: d.Cut2, Tear2: d.Tear2, ContTo: cfg.ContTo, LogHash: p.run.sum.Digest, Describe: desc, Class: pr.Class}
					offer(prop+"/"+pr.Class+"/during-recovery/"+d.Pos, pr.Detail+" — "+desc, [4]int{p.run.idx, p.ci.Cut, p.tear, 3 + d.Index}, rs)
				}
			}
		})
		if !c2 {
			r.NotExhaustive("internal deadline reached during depth 2")
		}
	}
	r.Extra["goroutines_left_in_workers_max"] = maxGor

	for fp, c := range earlyViol {
		cands[fp] = c
	}
	fps := make([]string, 0, len(cands))
	for fp := range cands {
		fps = append(fps, fp)
	}
	sort.Strings(fps)
	for _, fp := range fps {
		c := cands[fp]
		r.Violate(c.fp, c.what, c.replay)
	}
	describeBounds(r, cfg, setup)
	os.RemoveAll(scratch) // (core.Finish exits the process: deferred calls do not run)
	core.Finish(r)
}

func clipTail(s string, n int) string {
	if len(s) > n {
		return "… " + s[len(s)-n:]
	}
	return s
}

// panicLine finds the panic (or fatal error) line in a dead worker's stderr.
func panicLine(s string) string {
	for _, l := range strings.Split(s, "\n") {
		if strings.HasPrefix(l, "panic: ") || strings.HasPrefix(l, "fatal error: ") {
			return l
		}
	}
	ls := strings.Split(strings.TrimSpace(s), "\n")
	if len(ls) > 0 {
		return ls[0]
	}
	return "?"
}

func describeBounds(r *core.Result, cfg tierCfg, setup *Setup) {
	hs := []string{}
	for _, h := range cfg.Histories {
		hs = append(hs, h.Name+" ["+strings.Join(h.Steps, " ")+"]")
	}
	schedText := "S0 only (the writer drains at every foreground operation and whenever the node is idle)"
	if core.Thorough() {
		schedText = "S0, plus one deviation window each: from the start of step i to the start of step i+1 the writer may perform only k operations, k in {0,1,3} (held completely; stopped after a record's file write; stopped after its position index entry, before the bitcask's offset); in histories with a restart also from step i to step i+2 with k = 0"
	}
	r.Extra["bounds"] = map[string]interface{}{
		"chain_blocks":          blockTexts,
		"histories":             hs,
		"history_length":        "1-8 steps (+ initial open, + final drain)",
		"schedules":             schedText,
		"torn_variants":         "1 byte, every multiple of 256 bytes (where file offset + n is a multiple of 4096 it is a page boundary too), 1 byte short",
		"depth2":                fmt.Sprintf("every %d-th distinct untorn image of the S0 runs; every cut of the recovery log + torn variants 1 byte / 1 byte short / record boundaries", cfg.D2Every),
		"reopen_schedules":      "every image: the writer is held until NewBlockChain has returned, then redelivers; untorn images whose write-ahead file is not empty (thorough: also the torn write-ahead writes of the S0 runs): additionally the writer runs whenever the startup code reads (clauses 1-6 only)",
		"continuation_to_block": cfg.ContTo,
		"watched_addresses":     len(setup.Watch),
	}
	r.Rule = "for every workload history and every explored schedule of the background writer: every cut of the totally ordered operation log, plus for the write in flight every torn variant (1 byte; every multiple of 256 bytes, which includes every multiple of 4096; 1 byte short); identical images (same files, same logical LevelDB content, same completed-promotion requirement) are evaluated once; each image is recovered with the real code and judged by the statement's clauses (1)-(7); on every n-th distinct untorn image of the S0 runs the recovery's own log is cut the same way (depth 2). A distinct outcome is (recovered stable height, required height, whether recovery rewrote records, problem classes)."
	r.Assume = []string{
		"crash model of the statement: process death. What survives is the sequence of completed operations plus a prefix of the one in flight; completed operations are not reordered (power loss is outside the statement); fsync is therefore a no-op for the image. One operation is in flight at the crash (the foreground's and the writer's operations are serialised by the gate)",
		"goleveldb Put/Delete/batch Write are atomic and ordered (its journal is check-summed; a torn journal record is dropped at open): the LevelDB of a crash image is rebuilt from the logged logical operations",
		fmt.Sprintf("%d deputies (a block needs one confirm besides the miner's signature; the confirm of a block that became stable through a confirmed descendant rewrites the stored block record); the node under test is an observer (it never signs itself); one fixed linear chain b1..b%d covering every record kind (blocks, height index, accounts, version/storage/asset tries, code, asset indexes, candidate list); forks are not part of the workloads (pruned forks only live in memory)", deputies, chainLen),
		"the engine's own goroutines (feeds, batch confirms, delayed fetches) are dropped: none of them writes to the store on an observer",
		"the writer's tmp.data operations (BeansDB.afterBlock) are gate points like its bitcask operations; the pending-index bookkeeping goroutine (FileQueue.afterPut) is not a scheduling point of its own: the gate only distinguishes 'records pending' from 'no record pending'",
		"Go map iteration order inside account.Manager.Save / TrieDatabase.Commit (the order of the trie and code records of one block) is fixed to the sorted order (instrumenter pass maprange, policy 1), so that logs and counts are reproducible",
		"record headers carry a wall-clock time stamp nothing reads; it is fixed by the harness clock so that equal prefixes give equal images",
	}
}

// ---------------------------------------------------------------------------------------------

func probe() {
	s := buildSetup()
	w := loadWorld(s)
	fmt.Println("base files", len(s.Base.Files), "dirs", len(s.Base.Dirs), "ldb", len(s.Base.LDB))
	steps := "I1 C1 I2 I3 C3"
	if v := os.Getenv("C08_STEPS"); v != "" {
		steps = v
	}
	var sched Sched
	if v := os.Getenv("C08_SCHED"); v != "" {
		var wd Window
		fmt.Sscanf(v, "%d-%d:%d", &wd.From, &wd.To, &wd.Perm)
		sched.Windows = []Window{wd}
	}
	rl := w.runHistory(History{"probe", strings.Fields(steps)}, sched, 1)
	fmt.Println("steps at", rl.StepFg, "failure", rl.Failure)
	fmt.Println("ops", len(rl.Ops), "fg", rl.FgPoints, "forced", rl.ForcedMoves, "free", rl.FreeMoves, "timeouts", rl.Timeouts, "lockBG", rl.LockWaitsBG, "lockFG", rl.LockWaitsFG, rl.Broken, "digest", logDigest(rl.Ops))
	for i := range rl.Ops {
		op := &rl.Ops[i]
		fmt.Printf("%4d fg%-3d %-34s %s #%s\n", i, op.FgIdx, opName(op), op.String(), logDigest(rl.Ops[i:i+1]))
	}
}

// replayMain re-runs one recorded case without the explorer.
func replayMain() {
	var rs ReplaySpec
	if err := core.LoadReplay(core.Opt.Replay, &rs); err != nil {
		fmt.Fprintln(os.Stderr, "cannot load replay:", err)
		os.Exit(2)
	}
	setup := buildSetup()
	w := loadWorld(setup)
	rl := w.runHistory(rs.History, rs.Sched, rs.Order)
	if rs.Cut < 0 {
		if rl.Failure != "" {
			fmt.Printf("history %s [%s] schedule %s: step %s fails although nothing crashed: %s\nREPLAY: the violation reproduces\n", rs.History.Name, strings.Join(rs.History.Steps, " "), rs.Sched, rl.FailedStep, rl.Failure)
			os.Exit(1)
		}
		fmt.Println("the workload runs to its end\nREPLAY: no violation of the recorded class")
		os.Exit(0)
	}
	dg := logDigest(rl.Ops)
	fmt.Printf("history %s [%s] schedule %s: %d log entries, digest %s (recorded %s)\n", rs.History.Name, strings.Join(rs.History.Steps, " "), rs.Sched, len(rl.Ops), dg, rs.LogHash)
	if dg != rs.LogHash {
		fmt.Println("NOTE: the operation log differs from the recorded run (the tree changed, or the run is not deterministic); the cut index may name another crash point")
	}
	fmt.Println(rs.Describe)
	lo := rs.Cut - 6
	if lo < 0 {
		lo = 0
	}
	for i := lo; i < len(rl.Ops) && i < rs.Cut+3; i++ {
		mark := "   "
		if i == rs.Cut {
			mark = "-->"
		}
		fmt.Printf("  %s %4d %-30s %s\n", mark, i, opName(&rl.Ops[i]), rl.Ops[i].String())
	}
	img := imageAt(setup.Base, rl.Ops, rs.Cut, rs.Tear)
	req := requiredAt(rl.Ops, rs.Cut)
	fmt.Printf("image: tmp.data %d bytes [%s]; required stable height %d\n", len(img.Files["tmp.data"]), describeWal(img.Files["tmp.data"]), req)
	fails := false
	for round := 1; round <= 2; round++ {
		var res *EvalResult
		if rs.D2 {
			_, rec := w.evaluate(img, req, evalOpts{Mode: "hold", ContTo: rs.ContTo, Light: true})
			if rs.Cut2 == 0 && rs.Tear2 == 0 {
				fmt.Println("depth-2 replay of a whole expansion: evaluating every cut of the recovery log")
				rp := w.depth2(img, req, &Job{ContTo: rs.ContTo})
				for _, d := range rp.D2 {
					if d.Res != nil && len(d.Res.Problems) > 0 {
						fmt.Printf("  cut2=%d tear2=%d %s: %v\n", d.Cut2, d.Tear2, d.Pos, d.Res.classes())
						fails = true
					}
				}
				break
			}
			im2 := imageAt(img, rec, rs.Cut2, rs.Tear2)
			fmt.Printf("depth 2: recovery log has %d entries; cut after %d, %d torn bytes; tmp.data [%s]\n", len(rec), rs.Cut2, rs.Tear2, describeWal(im2.Files["tmp.data"]))
			res, _ = w.evaluate(im2, req, evalOpts{Mode: "hold", ContTo: rs.ContTo})
		} else {
			res, _ = w.evaluate(img, req, evalOpts{Mode: rs.Mode, ContTo: rs.ContTo})
		}
		fmt.Printf("round %d: %s\n", round, res.outcome())
		for _, p := range res.Problems {
			fmt.Printf("  PROBLEM %s\n    %s\n", p.Class, p.Detail)
			if rs.Class == "" || p.Class == rs.Class {
				fails = true
			}
		}
	}
	b, _ := json.Marshal(rs)
	_ = b
	if fails {
		fmt.Println("REPLAY: the violation reproduces")
		os.Exit(1)
	}
	fmt.Println("REPLAY: no violation of the recorded class")
	os.Exit(0)
}

package main

// The fixed world of the C08 harness: a 2-deputy chain b1..b6 built by the block factory (the real
// assembler), the confirm packets that make each block stable, and the CONTINUOUS node's view of
// every stable height (the reference of oracle clauses 4-6).

import (
	"encoding/json"
	"fmt"
	"os"
	"sort"
	"strings"

	"verifmc/chainkit"
	"verifmc/core"
	"verifmc/node"
	"verifmc/vfs"

	"github.com/LemoFoundationLtd/lemochain-core/chain/params"
	"github.com/LemoFoundationLtd/lemochain-core/chain/types"
	"github.com/LemoFoundationLtd/lemochain-core/common"
	"github.com/LemoFoundationLtd/lemochain-core/common/crypto"
	"github.com/LemoFoundationLtd/lemochain-core/common/rlp"
	"github.com/LemoFoundationLtd/lemochain-core/store"
	"github.com/LemoFoundationLtd/lemochain-core/store/trie"
)

const (
	deputies = 2
	chainLen = 6
	// nodeClock is the node's (virtual) wall clock: later than every block of the world
	nodeClock = int64(node.GenesisTime) + 50000
)

var blockTexts = []string{
	"genesis",
	"6 transfers + asset creation",
	"contract creation + candidate registration",
	"asset issue + contract call + vote",
	"transfer + contract call + contract creation",
	"vote + transfer to new account + contract call",
	"transfer",
}

var (
	u0, u1, u2, u3 = node.User(0), node.User(1), node.User(2), node.User(3)
	cand1          = node.K("cand1")
	payer          = node.K("payer")
	fresh          = node.K("fresh-account")
	observer       = node.K("observer")
)

// RefState is what the continuous node shows while its stable block is the block of that height.
type RefState struct {
	Hash       string
	Accounts   map[string]string // address hex -> dump of GetAccount (flat account data), "absent"
	Tries      map[string]string // address hex (or "version") -> digest of all leaves of its tries
	Codes      map[string]string // address hex -> code hash + length
	Candidates string            // GetCandidatesTop(stable hash), in order
}

// Setup is everything a worker needs; the coordinator builds it once and writes it to scratch.
type Setup struct {
	Blocks   [][]byte // rlp(block h), h = 0..chainLen, without confirms
	Confirms [][]byte // the other deputy's signature of block h (h >= 1)
	Watch    []string // watched addresses (hex)
	Ref      []RefState
	Base     *Image // the data directory of a node that holds the genesis only, closed cleanly
	Contract string
}

type world struct {
	setup    *Setup
	blocks   []*types.Block
	confirms []types.SignData
	watch    []common.Address
}

func addrp(a common.Address) *common.Address { return &a }

// buildChain runs the factory.
func buildChain() (blocks []*types.Block, confirms []types.SignData, contract common.Address) {
	dir := core.ScratchDir("c08f")
	f := node.NewFactory(dir, deputies)
	defer f.Destroy()
	exp := uint64(node.GenesisTime + 1500)
	seq := uint64(0)
	next := func() uint64 { seq++; return exp + seq }
	head := f.BC.Genesis()
	blocks = append(blocks, head)
	confirms = append(confirms, types.SignData{})
	step := func(txs types.Transactions) {
		h := int(head.Height()) + 1
		miner := node.Deputy(h % deputies)
		tm, ok := node.SlotTime(f.DM, head, miner, deputies)
		if !ok {
			panic("harness: no slot for the miner")
		}
		b, inv, err := f.Make(node.BlockSpec{Parent: head, Miner: miner, Time: tm, Txs: txs, Extra: fmt.Sprintf("b%d", h)})
		if err != nil || len(inv) > 0 {
			ty := []uint16{}
			for _, t := range inv {
				ty = append(ty, t.Type())
			}
			panic(fmt.Sprintf("harness: block %d: err=%v discarded=%d types=%v", h, err, len(inv), ty))
		}
		// the factory stabilises as it goes: an issue-asset transaction is only accepted when the
		// asset's creation is in the STABLE state of whoever executes it (TxProcessor.VerifyAssetTx)
		if _, err := f.DB.SetStableBlock(b.Hash()); err != nil {
			panic(fmt.Sprintf("harness: factory cannot stabilise block %d: %v", h, err))
		}
		f.Quiesce()
		blocks = append(blocks, b)
		confirms = append(confirms, node.SignConfirm(node.Deputy((h+1)%deputies), b.Hash()))
		head = b
	}
	fo := node.Founder()
	// b1: 6 transfers + asset creation
	var l types.Transactions
	for _, k := range []*node.Key{u0, u1, u2, u3, payer} {
		l = append(l, node.Transfer(fo, k.Addr, node.Lemo(100000), next()))
	}
	l = append(l, node.Transfer(fo, cand1.Addr, node.Lemo(6000000), next()))
	asset := map[string]interface{}{"category": 1, "isDivisible": true, "decimal": 2, "isReplenishable": true, "profile": map[string]string{"name": "tok", "symbol": "TK", "description": "d", "suggestedGasLimit": "60000"}}
	ad, _ := json.Marshal(asset)
	createAsset := node.Tx(node.TxSpec{Type: params.CreateAssetTx, From: u0, Data: ad, Exp: next()})
	l = append(l, createAsset)
	step(l)
	// b2: contract creation + candidate registration
	deploy := node.Tx(node.TxSpec{Type: params.CreateContractTx, From: u2, Data: chainkit.InitCode(chainkit.RtCounter), Exp: next(), Amount: node.Lemo(5)})
	contract = crypto.CreateContractAddress(u2.Addr, deploy.Hash())
	step(types.Transactions{deploy, node.Register(cand1, params.MinCandidateDeposit, node.CandidateProfile(cand1, "7100"), next())})
	// b3: asset issue + contract call + vote
	issue, _ := json.Marshal(map[string]interface{}{"assetCode": createAsset.Hash(), "metaData": "m", "supplyAmount": "1000"})
	call := func(from *node.Key) *types.Transaction {
		return node.Tx(node.TxSpec{Type: params.OrdinaryTx, From: from, To: addrp(contract), Exp: next(), GasLimit: 300000})
	}
	step(types.Transactions{
		node.Tx(node.TxSpec{Type: params.IssueAssetTx, From: u0, To: addrp(u1.Addr), Data: issue, Exp: next()}),
		call(u0),
		node.Vote(u0, cand1.Addr, next()),
	})
	// b4: transfer + contract call + contract creation
	step(types.Transactions{
		node.Transfer(u0, u1.Addr, node.Lemo(250), next()),
		call(u1),
		node.Tx(node.TxSpec{Type: params.CreateContractTx, From: u1, Data: chainkit.InitCode(chainkit.RtCounter), Exp: next(), Amount: node.Lemo(1)}),
	})
	// b5: vote + transfer to new account + contract call
	step(types.Transactions{
		node.Vote(u1, node.Deputy(0).Addr, next()),
		node.Transfer(u0, fresh.Addr, node.Lemo(1), next()),
		call(u2),
	})
	// b6: transfer
	step(types.Transactions{node.Transfer(u0, u2.Addr, node.Lemo(3), next())})
	return
}

func encodeBlock(b *types.Block) []byte {
	enc, err := rlp.EncodeToBytes(b)
	if err != nil {
		panic(err)
	}
	return enc
}

func decodeBlock(enc []byte) *types.Block {
	var out types.Block
	if err := rlp.DecodeBytes(enc, &out); err != nil {
		panic(err)
	}
	return &out
}

// wire returns a fresh copy of block h as it arrives from the network, with or without the confirm.
func (w *world) wire(h int, withConfirm bool) *types.Block {
	b := decodeBlock(w.setup.Blocks[h])
	b.Confirms = nil
	if withConfirm {
		b.Confirms = []types.SignData{w.confirms[h]}
	}
	return b
}

func loadWorld(s *Setup) *world {
	w := &world{setup: s}
	for _, enc := range s.Blocks {
		w.blocks = append(w.blocks, decodeBlock(enc))
	}
	for _, c := range s.Confirms {
		var sd types.SignData
		copy(sd[:], c)
		w.confirms = append(w.confirms, sd)
	}
	for _, a := range s.Watch {
		w.watch = append(w.watch, common.HexToAddress(a))
	}
	return w
}

// watchList: every address named in a change log of the chain, plus the fixed ring and the
// well-known system addresses.
func watchList(blocks []*types.Block, contract common.Address) []common.Address {
	set := map[common.Address]bool{}
	for _, b := range blocks {
		for _, a := range node.TouchedAddresses(b) {
			set[a] = true
		}
	}
	for _, a := range []common.Address{node.Founder().Addr, node.Deputy(0).Addr, node.Deputy(1).Addr, node.K("income0").Addr, node.K("income1").Addr,
		u0.Addr, u1.Addr, u2.Addr, u3.Addr, cand1.Addr, payer.Addr, fresh.Addr, contract, params.DepositPoolAddress, params.TermRewardContract, node.K("never-used").Addr} {
		set[a] = true
	}
	l := make(common.AddressSlice, 0, len(set))
	for a := range set {
		l = append(l, a)
	}
	sort.Sort(l)
	return l
}

// ---------------------------------------------------------------------------------------------
// observations shared by the reference and the oracle

// dumpFlat renders what GetAccount (the flat, stable account record) returns for addr.
func dumpFlat(db *store.ChainDatabase, addr common.Address) string {
	d, err := db.GetAccount(addr)
	if err == store.ErrAccountNotExist {
		return "absent"
	}
	if err != nil {
		return "error:" + err.Error()
	}
	if d == nil {
		return "nil"
	}
	if d.Address != addr {
		return fmt.Sprintf("record-of-another-address(%s) %s", d.Address.String(), node.DumpAccountData(d))
	}
	return node.DumpAccountData(d)
}

// trieLeaves walks the whole trie below root through a fresh TrieDatabase of db (every node is read
// from the store) and returns a digest of its leaves; err when a node is missing or undecodable.
func trieLeaves(db *store.ChainDatabase, root common.Hash) (digest string, nodes int, err error) {
	if root == (common.Hash{}) {
		return "empty", 0, nil
	}
	defer func() {
		if p := recover(); p != nil {
			err = fmt.Errorf("panic while walking trie %x: %v", root[:4], p)
		}
	}()
	tr, e := trie.NewSecure(root, db.GetTrieDatabase(), 0)
	if e != nil {
		return "", 0, fmt.Errorf("root %x: %v", root[:4], e)
	}
	it := tr.NodeIterator(nil)
	var sb strings.Builder
	for it.Next(true) {
		nodes++
		if it.Leaf() {
			fmt.Fprintf(&sb, "%x=%x;", it.LeafKey(), it.LeafBlob())
		}
	}
	if it.Error() != nil {
		return "", nodes, fmt.Errorf("trie %x: %v", root[:4], it.Error())
	}
	return core.Hash(sb.String()), nodes, nil
}

// accountTries checks the four tries and the code of one flat account record.
func accountTries(db *store.ChainDatabase, d *types.AccountData) (digest string, code string, nodes int, err error) {
	var parts []string
	for _, r := range []struct {
		n string
		h common.Hash
	}{{"storage", d.StorageRoot}, {"assetCode", d.AssetCodeRoot}, {"assetId", d.AssetIdRoot}, {"equity", d.EquityRoot}} {
		dg, n, e := trieLeaves(db, r.h)
		nodes += n
		if e != nil {
			return "", "", nodes, fmt.Errorf("%s trie: %v", r.n, e)
		}
		parts = append(parts, r.n+":"+dg)
	}
	code = "none"
	if d.CodeHash != (common.Hash{}) && d.CodeHash != common.Sha3Nil {
		c, e := db.GetContractCode(d.CodeHash)
		if e != nil {
			return "", "", nodes, fmt.Errorf("code %x: %v", d.CodeHash[:4], e)
		}
		if crypto.Keccak256Hash(c) != d.CodeHash {
			return "", "", nodes, fmt.Errorf("code %x: content does not hash to it (%d bytes)", d.CodeHash[:4], len(c))
		}
		code = fmt.Sprintf("%x/%d", d.CodeHash[:6], len(c))
	}
	return strings.Join(parts, " "), code, nodes, nil
}

func dumpCandidates(l []*store.Candidate) string {
	var sb strings.Builder
	for _, c := range l {
		fmt.Fprintf(&sb, "%x:%s ", c.Address[16:], c.Total)
	}
	return strings.TrimSpace(sb.String())
}

// observe records the reference state of a node whose stable block is `stable`.
func observe(db *store.ChainDatabase, stable *types.Block, watch []common.Address) RefState {
	rs := RefState{Hash: stable.Hash().Hex(), Accounts: map[string]string{}, Tries: map[string]string{}, Codes: map[string]string{}}
	dg, _, err := trieLeaves(db, stable.VersionRoot())
	if err != nil {
		panic("harness: reference cannot walk its version trie: " + err.Error())
	}
	rs.Tries["version"] = dg
	for _, a := range watch {
		rs.Accounts[a.Hex()] = dumpFlat(db, a)
		if d, err := db.GetAccount(a); err == nil && d != nil {
			t, c, _, err := accountTries(db, d)
			if err != nil {
				panic("harness: reference cannot read its own tries: " + err.Error())
			}
			rs.Tries[a.Hex()] = t
			rs.Codes[a.Hex()] = c
		}
	}
	rs.Candidates = dumpCandidates(db.GetCandidatesTop(stable.Hash()))
	return rs
}

// buildSetup builds the chain, the reference and the base image.
func buildSetup() *Setup {
	blocks, confirms, contract := buildChain()
	s := &Setup{Contract: contract.Hex()}
	for h, b := range blocks {
		s.Blocks = append(s.Blocks, encodeBlock(b))
		s.Confirms = append(s.Confirms, append([]byte(nil), confirms[h][:]...))
	}
	watch := watchList(blocks, contract)
	for _, a := range watch {
		s.Watch = append(s.Watch, a.Hex())
	}
	w := loadWorld(s)
	// the base image: a node with the genesis only, writer drained, closed. It is created under the
	// gate (S0) so that its write-ahead file does not depend on how fast the writer happened to be
	dir := core.ScratchDir("c08base")
	bs := vfs.Begin(dir)
	n := node.NewNode(dir, deputies, observer)
	if n.BC.Genesis().Hash() != blocks[0].Hash() {
		panic("harness: genesis differs between factory and node")
	}
	if !bs.Drain() {
		panic("harness: the writer did not drain while the base image was created: " + bs.Broken + bs.BgPanic)
	}
	bs.End()
	n.Close()
	s.Base = readImage(dir)
	os.RemoveAll(dir)
	// the continuous node: created from nothing, inserts and stabilises one block at a time, never
	// stops and is never reopened (so that it does not depend on the recovery code under test)
	n = node.NewNode(core.ScratchDir("c08ref"), deputies, observer)
	if n.BC.Genesis().Hash() != blocks[0].Hash() {
		panic("harness: genesis differs between factory and the continuous node")
	}
	n.Quiesce()
	s.Ref = append(s.Ref, observe(n.DB, n.BC.StableBlock(), watch))
	for h := 1; h <= chainLen; h++ {
		if err := n.BC.InsertBlock(w.wire(h, false)); err != nil {
			panic(fmt.Sprintf("harness: the continuous node rejects block %d: %v", h, err))
		}
		n.BC.InsertConfirms(uint32(h), blocks[h].Hash(), []types.SignData{confirms[h]})
		n.Quiesce()
		st := n.BC.StableBlock()
		if st.Hash() != blocks[h].Hash() {
			panic(fmt.Sprintf("harness: the continuous node did not stabilise block %d", h))
		}
		s.Ref = append(s.Ref, observe(n.DB, st, watch))
	}
	n.Destroy()
	return s
}

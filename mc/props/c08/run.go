package main

// Executing one workload history on the real node under the two-party gate; the result is one
// totally ordered operation log.

import (
	"fmt"
	"os"
	"strconv"
	"strings"
	"sync"
	"sync/atomic"

	"verifmc/core"
	"verifmc/node"
	"verifmc/vclock"
	"verifmc/vfs"
	"verifmc/vorder"
	"verifmc/vtask"

	"github.com/LemoFoundationLtd/lemochain-core/chain/types"
)

// History is a workload: steps I<h> (insert block h without confirms), C<h> (the confirm of block h
// arrives: h and every unstable ancestor are promoted), K<h> (block h arrives with its confirm:
// inserted and promoted in one call), X (clean shutdown and start). C<h> for a block that is stable
// already (it was promoted together with a confirmed descendant and has only its miner's signature)
// rewrites the stored block record with the confirm.
type History struct {
	Name  string
	Steps []string
}

// Window: at the foreground gate points From <= i < To the background may perform Perm operations
// (in total, counted from the first point of the window); everywhere else it drains completely.
type Window struct {
	From, To, Perm int
}

// Sched is a schedule of the background writer: S0 (no windows) = it drains at every foreground
// gate point.
type Sched struct {
	Windows []Window
}

func (s Sched) String() string {
	if len(s.Windows) == 0 {
		return "S0"
	}
	var p []string
	for _, w := range s.Windows {
		p = append(p, fmt.Sprintf("W%d-%d:%d", w.From, w.To, w.Perm))
	}
	return strings.Join(p, ",")
}

// RunLog is the outcome of one execution.
type RunLog struct {
	History History
	Sched   Sched
	Order   int // vorder policy (map iteration order inside the account manager / trie commit)
	Ops     []vfs.Op
	// Stats of the gate
	FgPoints, ForcedMoves, FreeMoves, Timeouts, LockWaitsBG, LockWaitsFG int
	Broken                                                               string
	StepFg                                                               []int // foreground gate index at which each step began
	// a workload step failed although nothing crashed (the node was started from a cleanly closed
	// directory and the continuous node accepted the same blocks)
	FailedStep, Failure string
}

// spawnHook turns every goroutine the store starts into one whose panic is recorded instead of
// killing the process. A panic while a session is active is attributed to it.
var strayPanics []string

// epoch numbers the instances the harness creates (one per workload run / evaluation): a store
// goroutine belongs to the epoch in which it was started.
var epoch, latePanics int64

func newEpoch() { atomic.AddInt64(&epoch, 1); takeStrayPanics() }

var panicMu sync.Mutex

func installHooks() {
	vtask.SetPolicy(vtask.Drop, "store/", vtask.Real)
	vtask.Spawn = func(site string, f func()) {
		born := atomic.LoadInt64(&epoch)
		go func() {
			defer func() {
				if p := recover(); p != nil {
					msg := fmt.Sprint(p)
					if atomic.LoadInt64(&epoch) != born {
						// a goroutine of an instance that was abandoned earlier (its image has been
						// reported for the problem that made the harness abandon it): not this case's
						atomic.AddInt64(&latePanics, 1)
						return
					}
					if s := vfs.Active(); s != nil {
						s.NotePanic(msg)
					} else {
						panicMu.Lock()
						strayPanics = append(strayPanics, msg)
						panicMu.Unlock()
					}
				}
			}()
			f()
		}()
	}
	vclock.SetUnix(nodeClock)
	// map iteration inside the account manager and the trie commit is in sorted order everywhere (the
	// factory, the reference, the base image, the runs): equal inputs give equal files in every process
	vorder.SetPolicy(1)
}

func takeStrayPanics() []string {
	panicMu.Lock()
	defer panicMu.Unlock()
	l := strayPanics
	strayPanics = nil
	return l
}

// openNode is a process start on dir. A panic becomes an error.
func openNode(dir string) (n *node.Node, err error) {
	defer func() {
		if p := recover(); p != nil {
			err = fmt.Errorf("panic: %v", p)
			n = nil
		}
	}()
	return node.Reopen(dir, deputies, observer), nil
}

// step executes one workload step on n (which may be replaced by X).
func (w *world) step(s *vfs.Session, dir string, n **node.Node, st string) {
	h := 0
	if len(st) > 1 {
		h, _ = strconv.Atoi(st[1:])
	}
	switch st[0] {
	case 'I':
		if err := (*n).BC.InsertBlock(w.wire(h, false)); err != nil {
			panic(fmt.Sprintf("harness: workload step %s failed: %v", st, err))
		}
	case 'K':
		if err := (*n).BC.InsertBlock(w.wire(h, true)); err != nil {
			panic(fmt.Sprintf("harness: workload step %s failed: %v", st, err))
		}
	case 'C':
		late := int((*n).BC.StableBlock().Height()) >= h
		(*n).BC.InsertConfirms(uint32(h), w.blocks[h].Hash(), []types.SignData{w.confirms[h]})
		if late {
			// the confirm of a block that is stable already: the stored record gets the confirm
			if b, err := (*n).DB.GetBlockByHash(w.blocks[h].Hash()); err != nil || len(b.Confirms) != 1 {
				panic(fmt.Sprintf("harness: after the late confirm %s block %d does not carry it (%v)", st, h, err))
			}
			return
		}
	case 'X':
		// A clean shutdown: Close stops the writer wherever it is (records that are still pending stay
		// in tmp.data and are redelivered by the next start) and the process exits. Its goroutines never
		// run again, its pending index is forgotten. (In the real code the writer, once Quit is closed,
		// may or may not take further records from its queue — `select` picks at random; the harness
		// fixes "it takes none". Under S0 nothing is pending here anyway.)
		s.NewInstance()
		(*n).Close()
		nn, err := openNode(dir)
		if err != nil {
			wal, _ := os.ReadFile(dir + "/tmp.data")
			panic(fmt.Sprintf("harness: clean restart inside the workload failed: %v; tmp.data has %d bytes [%s]", err, len(wal), describeWal(wal)))
		}
		*n = nn
	default:
		panic("bad step " + st)
	}
	if st[0] == 'K' || st[0] == 'C' {
		if got := (*n).BC.StableBlock().Height(); int(got) != h {
			panic(fmt.Sprintf("harness: after step %s the stable height is %d", st, got))
		}
		s.Mark(fmt.Sprintf("promoted %d", h))
	}
}

// runHistory executes hist under sched on a fresh copy of the base image.
func (w *world) runHistory(hist History, sched Sched, order int) *RunLog {
	newEpoch()
	dir := core.ScratchDir("c08run")
	defer os.RemoveAll(dir)
	w.setup.Base.materialise(dir)
	vorder.SetPolicy(order)
	defer vorder.SetPolicy(1)
	rl := &RunLog{History: hist, Sched: sched, Order: order}
	s := vfs.Begin(dir)
	// the foreground's reads of the store's files are gate points too (never logged): whatever the
	// writer may do under the schedule has happened when the foreground reads
	s.GateReads = true
	// windows count background operations: wrap the schedule so that a window's allowance shrinks by
	// the operations that ran at its earlier points
	if len(sched.Windows) > 0 {
		left := make([]int, len(sched.Windows))
		for i, wd := range sched.Windows {
			left[i] = wd.Perm
		}
		lastMoves := 0
		lastWin := -1
		s.Schedule = func(i int, what string) int {
			moves := s.ForcedMoves // read under the session's lock (Schedule is called with it held)
			if lastWin >= 0 {
				left[lastWin] -= moves - lastMoves
				if left[lastWin] < 0 {
					left[lastWin] = 0
				}
			}
			lastMoves = moves
			lastWin = -1
			for k, wd := range sched.Windows {
				if i >= wd.From && i < wd.To {
					lastWin = k
					return left[k]
				}
			}
			return vfs.Unlimited
		}
	}
	s.Mark("step open")
	rl.StepFg = append(rl.StepFg, 0)
	n, err := openNode(dir)
	if err != nil {
		rl.FailedStep, rl.Failure = "open", "the cleanly closed base image does not open: "+err.Error()
		rl.Ops = s.Log
		s.End()
		return rl
	}
	s.GatePoint("idle")
	for _, st := range hist.Steps {
		rl.StepFg = append(rl.StepFg, s.FgPoints())
		s.Mark("step " + st)
		if msg := protect(func() { w.step(s, dir, &n, st) }); msg != "" {
			rl.FailedStep, rl.Failure = st, msg
			break
		}
		// the node is idle until the next message arrives: under S0 the writer drains here
		s.GatePoint("idle")
	}
	if rl.Failure != "" {
		rl.Ops = s.Log
		s.End()
		return rl
	}
	rl.StepFg = append(rl.StepFg, s.FgPoints())
	s.Mark("step final-drain")
	s.Drain()
	s.Mark("end")
	rl.Ops = s.Log
	rl.FgPoints, rl.ForcedMoves, rl.FreeMoves, rl.Timeouts, rl.LockWaitsBG, rl.LockWaitsFG, rl.Broken = s.FgPoints(), s.ForcedMoves, s.FreeMoves, s.Timeouts, s.LockWaitsBG, s.LockWaitsFG, s.Broken
	if s.BgPanic != "" {
		rl.Broken = "store goroutine panicked during the workload: " + s.BgPanic
	}
	s.End()
	n.Close()
	return rl
}

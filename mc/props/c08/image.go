package main

// Crash images: the content of a data directory as a value (files + logical LevelDB content),
// built by applying a prefix of an operation log — plus, possibly, a prefix of the write in
// flight — to the base image; materialised into a real directory for the real recovery code.

import (
	"bytes"
	"crypto/sha256"
	"encoding/binary"
	"encoding/hex"
	"fmt"
	"os"
	"path/filepath"
	"sort"
	"strings"

	"verifmc/vfs"

	"github.com/LemoFoundationLtd/lemochain-core/common/rlp"
	"github.com/syndtr/goleveldb/leveldb"
	"github.com/syndtr/goleveldb/leveldb/filter"
	"github.com/syndtr/goleveldb/leveldb/opt"
)

type Image struct {
	Files map[string][]byte // relative path -> content (everything outside index/)
	Dirs  map[string]bool
	LDB   map[string][]byte // logical content of index/
}

func newImage() *Image {
	return &Image{Files: map[string][]byte{}, Dirs: map[string]bool{}, LDB: map[string][]byte{}}
}

func openLDB(path string) *leveldb.DB {
	db, err := leveldb.OpenFile(path, &opt.Options{OpenFilesCacheCapacity: 16, BlockCacheCapacity: 8 * opt.MiB, WriteBuffer: 4 * opt.MiB, Filter: filter.NewBloomFilter(10)})
	if err != nil {
		panic("harness: cannot open leveldb " + path + ": " + err.Error())
	}
	return db
}

// readImage loads a quiescent, closed data directory.
func readImage(dir string) *Image {
	im := newImage()
	err := filepath.Walk(dir, func(p string, info os.FileInfo, err error) error {
		if err != nil {
			return err
		}
		rel, _ := filepath.Rel(dir, p)
		if rel == "." {
			return nil
		}
		if rel == "index" {
			return filepath.SkipDir
		}
		if info.IsDir() {
			im.Dirs[rel] = true
			return nil
		}
		b, err := os.ReadFile(p)
		if err != nil {
			return err
		}
		im.Files[rel] = b
		return nil
	})
	if err != nil {
		panic(err)
	}
	db := openLDB(filepath.Join(dir, "index"))
	it := db.NewIterator(nil, nil)
	for it.Next() {
		im.LDB[string(it.Key())] = append([]byte(nil), it.Value()...)
	}
	it.Release()
	if err := it.Error(); err != nil {
		panic(err)
	}
	db.Close()
	return im
}

func (im *Image) clone() *Image {
	c := newImage()
	for k, v := range im.Files {
		c.Files[k] = v // contents are replaced, never modified in place (see apply)
	}
	for k := range im.Dirs {
		c.Dirs[k] = true
	}
	for k, v := range im.LDB {
		c.LDB[k] = v
	}
	return c
}

// apply performs op on the image; partial >= 0 limits a write to its first `partial` bytes.
func (im *Image) apply(op *vfs.Op, partial int) {
	switch op.Kind {
	case "create":
		im.Files[op.Path] = []byte{}
	case "remove":
		delete(im.Files, op.Path)
	case "truncate":
		old := im.Files[op.Path]
		nb := make([]byte, op.Off)
		copy(nb, old)
		im.Files[op.Path] = nb
	case "rename":
		if b, ok := im.Files[op.Path]; ok {
			im.Files[op.Note] = b
			delete(im.Files, op.Path)
		}
	case "mkdir":
		p := op.Path
		for p != "." && p != "" && p != "/" {
			im.Dirs[p] = true
			p = filepath.Dir(p)
		}
	case "write":
		data := op.Data
		if partial >= 0 && partial < len(data) {
			data = data[:partial]
		}
		old := im.Files[op.Path]
		end := int(op.Off) + len(data)
		n := len(old)
		if end > n {
			n = end
		}
		nb := make([]byte, n)
		copy(nb, old)
		copy(nb[op.Off:], data)
		im.Files[op.Path] = nb
	case "ldbput":
		im.LDB[string(op.Key)] = op.Val
	case "ldbdel":
		delete(im.LDB, string(op.Key))
	case "ldbbatch":
		for _, kv := range op.Batch {
			if kv.Del {
				delete(im.LDB, string(kv.Key))
			} else {
				im.LDB[string(kv.Key)] = kv.Val
			}
		}
	}
}

// materialise writes the image into a fresh directory.
func (im *Image) materialise(dir string) {
	if err := os.MkdirAll(dir, 0755); err != nil {
		panic(err)
	}
	dirs := make([]string, 0, len(im.Dirs))
	for d := range im.Dirs {
		dirs = append(dirs, d)
	}
	sort.Strings(dirs)
	for _, d := range dirs {
		if err := os.Mkdir(filepath.Join(dir, d), 0755); err != nil && !os.IsExist(err) {
			panic(err)
		}
	}
	for p, b := range im.Files {
		if err := os.WriteFile(filepath.Join(dir, p), b, 0644); err != nil {
			panic(err)
		}
	}
	db := openLDB(filepath.Join(dir, "index"))
	batch := new(leveldb.Batch)
	keys := make([]string, 0, len(im.LDB))
	for k := range im.LDB {
		keys = append(keys, k)
	}
	sort.Strings(keys)
	for _, k := range keys {
		batch.Put([]byte(k), im.LDB[k])
	}
	if err := db.Write(batch, nil); err != nil {
		panic(err)
	}
	if err := db.Close(); err != nil {
		panic(err)
	}
}

// ---------------------------------------------------------------------------------------------
// incremental digest: XOR of per-entry hashes, so that one operation costs one file hash

type digester struct {
	acc   [32]byte
	files map[string][32]byte
}

func entryHash(kind byte, name string, content []byte) [32]byte {
	h := sha256.New()
	h.Write([]byte{kind})
	var l [8]byte
	binary.LittleEndian.PutUint64(l[:], uint64(len(name)))
	h.Write(l[:])
	h.Write([]byte(name))
	h.Write(content)
	var out [32]byte
	copy(out[:], h.Sum(nil))
	return out
}

func (d *digester) xor(h [32]byte) {
	for i := range d.acc {
		d.acc[i] ^= h[i]
	}
}

func newDigester(im *Image) *digester {
	d := &digester{files: map[string][32]byte{}}
	for p, b := range im.Files {
		h := entryHash('f', p, b)
		d.files[p] = h
		d.xor(h)
	}
	for p := range im.Dirs {
		d.xor(entryHash('d', p, nil))
	}
	for k, v := range im.LDB {
		d.xor(entryHash('l', k, v))
	}
	return d
}

// track updates the digest for an operation about to be applied to im (call BEFORE im.apply) and
// returns a function to call after it.
func (d *digester) track(im *Image, op *vfs.Op) func() {
	switch op.Kind {
	case "create", "remove", "write", "truncate", "rename":
		paths := []string{op.Path}
		if op.Kind == "rename" {
			paths = append(paths, op.Note)
		}
		for _, p := range paths {
			if h, ok := d.files[p]; ok {
				d.xor(h)
				delete(d.files, p)
			}
		}
		return func() {
			for _, p := range paths {
				if b, ok := im.Files[p]; ok {
					h := entryHash('f', p, b)
					d.files[p] = h
					d.xor(h)
				}
			}
		}
	case "mkdir":
		var added []string
		p := op.Path
		for p != "." && p != "" && p != "/" {
			if !im.Dirs[p] {
				added = append(added, p)
			}
			p = filepath.Dir(p)
		}
		return func() {
			for _, p := range added {
				d.xor(entryHash('d', p, nil))
			}
		}
	case "ldbput", "ldbdel", "ldbbatch":
		keys := [][]byte{op.Key}
		if op.Kind == "ldbbatch" {
			keys = nil
			for _, kv := range op.Batch {
				keys = append(keys, kv.Key)
			}
		}
		seen := map[string]bool{}
		for _, k := range keys {
			if seen[string(k)] {
				continue
			}
			seen[string(k)] = true
			if v, ok := im.LDB[string(k)]; ok {
				d.xor(entryHash('l', string(k), v))
			}
		}
		return func() {
			for k := range seen {
				if v, ok := im.LDB[k]; ok {
					d.xor(entryHash('l', k, v))
				}
			}
		}
	}
	return func() {}
}

func (d *digester) sum() string { return hex.EncodeToString(d.acc[:12]) }

// tornDigest is the digest the image would have if only `partial` bytes of the write op arrived.
func (d *digester) tornDigest(im *Image, op *vfs.Op, partial int) string {
	acc := d.acc
	if h, ok := d.files[op.Path]; ok {
		for i := range acc {
			acc[i] ^= h[i]
		}
	}
	old := im.Files[op.Path]
	end := int(op.Off) + partial
	n := len(old)
	if end > n {
		n = end
	}
	nb := make([]byte, n)
	copy(nb, old)
	copy(nb[op.Off:], op.Data[:partial])
	h := entryHash('f', op.Path, nb)
	for i := range acc {
		acc[i] ^= h[i]
	}
	return hex.EncodeToString(acc[:12])
}

// ---------------------------------------------------------------------------------------------
// naming operations (what the evidence counts and what fingerprints say)

var flagNames = map[uint32]string{1: "blk", 2: "hgt", 3: "trie", 4: "act", 5: "txidx", 6: "code", 7: "kv", 8: "assetcode", 9: "assetid"}

const recordHeadLen = 18 // binary.Size(store.RecordHead{}): Flg u32, Len u32, TimeStamp u64, Crc u16

const batchRecordFlag = 0x42415443 // a whole batch as one record (see fixes/02): its value is the batch's records

// recordsIn parses the record stream of a write-ahead / bitcask write: the flags of the records and
// the offsets (relative to the start of the data) at which records start. A batch record is looked
// into: its inner records are listed (their starts are positions inside the outer record).
func recordsIn(data []byte) (flags []uint32, starts []int) {
	off := 0
	for off+recordHeadLen <= len(data) {
		flg := binary.LittleEndian.Uint32(data[off:])
		ln := binary.LittleEndian.Uint32(data[off+4:])
		if (flagNames[flg] == "" && flg != batchRecordFlag) || ln == 0 {
			break
		}
		total := recordHeadLen + int(ln)
		if total%256 != 0 {
			total += 256 - total%256
		}
		if flg == batchRecordFlag {
			starts = append(starts, off)
			if off+recordHeadLen+int(ln) <= len(data) {
				body := data[off+recordHeadLen : off+recordHeadLen+int(ln)]
				if content, rest1, err := rlp.SplitList(body); err == nil {
					h1 := len(body) - len(content) - len(rest1)
					if _, rest2, err := rlp.SplitString(content); err == nil {
						keyTotal := len(content) - len(rest2)
						if val, rest3, err := rlp.SplitString(rest2); err == nil {
							valOff := off + recordHeadLen + h1 + keyTotal + (len(rest2) - len(val) - len(rest3))
							f2, s2 := recordsIn(val)
							flags = append(flags, f2...)
							for _, s := range s2 {
								if s > 0 {
									starts = append(starts, valOff+s)
								}
							}
						}
					}
				}
			}
			off += total
			continue
		}
		flags = append(flags, flg)
		starts = append(starts, off)
		off += total
	}
	return
}

func recordTags(data []byte) string {
	flags, _ := recordsIn(data)
	set := map[string]bool{}
	for _, f := range flags {
		set[flagNames[f]] = true
	}
	if len(set) == 0 {
		return "?"
	}
	l := make([]string, 0, len(set))
	for n := range set {
		l = append(l, n)
	}
	sort.Strings(l)
	return strings.Join(l, "+")
}

func fileClass(path string) string {
	switch {
	case path == "tmp.data":
		return "wal"
	case strings.HasPrefix(path, "context.data"):
		return "ctx"
	case strings.HasSuffix(path, ".data"):
		return "cask"
	}
	return "dir"
}

var ldbPrefixes = []struct{ pre, suf, name string }{
	{"OFFSET", "offset", "curpos"},
	{"BH", "bh", "pos[hgt]"}, {"B", "b", "pos[blk]"}, {"AC", "ac", "pos[assetcode]"}, {"AI", "ai", "pos[assetid]"}, {"A", "a", "pos[act]"},
	{"TN", "tn", "pos[trie]"}, {"TX", "tx", "pos[txidx]"}, {"CC", "cc", "pos[code]"}, {"KV", "kv", "pos[kv]"},
}

func ldbKeyName(k []byte) string {
	if string(k) == "LEMO-CURRENT-BLOCK" {
		return "stable"
	}
	for _, p := range ldbPrefixes {
		if bytes.HasPrefix(k, []byte(p.pre)) && bytes.HasSuffix(k, []byte(p.suf)) && len(k) > len(p.pre)+len(p.suf) {
			return p.name
		}
	}
	return "other"
}

// opName: "F:write:wal[act+blk+hgt]", "B:ldb:curpos", "F:create:wal", "B:sync:cask" ...
func opName(op *vfs.Op) string {
	c := string(op.Class)
	switch op.Kind {
	case "write":
		fc := fileClass(op.Path)
		if fc == "ctx" {
			part := "body"
			if op.Off == 0 {
				part = "head"
			}
			return c + ":write:ctx[" + part + "]"
		}
		return c + ":write:" + fc + "[" + recordTags(op.Data) + "]"
	case "create", "remove", "sync", "mkdir", "truncate", "rename":
		return c + ":" + op.Kind + ":" + fileClass(op.Path)
	case "ldbput":
		return c + ":ldb:" + ldbKeyName(op.Key)
	case "ldbdel":
		return c + ":ldbdel:" + ldbKeyName(op.Key)
	case "ldbbatch":
		return c + ":ldbbatch"
	case "ldbopen", "ldbclose":
		return c + ":" + op.Kind
	case "mark":
		return "mark"
	}
	return c + ":" + op.Kind
}

// tears lists the torn variants of a write of n bytes at file offset off: 1 byte, every multiple of
// 256 bytes (record granularity; where file offset + t is a multiple of 4096 it is a page boundary
// as well), 1 byte short. kind names the class for counters and fingerprints.
type tear struct {
	n    int
	kind string
}

func tearsOf(op *vfs.Op) []tear {
	n := len(op.Data)
	if op.Kind != "write" || n <= 1 {
		return nil
	}
	var out []tear
	seen := map[int]bool{}
	add := func(t int, kind string) {
		if t <= 0 || t >= n || seen[t] {
			return
		}
		seen[t] = true
		out = append(out, tear{t, kind})
	}
	add(1, "1B")
	_, starts := recordsIn(op.Data)
	isStart := map[int]bool{}
	for _, s := range starts {
		isStart[s] = true
	}
	rec := fileClass(op.Path) != "ctx"
	for t := 256; t < n; t += 256 {
		unit := "256"
		if (int(op.Off)+t)%4096 == 0 {
			unit = "4096"
		}
		where := ""
		if rec {
			where = "@mid-record"
			if isStart[t] {
				where = "@record-boundary"
			}
		}
		add(t, unit+where)
	}
	add(n-1, "len-1")
	return out
}

// describeWal lists the records of a write-ahead file image (for replays and reports).
func describeWal(b []byte) string {
	var sb strings.Builder
	off := 0
	for off+recordHeadLen <= len(b) {
		flg := binary.LittleEndian.Uint32(b[off:])
		ln := int(binary.LittleEndian.Uint32(b[off+4:]))
		if (flagNames[flg] == "" && flg != batchRecordFlag) || ln == 0 {
			fmt.Fprintf(&sb, "@%d:garbage ", off)
			break
		}
		total := recordHeadLen + ln
		if total%256 != 0 {
			total += 256 - total%256
		}
		state := ""
		if off+recordHeadLen+ln > len(b) {
			state = "(torn)"
		} else {
			var body struct{ Key, Val []byte }
			if err := rlp.DecodeBytes(b[off+recordHeadLen:off+recordHeadLen+ln], &body); err != nil {
				state = "(undecodable)"
			}
		}
		name := flagNames[flg]
		if flg == batchRecordFlag {
			name = "batch{" + recordTags(b[off:]) + "}"
		}
		fmt.Fprintf(&sb, "@%d:%s%s ", off, name, state)
		off += total
	}
	return strings.TrimSpace(sb.String())
}

package main

// The oracle: recover a crash image with the real code and judge it by the statement's clauses.

import (
	"fmt"
	"os"
	"regexp"
	"sort"
	"strings"
	"time"

	"verifmc/core"
	"verifmc/node"
	"verifmc/vfs"

	"github.com/LemoFoundationLtd/lemochain-core/chain/types"
	"github.com/LemoFoundationLtd/lemochain-core/store"
)

type Problem struct {
	Class  string `json:"c"`
	Detail string `json:"d"`
}

// RecOp summarises one operation of a recovery's own log (for planning depth-2 cuts).
type RecOp struct {
	Name  string `json:"n"`
	Len   int    `json:"l,omitempty"`
	Tears []tear `json:"-"`
}

type EvalResult struct {
	Stable    int       `json:"stable"`
	Required  int       `json:"req"`
	Problems  []Problem `json:"p,omitempty"`
	RecOps    []RecOp   `json:"rec,omitempty"`
	RecWrites int       `json:"recw"`
	Cont      int       `json:"cont"`
	ContDone  bool      `json:"contdone"`
	Abandoned bool      `json:"abandoned,omitempty"`
	Timeouts  int       `json:"timeouts,omitempty"`
	// StallsNotReproduced: a first evaluation hit the gate's real-time cap, this (second) one did not
	StallsNotReproduced int            `json:"stallsnr,omitempty"`
	Us                  map[string]int `json:"us,omitempty"`
}

func (r *EvalResult) add(class, detail string) {
	for _, p := range r.Problems {
		if p.Class == class {
			return
		}
	}
	if len(detail) > 400 {
		detail = detail[:400] + " …"
	}
	r.Problems = append(r.Problems, Problem{class, detail})
}

func (r *EvalResult) classes() []string {
	l := make([]string, 0, len(r.Problems))
	for _, p := range r.Problems {
		l = append(l, p.Class)
	}
	sort.Strings(l)
	return l
}

func (r *EvalResult) outcome() string {
	w := "no"
	if r.RecWrites > 0 {
		w = "yes"
	}
	return fmt.Sprintf("stable=%d(req %d) recovery-writes=%s problems=[%s]", r.Stable, r.Required, w, strings.Join(r.classes(), ","))
}

var (
	reHex   = regexp.MustCompile(`0x[0-9a-fA-F]+|[0-9a-fA-F]{8,}`)
	reNum   = regexp.MustCompile(`[0-9]+`)
	reSpace = regexp.MustCompile(`\s+`)
)

// normMsg makes an error / panic text usable inside a fingerprint.
func normMsg(s string) string {
	if i := strings.IndexByte(s, '\n'); i >= 0 {
		s = s[:i]
	}
	s = reHex.ReplaceAllString(s, "#")
	s = reNum.ReplaceAllString(s, "N")
	s = reSpace.ReplaceAllString(strings.TrimSpace(s), " ")
	if len(s) > 90 {
		s = s[:90]
	}
	return s
}

// protect runs f and turns a panic into an error text.
func protect(f func()) (msg string) {
	defer func() {
		if p := recover(); p != nil {
			msg = fmt.Sprint(p)
		}
	}()
	f()
	return ""
}

// check evaluates clauses (3)-(6) on a node whose stable height is `stable`. phase prefixes nothing:
// the caller records the phase in the detail.
func (w *world) check(n *node.Node, stable int, phase string, r *EvalResult) {
	db := n.DB
	ref := &w.setup.Ref[stable]
	// (3) blocks 0..stable readable by height and by hash, hash-linked
	for h := 0; h <= stable; h++ {
		want := w.blocks[h]
		b, err := db.GetBlockByHeight(uint32(h))
		if err != nil || b == nil {
			r.add("block-unreadable/by-height", fmt.Sprintf("%s: height %d of stable %d: %v", phase, h, stable, err))
			continue
		}
		if b.Hash() != want.Hash() {
			r.add("height-index-names-another-block", fmt.Sprintf("%s: height %d -> %x, the chain has %x", phase, h, b.Hash().Bytes()[:4], want.Hash().Bytes()[:4]))
		}
		if h > 0 && b.ParentHash() != w.blocks[h-1].Hash() {
			r.add("chain-not-hash-linked", fmt.Sprintf("%s: height %d", phase, h))
		}
		bh, err := db.GetBlockByHash(want.Hash())
		if err != nil || bh == nil {
			r.add("block-unreadable/by-hash", fmt.Sprintf("%s: height %d of stable %d: %v", phase, h, stable, err))
			continue
		}
		if bh.Hash() != want.Hash() || bh.Height() != uint32(h) {
			r.add("block-record-garbled", fmt.Sprintf("%s: block %d read by hash has hash %x height %d", phase, h, bh.Hash().Bytes()[:4], bh.Height()))
		}
		if len(bh.Txs) != len(want.Txs) || len(bh.ChangeLogs) != len(want.ChangeLogs) {
			r.add("block-record-garbled", fmt.Sprintf("%s: block %d has %d txs %d logs, expected %d / %d", phase, h, len(bh.Txs), len(bh.ChangeLogs), len(want.Txs), len(want.ChangeLogs)))
		}
	}
	// (4) account data as of exactly the stable block, (5) their tries and code
	for _, a := range w.watch {
		got := dumpFlat(db, a)
		want := ref.Accounts[a.Hex()]
		if got != want {
			kind := "garbled"
			for h := range w.setup.Ref {
				if w.setup.Ref[h].Accounts[a.Hex()] == got {
					if h > stable {
						kind = "ahead"
					} else {
						kind = "behind"
					}
					break
				}
			}
			if strings.HasPrefix(got, "error:") {
				kind = "unreadable"
			}
			r.add("account-data-not-of-the-stable-block/"+kind, fmt.Sprintf("%s: stable %d, account %s: got {%s} want {%s}", phase, stable, a.String(), got, want))
			continue
		}
		d, err := db.GetAccount(a)
		if err != nil || d == nil {
			continue
		}
		tr, code, _, err := accountTries(db, d)
		if err != nil {
			r.add("account-trie-or-code-unreadable", fmt.Sprintf("%s: stable %d, account %s: %v", phase, stable, a.String(), err))
			continue
		}
		if tr != ref.Tries[a.Hex()] || code != ref.Codes[a.Hex()] {
			r.add("account-trie-or-code-differs", fmt.Sprintf("%s: stable %d, account %s: tries {%s} code %s, reference {%s} %s", phase, stable, a.String(), tr, code, ref.Tries[a.Hex()], ref.Codes[a.Hex()]))
		}
	}
	// (5) the version trie of the stable block
	if sb, err := db.GetBlockByHash(w.blocks[stable].Hash()); err == nil && sb != nil {
		dg, _, err := trieLeaves(db, sb.VersionRoot())
		if err != nil {
			r.add("version-trie-unreadable", fmt.Sprintf("%s: stable %d: %v", phase, stable, err))
		} else if dg != ref.Tries["version"] {
			r.add("version-trie-differs", fmt.Sprintf("%s: stable %d", phase, stable))
		}
	}
	// (6) candidate list
	var cands string
	if msg := protect(func() { cands = dumpCandidates(db.GetCandidatesTop(w.blocks[stable].Hash())) }); msg != "" {
		r.add("candidate-list-unreadable", fmt.Sprintf("%s: stable %d: panic: %s", phase, stable, msg))
	} else if cands != ref.Candidates {
		r.add("candidate-list-not-of-the-stable-block", fmt.Sprintf("%s: stable %d: got [%s] want [%s]", phase, stable, cands, ref.Candidates))
	}
}

type evalOpts struct {
	Mode   string // "hold": the writer is held until NewBlockChain has returned; "eager": it runs whenever the startup scan reads
	ContTo int    // the continuation inserts blocks up to this height
	Light  bool   // clauses (1)-(6) only (no continuation, no second restart)
}

// evaluate recovers img and judges it. It returns the recovery's own operation log as well.
func (w *world) evaluate(img *Image, required int, o evalOpts) (*EvalResult, []vfs.Op) {
	r := &EvalResult{Required: required, Stable: -1, Us: map[string]int{}}
	t0 := time.Now()
	lap := func(name string) {
		r.Us[name] += int(time.Since(t0).Microseconds())
		t0 = time.Now()
	}
	newEpoch()
	dir := core.ScratchDir("c08img")
	defer func() {
		t0 = time.Now()
		os.RemoveAll(dir)
		lap("cleanup")
	}()
	img.materialise(dir)
	lap("materialise")

	s := vfs.Begin(dir)
	// the foreground's reads are gate points: in mode "eager" the writer drains whenever the startup
	// code reads; in mode "hold" it stays parked in front of its first operation until NewBlockChain
	// has returned and the oracle has read once
	s.GateReads = true
	if o.Mode != "eager" {
		s.Schedule = func(int, string) int { return 0 }
	}
	n, err := openNode(dir)
	lap("reopen")
	finishSession := func() []vfs.Op {
		r.Timeouts += s.Timeouts
		log := s.Log
		s.End()
		return log
	}
	if err != nil {
		// (1) the directory does not open
		r.add("reopen-fails/"+normMsg(err.Error()), err.Error())
		r.Abandoned = true
		return r, finishSession()
	}
	if s.BgPanic != "" {
		r.add("store-goroutine-panics/"+normMsg(s.BgPanic), "during reopen: "+s.BgPanic)
		r.Abandoned = true
		return r, finishSession()
	}
	if o.Mode == "eager" {
		s.Schedule = func(int, string) int { return 0 }
	}
	sb := n.BC.StableBlock()
	r.Stable = int(sb.Height())
	known := r.Stable <= chainLen && sb.Hash() == w.blocks[r.Stable].Hash()
	if !known {
		r.add("stable-block-is-not-a-block-of-the-chain", fmt.Sprintf("stable height %d hash %x", r.Stable, sb.Hash().Bytes()[:4]))
		r.Abandoned = true
		return r, finishSession()
	}
	// (2)
	if r.Stable < required {
		r.add("stable-block-older-than-a-completed-promotion", fmt.Sprintf("recovered stable height %d, promotion of %d had completed", r.Stable, required))
	}
	if cur := n.BC.CurrentBlock(); cur.Hash() != sb.Hash() {
		r.add("current-block-differs-from-stable-after-restart", fmt.Sprintf("current %d stable %d", cur.Height(), r.Stable))
	}
	if msg := protect(func() { w.check(n, r.Stable, "before-redelivery", r) }); msg != "" {
		r.add("read-panics/"+normMsg(msg), "before redelivery: "+msg)
	}
	lap("read1")
	// the writer redelivers the write-ahead file
	ok := s.Drain()
	lap("redelivery")
	if s.BgPanic != "" {
		r.add("store-goroutine-panics/"+normMsg(s.BgPanic), "while redelivering the write-ahead file: "+s.BgPanic)
		r.Abandoned = true
		return r, finishSession()
	}
	if !ok {
		r.add("writer-does-not-finish-redelivery", s.Broken)
		r.Abandoned = true
		return r, finishSession()
	}
	if msg := protect(func() { w.check(n, r.Stable, "after-redelivery", r) }); msg != "" {
		r.add("read-panics/"+normMsg(msg), "after redelivery: "+msg)
	}
	lap("read2")
	rec := finishSession()
	for i := range rec {
		op := &rec[i]
		if op.Kind == "mark" {
			continue
		}
		r.RecOps = append(r.RecOps, RecOp{Name: opName(op), Len: len(op.Data)})
		if op.Kind != "ldbopen" && op.Kind != "sync" {
			r.RecWrites++
		}
	}
	if o.Light {
		n.Quiesce()
		n.Close()
		return r, rec
	}
	// (7) the restarted node accepts the continuous node's later blocks and derives the same hashes
	final := r.Stable
	for h := r.Stable + 1; h <= o.ContTo; h++ {
		var ierr error
		if msg := protect(func() { ierr = n.BC.InsertBlock(w.wire(h, true)) }); msg != "" {
			r.add("later-block-panics/"+normMsg(msg), fmt.Sprintf("block %d on recovered stable %d: %s", h, r.Stable, msg))
			r.Abandoned = true
			return r, rec
		}
		if ierr != nil {
			r.add(fmt.Sprintf("later-block-rejected/stable+%d", h-r.Stable), fmt.Sprintf("block %d on recovered stable %d: %v", h, r.Stable, ierr))
			break
		}
		st, cur := n.BC.StableBlock(), n.BC.CurrentBlock()
		if st.Hash() != w.blocks[h].Hash() || cur.Hash() != w.blocks[h].Hash() {
			r.add("continuation-diverges", fmt.Sprintf("after block %d: stable %d current %d", h, st.Height(), cur.Height()))
			break
		}
		final = h
		r.Cont++
	}
	if !n.Quiesce() {
		r.add("writer-does-not-finish-after-restart", "pending writes never reached zero during the continuation")
		r.Abandoned = true
		return r, rec
	}
	if sp := takeStrayPanics(); len(sp) > 0 {
		r.add("store-goroutine-panics/"+normMsg(sp[0]), "during the continuation: "+sp[0])
		r.Abandoned = true
		return r, rec
	}
	if final > r.Stable {
		if msg := protect(func() { w.check(n, final, "after-continuation", r) }); msg != "" {
			r.add("read-panics/"+normMsg(msg), "after continuation: "+msg)
		}
	}
	r.ContDone = true
	lap("continuation")
	// a second, clean restart changes nothing
	n.Close()
	n2, err := openNode(dir)
	if err != nil {
		r.add("second-restart-fails/"+normMsg(err.Error()), err.Error())
		r.Abandoned = true
		return r, rec
	}
	if got := int(n2.BC.StableBlock().Height()); got != final || n2.BC.StableBlock().Hash() != w.blocks[final].Hash() {
		r.add("second-restart-changes-the-stable-block", fmt.Sprintf("stable %d before, %d after", final, got))
	} else {
		pre := len(r.Problems)
		if msg := protect(func() { w.check(n2, final, "after-second-restart", r) }); msg != "" {
			r.add("read-panics/"+normMsg(msg), "after second restart: "+msg)
		}
		_ = pre
	}
	n2.Quiesce()
	if sp := takeStrayPanics(); len(sp) > 0 {
		r.add("store-goroutine-panics/"+normMsg(sp[0]), "after the second restart: "+sp[0])
		r.Abandoned = true
		return r, rec
	}
	n2.Close()
	lap("second_restart")
	return r, rec
}

var _ = types.SignData{}
var _ = store.ErrExist

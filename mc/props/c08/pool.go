package main

// Worker processes: the coordinator hands out one job at a time per worker over a pipe; a worker
// that dies (a panic in a goroutine nobody owns, log.Crit, a runtime fatal error) is restarted and
// the job it was working on is reported as died, with the tail of its stderr.

import (
	"bufio"
	"encoding/json"
	"fmt"
	"io"
	"os"
	"os/exec"
	"path/filepath"
	"strings"
	"sync"
	"syscall"
	"time"

	"verifmc/core"
)

type Job struct {
	ID   int    `json:"id"`
	Kind string `json:"kind"` // run | eval | d2

	// run
	History History `json:"hist,omitempty"`
	Sched   Sched   `json:"sched,omitempty"`
	Order   int     `json:"order,omitempty"`
	Out     string  `json:"out,omitempty"`

	// eval / d2
	RunFile string `json:"runfile,omitempty"`
	Cut     int    `json:"cut,omitempty"`
	Tear    int    `json:"tear,omitempty"` // bytes of the write in flight that arrived (0: none)
	Mode    string `json:"mode,omitempty"`
	ContTo  int    `json:"contto,omitempty"`
	Light   bool   `json:"light,omitempty"`
	// d2: evaluate the depth-2 images number D2From <= i < D2To of the recovery of (Cut, Tear)
	D2From int `json:"d2from,omitempty"`
	D2To   int `json:"d2to,omitempty"`
}

type D2Result struct {
	Index  int         `json:"i"`
	Cut2   int         `json:"cut2"`
	Tear2  int         `json:"tear2"`
	Pos    string      `json:"pos"`
	After  string      `json:"after"`
	Torn   string      `json:"torn,omitempty"`
	Digest string      `json:"dg"`
	Res    *EvalResult `json:"res"`
}

type Reply struct {
	ID      int         `json:"id"`
	Err     string      `json:"err,omitempty"`
	Run     *RunSummary `json:"run,omitempty"`
	Eval    *EvalResult `json:"eval,omitempty"`
	D2      []D2Result  `json:"d2,omitempty"`
	D2Total int         `json:"d2total,omitempty"`
	Gor     int         `json:"gor,omitempty"` // goroutines alive in the worker
	Died    bool        `json:"-"`
	DiedMsg string      `json:"-"`
	Killed  bool        `json:"-"` // stopped from outside (deadline / OOM killer): nothing is known
}

type RunSummary struct {
	Ops, FgPoints, ForcedMoves, FreeMoves, Timeouts, LockWaitsBG, LockWaitsFG int
	Broken, Digest                                                            string
	FailedStep, Failure                                                       string
}

type tail struct {
	mu  sync.Mutex
	buf []byte
}

func (t *tail) Write(p []byte) (int, error) {
	t.mu.Lock()
	t.buf = append(t.buf, p...)
	if len(t.buf) > 1<<16 {
		t.buf = t.buf[len(t.buf)-(1<<16):]
	}
	t.mu.Unlock()
	return len(p), nil
}

func (t *tail) String() string { t.mu.Lock(); defer t.mu.Unlock(); return string(t.buf) }

type worker struct {
	cmd   *exec.Cmd
	in    io.WriteCloser
	out   *bufio.Reader
	errb  *tail
	count int
	setup string
}

func (wk *worker) start() {
	exe, _ := os.Executable()
	wk.cmd = exec.Command(exe, "-tier", core.Opt.Tier, "-worker", "serve")
	// the workers' directories live below the coordinator's scratch directory: one RemoveAll at the
	// end also removes what a killed worker left behind
	wk.cmd.Env = append(os.Environ(), "GOMAXPROCS=2", "C08_SETUP="+wk.setup, "VERIF_SCRATCH="+filepath.Dir(wk.setup))
	wk.errb = &tail{}
	wk.cmd.Stderr = wk.errb
	in, _ := wk.cmd.StdinPipe()
	out, _ := wk.cmd.StdoutPipe()
	wk.in = in
	wk.out = bufio.NewReaderSize(out, 1<<22)
	if err := wk.cmd.Start(); err != nil {
		panic(err)
	}
	wk.count = 0
}

func (wk *worker) stop() {
	if wk.cmd != nil {
		wk.in.Close()
		wk.cmd.Process.Kill()
		wk.cmd.Wait()
		wk.cmd = nil
	}
}

const recycleEvery = 150

func (wk *worker) do(j *Job, limit time.Duration) Reply {
	if wk.cmd == nil || wk.count >= recycleEvery {
		wk.stop()
		wk.start()
	}
	wk.count++
	b, _ := json.Marshal(j)
	b = append(b, '\n')
	if _, err := wk.in.Write(b); err != nil {
		msg := wk.errb.String()
		wk.stop()
		return Reply{ID: j.ID, Died: true, DiedMsg: "write: " + err.Error() + "\n" + msg}
	}
	type res struct {
		line []byte
		err  error
	}
	ch := make(chan res, 1)
	go func() {
		line, err := wk.out.ReadBytes('\n')
		ch <- res{line, err}
	}()
	select {
	case rr := <-ch:
		if rr.err != nil {
			werr := wk.cmd.Wait()
			msg := fmt.Sprintf("worker exited: %v\n%s", werr, wk.errb.String())
			wk.cmd = nil
			killed := werr != nil && strings.Contains(werr.Error(), "signal: killed")
			return Reply{ID: j.ID, Died: true, DiedMsg: msg, Killed: killed}
		}
		var rp Reply
		if err := json.Unmarshal(rr.line, &rp); err != nil {
			wk.stop()
			return Reply{ID: j.ID, Died: true, DiedMsg: "bad worker reply: " + err.Error(), Killed: true}
		}
		return rp
	case <-time.After(limit):
		wk.cmd.Process.Signal(syscall.SIGQUIT)
		time.Sleep(time.Second)
		msg := wk.errb.String()
		wk.stop()
		return Reply{ID: j.ID, Died: true, DiedMsg: "per-job limit exceeded\n" + msg, Killed: true}
	}
}

// runJobs executes the jobs on n workers; handle is called (serialised) for every reply in
// completion order. It returns false when the internal deadline stopped it early.
func runJobs(setupPath string, n int, jobs []*Job, limit time.Duration, handle func(j *Job, rp Reply)) bool {
	if n > len(jobs) {
		n = len(jobs)
	}
	var mu sync.Mutex
	idx := 0
	complete := true
	done := 0
	started := time.Now()
	progress := os.Getenv("C08_PROGRESS") != ""
	var wg sync.WaitGroup
	for i := 0; i < n; i++ {
		wg.Add(1)
		go func() {
			defer wg.Done()
			wk := &worker{setup: setupPath}
			defer wk.stop()
			for {
				mu.Lock()
				if idx >= len(jobs) {
					mu.Unlock()
					return
				}
				if core.OutOfTime() {
					complete = false
					mu.Unlock()
					return
				}
				j := jobs[idx]
				idx++
				mu.Unlock()
				rp := wk.do(j, limit)
				if rp.Died && rp.Killed {
					// a loaded machine can stretch one job beyond the limit: once more on a fresh worker, 3x
					rp = wk.do(j, 3*limit)
				}
				mu.Lock()
				handle(j, rp)
				done++
				if progress && (done%50 == 0 || done == len(jobs)) {
					fmt.Fprintf(os.Stderr, "[c08] %s jobs: %d / %d done after %.0fs\n", jobs[0].Kind, done, len(jobs), time.Since(started).Seconds())
				}
				mu.Unlock()
			}
		}()
	}
	wg.Wait()
	return complete
}

// serve is the worker side.
func serve(run func(j *Job) Reply) {
	proto := os.Stdout
	os.Stdout = os.Stderr
	in := bufio.NewReaderSize(os.Stdin, 1<<20)
	out := bufio.NewWriter(proto)
	for {
		line, err := in.ReadBytes('\n')
		if err != nil {
			os.Exit(0)
		}
		var j Job
		if err := json.Unmarshal(line, &j); err != nil {
			fmt.Fprintln(os.Stderr, "bad request:", err)
			os.Exit(2)
		}
		rp := run(&j)
		rp.ID = j.ID
		b, _ := json.Marshal(rp)
		out.Write(b)
		out.WriteByte('\n')
		out.Flush()
	}
}

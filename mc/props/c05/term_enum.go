package main

import (
	"fmt"
	"os"
	"sort"
	"strings"

	"verifmc/core"

	"github.com/LemoFoundationLtd/lemochain-core/common"
)

// ---------------------------------------------------------------------------------------------
// alphabets of block letters (one letter = one block's ordered transaction list)

// the reward settings that matter for a window whose reward block pays term `cur`
func rewardLetters(cur uint32, full bool) []string {
	var l []string
	vals := []string{"0", "1L", "3L", "odd", "huge"}
	if !full {
		vals = []string{"3L", "odd", "huge"}
	}
	for _, v := range vals {
		l = append(l, fmt.Sprintf("s%d=%s", cur, v))
	}
	if full {
		l = append(l, fmt.Sprintf("s%d=pool", cur), fmt.Sprintf("s%d=neg", cur))
		// the term after (future when the window opens), a far future term, and the term before (overdue in window B)
		for _, t := range []uint32{cur + 1, cur + 2} {
			for _, v := range []string{"0", "1L", "odd", "huge"} {
				l = append(l, fmt.Sprintf("s%d=%s", t, v))
			}
		}
		if cur > 0 {
			l = append(l, fmt.Sprintf("s%d=odd", cur-1))
		}
		l = append(l, fmt.Sprintf("sX%d=1L", cur))
		if cur <= 1 {
			// LEMO sent along with an accepted / a refused setting
			l = append(l, fmt.Sprintf("s%d=1L$2", cur), fmt.Sprintf("sX%d=1L$2", cur))
		}
		// set + update in one block; set + update + a third change (refused: a value can be changed once)
		l = append(l, fmt.Sprintf("s%d=1L,s%d=3L", cur, cur), fmt.Sprintf("s%d=1L,s%d=3L,s%d=odd", cur, cur, cur))
	}
	return l
}

var (
	// the core of every window: unregister of every kind of account, top-ups, registration, income
	// address changes, transfers to / from candidates, a vote
	coreLetters = []string{"xC1", "xC3", "xD0", "xD1", "rC2", "xC2", "uC1+50", "uD0+100", "pD0alt", "pC3alt", "tC1X", "tXC1", "vVC1"}
	// everything else
	moreLetters = []string{"rC2+99", "rC2+150", "rC2-1", "uC1+100", "uC3+100", "uC2+100", "pD1alt", "pC1alt", "pD0zero",
		"tVX", "tXpool", "tXinc0", "vVD0", "vXC3",
		// several transactions in one block: two refunds pending at once; a refund receiver that also pays gas;
		// register + unregister / top-up in one block; top-up then unregister; income change with a fee in the same block
		"xC1,xC3", "xC1,tC1X", "rC2,xC2", "rC2,uC2+100", "uC1+50,xC1", "pD0alt,tVX", "pC3alt,tVX", "xD0,xD1", "tC1X,xC1",
		// a first registration with isCandidate=false; an unregister carrying an amount
		"rC2false", "xC1$5",
		// gas paid by somebody else for a registration, an unregistration, a top-up
		"rC2/X", "xC1/X", "uC1+50/X",
		// the node restarts before this (empty) block
		restartLetter,
		// boxes: unregister + a payment by the refund receiver; register + top-up; a box whose sub-transaction
		// fees are credited before an income address change in the same block, and after it
		"B:xC1;tC1X", "B:rC2;uC2+100", "B:tVX;xC3", "B:tVX,pD0alt", "pD0alt,B:tVX", "B:tVX,pC3alt", "B:xC1;xC3"}
)

func alphabetFor(cur uint32, size string) []string {
	switch size {
	case "small":
		return append(append([]string{}, coreLetters[:10]...), rewardLetters(cur, false)[:2]...)
	case "core":
		return append(append([]string{}, coreLetters...), rewardLetters(cur, false)...)
	case "full":
		return append(append(append([]string{}, coreLetters...), moreLetters...), rewardLetters(cur, true)...)
	}
	panic("alphabet " + size)
}

// ---------------------------------------------------------------------------------------------
// bounds per tier: (scenario, alphabet, K = max non-empty window blocks)

type termPlan struct {
	scen  string
	alpha string
	k     int
}

func termPlans() []termPlan {
	if core.Thorough() {
		return []termPlan{
			{"A", "full", 2}, {"A", "small", 3}, {"Ar", "core", 2}, {"Ar", "full", 1}, {"A'", "core", 2}, {"A'", "full", 1}, {"A''", "core", 2}, {"A''", "full", 1}, {"Ag", "core", 2}, {"Ag", "full", 1},
			{"B", "full", 2}, {"B", "small", 3}, {"B''", "full", 1}, {"Bu", "core", 2}, {"Bu", "full", 1},
		}
	}
	return []termPlan{
		{"A", "core", 2}, {"A", "full", 1}, {"Ar", "small", 2}, {"Ar", "full", 1}, {"A'", "full", 1}, {"A''", "full", 1}, {"Ag", "full", 1},
		{"B", "small", 2}, {"B", "full", 1}, {"B''", "full", 1}, {"Bu", "full", 1},
	}
}

// curTermOf: the term that the window's reward block pays
func curTermOf(sc *scenario) uint32 {
	rewardHeight := uint32(len(sc.prefix)) + 5
	return termInCharge(rewardHeight) - 1
}

// enumerateTerm lists every history of the tier, simplest first, without duplicates (a history
// reachable through two plans is run once).
func enumerateTerm() [][]string {
	seen := map[string]bool{}
	var out [][]string
	for _, p := range termPlans() {
		sc := tScenarios[p.scen]
		alpha := alphabetFor(curTermOf(sc), p.alpha)
		for _, h := range windowHistories(sc, alpha, p.k) {
			key := strings.Join(h, "|")
			if !seen[key] {
				seen[key] = true
				out = append(out, h)
			}
		}
	}
	// simplest first: fewer non-empty blocks, then fewer transactions
	weight := func(h []string) int {
		n := 0
		for _, l := range h[1:] {
			if l != "-" {
				n += 100 + len(blockTxNames(l))
			}
		}
		return n
	}
	sort.SliceStable(out, func(i, j int) bool { return weight(out[i]) < weight(out[j]) })
	return out
}

// windowHistories: every assignment of letters to the window heights with at most k non-empty blocks.
func windowHistories(sc *scenario, alpha []string, k int) [][]string {
	var out [][]string
	cur := make([]string, sc.window)
	var rec func(pos, used int)
	rec = func(pos, used int) {
		if pos == sc.window {
			h := append([]string{sc.name}, cur...)
			out = append(out, h)
			return
		}
		cur[pos] = "-"
		rec(pos+1, used)
		if used < k {
			for _, a := range alpha {
				cur[pos] = a
				rec(pos+1, used+1)
			}
		}
	}
	rec(0, 0)
	return out
}

// ---------------------------------------------------------------------------------------------
// worker side

// runTermShard executes the histories i, i+n, i+2n, ... Each scenario's prefix is executed once
// (template), every history starts from a copy of it.
func runTermShard(i, n int, r *core.Result) {
	hists := enumerateTerm()
	templates := map[string]*tTemplate{}
	defer func() {
		for _, t := range templates {
			os.RemoveAll(t.dir)
		}
	}()
	for k := i; k < len(hists); k += n {
		h := hists[k]
		core.Journal("term " + strings.Join(h, " | "))
		sc := tScenarios[h[0]]
		t := templates[sc.name]
		if t == nil {
			w := newTWorld()
			pr := core.NewResult(prop, "exploration")
			done := runTermBlocks(w, sc, []string{sc.name}, 0, len(sc.prefix), pr)
			if done != len(sc.prefix) || len(pr.Violations) > 0 {
				// the scripted prefix itself fails: report through the shard's result, skip the scenario
				r.Merge(pr)
				r.NotExhaustive(fmt.Sprintf("phase T: prefix of scenario %s stopped after %d of %d blocks", sc.name, done, len(sc.prefix)))
				w.close()
				templates[sc.name] = &tTemplate{}
				continue
			}
			t = w.freeze()
			templates[sc.name] = t
		}
		if t.dir == "" {
			continue
		}
		w := t.thaw()
		runTermBlocks(w, sc, h, len(sc.prefix), len(sc.prefix)+sc.window, r)
		w.close()
		r.Add("term_histories", 1)
		r.Add("evaluations", 1)
		// lagging confirms: histories with at most one non-empty block of the plain scenarios A and B
		// are executed once more with the confirms of the two blocks before the reward block held back
		// until the reward block is confirmed (the stable block stays at the snapshot block meanwhile).
		// The oracle runs on these blocks too. That the reward block itself then differs from the one
		// of the fully confirmed run is C01 material (the refund list is read from an index written
		// when blocks become stable): counted, not asserted.
		// (not with the restart letter: a restart forgets unconfirmed blocks, the node would have to sync them again)
		if (sc.name == "A" || sc.name == "B") && nonEmpty(h) <= 1 && !strings.Contains(strings.Join(h, " "), restartLetter) {
			w2 := t.thaw()
			first := uint32(len(sc.prefix)) + 1
			w2.holdConfirms = map[uint32]bool{first + 2: true, first + 3: true}
			runTermBlocks(w2, sc, h, len(sc.prefix), len(sc.prefix)+sc.window, r)
			w2.close()
			r.Add("term_histories_with_lagging_confirms", 1)
			reward := first + 4
			if a, b := w.hashes[reward], w2.hashes[reward]; a != b && a != (common.Hash{}) && b != (common.Hash{}) {
				r.Add("term_reward_block_depends_on_local_stable_pointer(not asserted, C01 material)", 1)
				r.Note("phase T: the reward block differs when the confirms of the two blocks before it arrive late (refund list = stable-only index) || %v", h)
			}
		}
		if k%997 == 0 {
			r.Sample(map[string]interface{}{"term_history": h})
		}
		if core.OutOfTime() {
			r.NotExhaustive(fmt.Sprintf("phase T: internal deadline at history %d of %d", k, len(hists)))
			break
		}
	}
}

// replayTerm re-runs one history from genesis (no template), and once more from the template.
func replayTerm(c termCase) int {
	failed := 0
	for _, mode := range []string{"from genesis", "from the scenario template (node reopened before the window)"} {
		r := core.NewResult(prop, "exploration")
		sc := tScenarios[c.Hist[0]]
		var w *tworld
		if mode == "from genesis" {
			w = newTWorld()
			w.verbose = true
			runTermHistory(w, c.Hist, r)
		} else {
			w0 := newTWorld()
			runTermBlocks(w0, sc, []string{sc.name}, 0, len(sc.prefix), r)
			t := w0.freeze()
			w = t.thaw()
			w.verbose = true
			runTermBlocks(w, sc, c.Hist, len(sc.prefix), len(sc.prefix)+sc.window, r)
			os.RemoveAll(t.dir)
		}
		w.close()
		fmt.Println("replay", mode, strings.Join(c.Hist, " | "))
		for _, l := range w.trace {
			fmt.Println(l)
		}
		for _, v := range r.Violations {
			fmt.Printf("VIOLATION-REPLAYED %s\n%s\n", v.Fingerprint, v.What)
		}
		for _, n := range r.Notes {
			fmt.Println("note:", n)
		}
		failed += len(r.Violations)
	}
	return failed
}

func nonEmpty(h []string) int {
	n := 0
	for _, l := range h[1:] {
		if l != "-" {
			n++
		}
	}
	return n
}

// compressNotes folds the per-history notes of phase T (one per worker and occurrence) into one line
// per distinct message with a count and the first history as the example.
func compressNotes(r *core.Result) {
	type agg struct {
		n       int
		example string
	}
	groups := map[string]*agg{}
	var order []string
	var rest []string
	for _, n := range r.Notes {
		if !strings.HasPrefix(n, "phase T:") {
			rest = append(rest, n)
			continue
		}
		key, ex := n, ""
		if i := strings.Index(n, " || "); i > 0 {
			key, ex = n[:i], n[i+4:]
		}
		g := groups[key]
		if g == nil {
			g = &agg{example: ex}
			groups[key] = g
			order = append(order, key)
		}
		g.n++
	}
	sort.Strings(order)
	if len(order) > 12 {
		rest = append(rest, fmt.Sprintf("phase T: %d further distinct notes dropped", len(order)-12))
		order = order[:12]
	}
	for _, k := range order {
		g := groups[k]
		if g.example != "" {
			rest = append(rest, fmt.Sprintf("%s (noted %d times; first: %s)", k, g.n, g.example))
		} else {
			rest = append(rest, fmt.Sprintf("%s (noted %d times)", k, g.n))
		}
	}
	r.Notes = rest
}

// termRuleText describes phase T for the evidence file.
func termRuleText() string {
	var parts []string
	for _, p := range termPlans() {
		sc := tScenarios[p.scen]
		parts = append(parts, fmt.Sprintf("%s/%s(%d letters)/K=%d", p.scen, p.alpha, len(alphabetFor(curTermOf(sc), p.alpha)), p.k))
	}
	return "PHASE T (term boundaries, TermDuration=8, InterimDuration=2, two deputies, real node: factory-mined block + other deputy's confirm through InsertBlock, stable before the next block): " +
		"every history = scenario prefix + one block letter per window height (A*: 7..12, B*: 15..20 = interim-1/term end, snapshot, interim, reward-1, reward block, reward+1) with at most K non-empty blocks, all positions x all letters; plans scenario/alphabet/K: " +
		strings.Join(parts, ", ") + "; letters: unregister (candidate, elected candidate, genesis deputy, in/out of office), register (min, +99, +150, 1 short, isCandidate=false), top-ups, income-address changes, transfers to/from candidates and into the pool address, votes, set-reward {terms cur-1..cur+2} x {0, 1 LEMO, 3 LEMO, 7 LEMO+3 mo, 900M-1 LEMO, 900M, negative} by the manager and by a stranger, with LEMO attached, set+update(+third change), gas paid by a third party, multi-transaction blocks, boxes, node restart before an empty block; " +
		"oracle S1-S4 of term.go after every block on the miner's post-state (sum of balance changes == salaries by an independent reference, 0 off reward blocks; no negative balance; deposit ledger; per-account fees / amounts / deposits / refunds / salaries); a distinct outcome of phase T is (height class, tx count, fees, issued, refund receivers, deposits paid)"
}

// termSelfCheck is the non-vacuity gate of phase T: every height class must have seen every kind of
// event, every reward setting class must have reached a reward block, refunds must have been paid
// at once and at the reward block, several in one block, and to an account paying gas in that block.
func termSelfCheck(r *core.Result) {
	if os.Getenv("C05_SKIP_TERM") != "" {
		r.NotExhaustive("phase T skipped (C05_SKIP_TERM)")
		return
	}
	classes := []string{"interim-1(term-end)", "snapshot(interim-start)", "interim", "reward-1", "reward", "reward+1"}
	var need []string
	for _, c := range classes {
		for _, k := range []string{"unregister", "register", "top-up", "profile-update", "transfer", "vote", "set-reward-ok", "set-reward-refused", "box"} {
			need = append(need, "term_tx/"+k+"@"+c)
		}
	}
	for _, s := range []string{"unset", "0", "1L", "3L(odd-per-deputy)", "7L+3mo(not-multiple-of-precision)", "huge", "negative"} {
		need = append(need, "term_reward_block/setting="+s)
	}
	need = append(need, "term_reward_block/issued>0", "term_refund/at-reward-block@reward", "term_refund/immediate@interim-1(term-end)", "term_refund/immediate@reward+1",
		"term_refund/immediate-or-at-reward(unregistered-in-reward-block)@reward", "term_blocks_with_more_than_one_refund", "term_refund_to_gas_payer_of_same_block",
		"term_fees_to_income_address_changed_in_block", "term_discarded_txs", "term_deputy_out_of_office_refunded_at_reward", "term_elected_term_paid_by_votes")
	var missing []string
	for _, k := range need {
		if r.Counters[k] == 0 {
			missing = append(missing, k)
		}
	}
	if len(missing) > 0 {
		r.NotExhaustive("phase T coverage self-check: never hit " + strings.Join(missing, ", "))
	}
	hit := map[string]int64{}
	for k, v := range r.Counters {
		if strings.HasPrefix(k, "term_") {
			hit[k] = v
		}
	}
	r.Extra["term_hit_counts"] = hit
}

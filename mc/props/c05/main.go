// C05 — LEMO is conserved; gas is charged exactly; balances never go negative.
//
// Bounded exhaustive enumeration: every ordered list (no repeats) of menu transactions up to the
// length bound is mined by the real assembler on the prefix state of the shared chain kit; the
// miner's post-state is compared with the parent state through a conservation monitor:
//   I1  sum over all accounts of (balance after - balance before) == -(burns)   (no reward block here)
//   I2  the miner's income address receives exactly sum(gasUsed x gasPrice) of the included txs
//   I3  single-transaction blocks: a failed transaction moves nothing but the fee; the payer pays
//       exactly gasUsed x gasPrice (+ the amount when it is also the sender and the tx succeeded)
//   I4  gasUsed <= gasLimit per transaction, header.GasUsed == sum, no balance negative
package main

import (
	"fmt"
	"math/big"
	"os"
	"sort"
	"strings"
	"time"

	"verifmc/chainkit"
	"verifmc/core"
	"verifmc/node"

	"github.com/LemoFoundationLtd/lemochain-core/chain/account"
	"github.com/LemoFoundationLtd/lemochain-core/chain/params"
	"github.com/LemoFoundationLtd/lemochain-core/chain/types"
	"github.com/LemoFoundationLtd/lemochain-core/common"
)

const prop = "C05"

var w *chainkit.World

type caseT struct {
	List []string `json:"list"`
}

func (c caseT) String() string { return "[" + strings.Join(c.List, ", ") + "]" }

func balanceAt(hash common.Hash, a common.Address) *big.Int {
	view, err := w.F.DB.GetActDatabase(hash)
	if err != nil {
		panic(err)
	}
	d, err := view.Get(a)
	if err != nil || d == nil || d.Balance == nil {
		return new(big.Int)
	}
	return new(big.Int).Set(d.Balance)
}

// subFees returns, for a box transaction, nothing extra: a box's GasUsed already contains its
// sub-transactions' gas (tx_processor.handleTx) and it is charged at the box's own price.
func feeOf(tx *types.Transaction) *big.Int {
	fee := new(big.Int).Mul(new(big.Int).SetUint64(tx.GasUsed()), tx.GasPrice())
	if tx.Type() == params.BoxTx {
		// the box's gasUsed contains the sub-transactions' gas, which their own payers bought at their
		// own prices: what the payers are charged in total is box-own-gas x box price + sum(sub gas x sub price)
		if box, err := types.GetBox(tx.Data()); err == nil {
			for _, s := range box.SubTxList {
				fee.Sub(fee, new(big.Int).Mul(new(big.Int).SetUint64(s.GasUsed()), tx.GasPrice()))
				fee.Add(fee, new(big.Int).Mul(new(big.Int).SetUint64(s.GasUsed()), s.GasPrice()))
			}
		}
	}
	return fee
}

func hasRunFail(b *types.Block, txHash common.Hash) bool {
	for _, l := range b.ChangeLogs {
		if ev, ok := l.NewVal.(*types.Event); ok && ev != nil {
			for _, t := range ev.Topics {
				if t == types.TopicRunFail && ev.TxHash == txHash {
					return true
				}
			}
		}
	}
	return false
}

// runCase checks the block mined from the list without a binding gas limit and then the blocks mined
// with every gas limit at which the miner's pool runs dry at one of the (sub-)transactions: what
// the miner drops because the block is full must cost nobody anything.
func runCase(c caseT, r *core.Result) {
	blk := runLimit(c, r, 0)
	if blk == nil {
		return
	}
	for _, limit := range chainkit.GasBoundaries(blk) {
		r.Add("gas_limit_variants", 1)
		runLimit(c, r, limit)
	}
}

func runLimit(c caseT, r *core.Result, limit uint64) *types.Block {
	viol := func(fp, what string) {
		if limit > 0 {
			fp = "full-block/" + fp
			what = fmt.Sprintf("with block gas limit %d: %s", limit, what)
		}
		r.Violate(prop+"/"+fp, what+"; tx list "+c.String(), c)
	}
	parent := w.Head.Hash()
	after := map[common.Address]*big.Int{}
	var addrs []common.Address
	var blk *types.Block
	inspect := func(am *account.Manager, b *types.Block) {
		set := map[common.Address]bool{}
		for _, a := range node.TouchedAddresses(b) {
			set[a] = true
		}
		for _, a := range account.VerifLoadedAddresses(am) {
			set[a] = true
		}
		for _, a := range w.Watch() {
			set[a] = true
		}
		for a := range set {
			addrs = append(addrs, a)
			if d := account.VerifAccountData(am, a); d != nil {
				after[a] = new(big.Int).Set(d.Balance)
			} else {
				after[a] = balanceAt(parent, a)
			}
		}
	}
	var err error
	func() {
		defer func() {
			if p := recover(); p != nil {
				err = fmt.Errorf("panic: %v", p)
			}
		}()
		blk, _, err = w.F.Make(node.BlockSpec{Parent: w.Head, Miner: node.Deputy(0), Time: chainkit.T0, Txs: w.Txs(c.List), Extra: "c05", NoSave: true, Inspect: inspect, GasLimit: limit})
	}()
	if err != nil {
		r.Add("miner_produced_no_block", 1)
		if strings.Contains(err.Error(), "negative") {
			viol("negative-balance-panic", "the assembler failed with "+err.Error())
		}
		r.Outcome("no-block:" + err.Error())
		return nil
	}
	r.Add("blocks_mined", 1)
	sort.Slice(addrs, func(i, j int) bool { return addrs[i].Hex() < addrs[j].Hex() })
	income := node.K("income0").Addr
	delta := map[common.Address]*big.Int{}
	sum := new(big.Int)
	for _, a := range addrs {
		d := new(big.Int).Sub(after[a], balanceAt(parent, a))
		delta[a] = d
		sum.Add(sum, d)
		if after[a].Sign() < 0 {
			viol("negative-balance", fmt.Sprintf("balance of %s is %s", a.Hex(), after[a]))
		}
	}
	packaged := map[string]*types.Transaction{}
	names := make([]string, 0)
	fees := new(big.Int)
	var gasSum uint64
	for _, tx := range blk.Txs {
		n := w.NameOf(tx)
		packaged[n] = tx
		names = append(names, n)
		fees.Add(fees, feeOf(tx))
		gasSum += tx.GasUsed()
		if tx.GasUsed() > tx.GasLimit() {
			viol("gas-used-exceeds-limit/"+n, fmt.Sprintf("%s used %d gas with limit %d", n, tx.GasUsed(), tx.GasLimit()))
		}
	}
	if gasSum != blk.GasUsed() {
		viol("header-gas-used-not-sum", fmt.Sprintf("header.GasUsed=%d, sum over txs=%d", blk.GasUsed(), gasSum))
	}
	// burns: the only burner of the menu is call-burn (contract "burn" self-destructs to itself);
	// it holds 5 LEMO from its deployment and receives 2 LEMO with the call
	burn := new(big.Int)
	if tx, ok := packaged["call-burn"]; ok && !hasRunFail(blk, tx.Hash()) {
		burn = node.Lemo(7)
	}
	want := new(big.Int).Neg(burn)
	if sum.Cmp(want) != 0 {
		diff := new(big.Int).Sub(sum, want)
		sign := "created"
		if diff.Sign() < 0 {
			sign = "destroyed"
		}
		viol("lemo-not-conserved/"+sign+"/"+kindsWithBox(names), fmt.Sprintf("sum of balance changes is %s, expected %s (%s %s mo); fees=%s deltas=%s", sum, want, sign, new(big.Int).Abs(diff), fees, fmtDeltas(delta)))
	}
	if delta[income].Cmp(fees) != 0 {
		viol("miner-income-not-sum-of-fees/"+kindsWithBox(names), fmt.Sprintf("income address received %s, sum(gasUsed x gasPrice) = %s", delta[income], fees))
	}
	// single-transaction blocks: exact per-tx accounting
	if len(c.List) == 1 && len(blk.Txs) == 1 {
		tx := blk.Txs[0]
		fee := feeOf(tx)
		payer, sender := tx.GasPayer(), tx.From()
		failed := hasRunFail(blk, tx.Hash())
		if failed {
			for _, a := range addrs {
				exp := new(big.Int)
				if a == payer {
					exp.Neg(fee)
				}
				if a == income {
					exp.Add(exp, fee)
				}
				if delta[a].Cmp(exp) != 0 {
					viol("failed-tx-moved-value/"+c.List[0], fmt.Sprintf("failed transaction changed %s by %s (expected %s)", a.Hex(), delta[a], exp))
				}
			}
			r.Add("single_failed_checked", 1)
		} else if tx.Type() != params.BoxTx && tx.Type() != params.RegisterTx {
			// (a register transaction may legitimately bring a deposit refund to its sender)
			// success: the payer pays the fee; the sender additionally parts with at most the amount
			out := new(big.Int).Neg(delta[payer])
			if payer != sender {
				if out.Cmp(fee) != 0 {
					viol("payer-not-charged-exactly/"+c.List[0], fmt.Sprintf("gas payer paid %s, fee is %s", out, fee))
				}
			} else {
				max := new(big.Int).Add(fee, tx.Amount())
				if out.Cmp(fee) < 0 || out.Cmp(max) > 0 {
					viol("sender-outflow-out-of-range/"+c.List[0], fmt.Sprintf("sender paid %s, fee %s, amount %s", out, fee, tx.Amount()))
				}
			}
			r.Add("single_success_checked", 1)
		}
	}
	r.Outcome(fmt.Sprintf("packaged=%d fees=%s burn=%s", len(blk.Txs), fees, burn))
	return blk
}

func kindsWithBox(names []string) string {
	// the class of blocks: does it contain a box?
	for _, n := range names {
		if strings.HasPrefix(n, "box") {
			return "block-contains-box"
		}
	}
	return "no-box"
}

func fmtDeltas(d map[common.Address]*big.Int) string {
	var l []string
	for a, v := range d {
		if v.Sign() != 0 {
			l = append(l, fmt.Sprintf("%x:%s", a[16:], v))
		}
	}
	sort.Strings(l)
	return strings.Join(l, " ")
}

func enumerate(maxLen int) []caseT {
	var out []caseT
	var rec func(prefix []string)
	rec = func(prefix []string) {
		if len(prefix) > 0 {
			out = append(out, caseT{append([]string{}, prefix...)})
		}
		if len(prefix) == maxLen {
			return
		}
		for _, m := range chainkit.Menu {
			dup := false
			for _, p := range prefix {
				if p == m {
					dup = true
				}
			}
			if !dup {
				rec(append(prefix, m))
			}
		}
	}
	rec(nil)
	sort.SliceStable(out, func(i, j int) bool { return len(out[i].List) < len(out[j].List) })
	return out
}

func main() {
	core.ParseFlags()
	node.Quiet()
	node.DropEngineGoroutines() // see mc/node/tasks.go
	if os.Getenv("C05_TERM_COUNT") != "" {
		for _, p := range termPlans() {
			sc := tScenarios[p.scen]
			a := alphabetFor(curTermOf(sc), p.alpha)
			fmt.Printf("%s %s letters=%d K=%d histories=%d\n", p.scen, p.alpha, len(a), p.k, len(windowHistories(sc, a, p.k)))
		}
		fmt.Println("total (deduplicated):", len(enumerateTerm()))
		return
	}
	if os.Getenv("C05_TERM_PROBE") != "" {
		tProbe()
		return
	}
	maxLen := 2
	if core.Thorough() {
		maxLen = 3
	}
	cases := enumerate(maxLen)
	if core.Opt.Replay != "" {
		var tc termCase
		if err := core.LoadReplay(core.Opt.Replay, &tc); err == nil && len(tc.Hist) > 0 {
			// a history of phase T (term boundaries)
			if replayTerm(tc) > 0 {
				os.Exit(1)
			}
			return
		}
		var c caseT
		if err := core.LoadReplay(core.Opt.Replay, &c); err != nil {
			fmt.Println(err)
			os.Exit(2)
		}
		w = chainkit.NewWorld(core.ScratchDir("c05w"))
		r := core.NewResult(prop, "exploration")
		runCase(c, r)
		w.F.Destroy()
		fmt.Println("replay", c.String())
		for _, v := range r.Violations {
			fmt.Printf("VIOLATION-REPLAYED %s\n%s\n", v.Fingerprint, v.What)
		}
		if len(r.Violations) > 0 {
			os.Exit(1)
		}
		return
	}
	if i, n, ok := core.IsWorker(); ok {
		r := core.NewResult(prop, "exploration")
		w = chainkit.NewWorld(core.ScratchDir("c05w"))
		for k := i; k < len(cases) && os.Getenv("C05_ONLY_TERM") == ""; k += n {
			core.Journal(cases[k].String())
			runCase(cases[k], r)
			r.Add("evaluations", 1)
			if k%499 == 0 {
				r.Sample(cases[k].List)
			}
			if core.OutOfTime() {
				r.NotExhaustive(fmt.Sprintf("internal deadline at case %d of %d", k, len(cases)))
				break
			}
		}
		w.F.Destroy()
		// phase T: term boundaries (term.go). It changes process-global parameters (term length),
		// so it runs after the first phase's world is gone.
		if r.Exhaustive && os.Getenv("C05_SKIP_TERM") == "" {
			runTermShard(i, n, r)
		}
		core.WorkerDone(r)
	}
	r := core.NewResult(prop, "exploration")
	r.Rule = fmt.Sprintf("all ordered lists without repeats of length 1..%d over the %d-transaction menu (all 11 tx types incl. value-forwarding / reverting / self-destructing contracts, gas payer, boxes with sub-transaction gas prices different from the box's, deposits) mined on the prefix state, and again with every block gas limit at which the pool runs dry at one of the (sub-)transactions (what a full block drops must cost nothing); conservation monitor I1-I4 on every block; a distinct outcome is (packaged count, total fees, burn)", maxLen, len(chainkit.Menu))
	r.Assume = []string{"phase 1: single deputy; ordinary heights (term boundaries are phase T)", "the only burner in the menu is the contract that self-destructs to itself"}
	r.Extra["cases"] = len(cases)
	r.Extra["term_histories_planned"] = len(enumerateTerm())
	r.Rule += " || " + termRuleText()
	r.Assume = append(r.Assume, "phase T: two genesis deputies, DeputyCount 2, every block confirmed by both deputies before the next is built (no forks; lagging confirms only in the small differential: histories of A and B with <= 1 non-empty block run again with the confirms of the two blocks before the reward block held back); burns do not occur in phase T's alphabet; WHEN a pending refund is paid and WHO receives a salary are not asserted (counted against the rule in term_refund_timing_differs / term_salary_receivers_differ)")
	// two written-out histories of phase T among the samples
	r.Sample(map[string]interface{}{"term_history": []string{"Ar", "xD0", "-", "xC1", "pD1alt", "tC1X,xC3", "xD1"}, "reads": "scenario Ar; block 7 = genesis deputy D0 unregisters (in office: refund deferred), 9 = elected candidate C1 unregisters in the interim, 10 = D1 changes its income address, 11 (reward block) = C1 pays 500 LEMO away and C3 unregisters, 12 = D1 unregisters (out of office: refunded at once)"})
	r.Sample(map[string]interface{}{"term_history": []string{"B", "xC1", "-", "-", "s1=huge", "B:tVX,pC3alt", "-"}, "reads": "scenario B (second boundary); 15 = deputy C1 unregisters, 18 = an attempt to raise term 1's reward to 899,999,999 LEMO (refused: the sum of all settings would pass 900M; the call burns its gas limit), 19 (reward block) = a box with a transfer, then the miner C3 changes its income address"})
	core.RunShards(r, core.Opt.Workers, nil, core.Opt.Budget+3*time.Minute, nil)
	compressNotes(r)
	termSelfCheck(r)
	core.Finish(r)
}

package main

import (
	"encoding/json"
	"fmt"
	"math/big"
	"sort"
	"strings"

	"verifmc/core"
	"verifmc/node"

	"github.com/LemoFoundationLtd/lemochain-core/chain/account"
	"github.com/LemoFoundationLtd/lemochain-core/chain/params"
	"github.com/LemoFoundationLtd/lemochain-core/chain/types"
	"github.com/LemoFoundationLtd/lemochain-core/common"
)

// histLetters expands a history (scenario name + window letters) into one block letter per height.
func histLetters(hist []string) (*scenario, []string) {
	sc := tScenarios[hist[0]]
	if sc == nil {
		panic("no scenario " + hist[0])
	}
	l := append([]string{}, sc.prefix...)
	l = append(l, hist[1:]...)
	for len(l) < len(sc.prefix)+sc.window {
		l = append(l, "-")
	}
	return sc, l
}

func txsOfLetter(letter string, h uint32) (types.Transactions, []string) {
	exp := tExpBase + uint64(h)*32
	if letter == fundLetter {
		txs := fundTxs(exp)
		names := make([]string, len(txs))
		for i := range names {
			names[i] = "fund"
		}
		return txs, names
	}
	if letter == restartLetter {
		return nil, nil
	}
	var txs types.Transactions
	names := blockTxNames(letter)
	for i, n := range names {
		l := letterOf(n)
		if l == nil {
			panic("no tx letter " + n)
		}
		txs = append(txs, l.mk(exp+8+uint64(i)))
	}
	return txs, names
}

// runTermHistory executes one history on the (fresh) world and evaluates the oracle after every
// block. It returns the number of blocks executed.
func runTermHistory(w *tworld, hist []string, r *core.Result) int {
	sc, _ := histLetters(hist)
	return runTermBlocks(w, sc, hist, 0, len(sc.prefix)+sc.window, r)
}

// runTermBlocks executes the blocks with index from..to-1 (index 0 = height 1) of the history.
func runTermBlocks(w *tworld, sc *scenario, hist []string, from, to int, r *core.Result) int {
	w.hist = hist
	_, letters := histLetters(hist)
	viol := func(fp, what string) {
		r.Violate(prop+"/term/"+fp, what+"; history "+strings.Join(hist, " | "), termCase{Hist: hist})
	}
	blocks := 0
	for i := from; i < to; i++ {
		letter := letters[i]
		h := uint32(i + 1)
		inWindow := i >= len(sc.prefix)
		txs, names := txsOfLetter(letter, h)
		nameByHash := map[common.Hash]string{}
		for j, tx := range txs {
			nameByHash[tx.Hash()] = names[j]
		}
		parent := w.head
		var post map[common.Address]acctView
		var addrs []common.Address
		var pre map[common.Address]acctView
		inspect := func(am *account.Manager, b *types.Block) {
			for _, a := range node.TouchedAddresses(b) {
				w.addrs[a] = true
			}
			for _, a := range account.VerifLoadedAddresses(am) {
				w.addrs[a] = true
			}
			addrs = w.sortedAddrs()
			pre = w.stateAt(parent.Hash(), addrs)
			post = map[common.Address]acctView{}
			for _, a := range addrs {
				if d := account.VerifAccountData(am, a); d != nil {
					post[a] = viewOf(d)
				} else {
					post[a] = pre[a]
				}
			}
		}
		var obs *blockObs
		var err error
		func() {
			defer func() {
				if p := recover(); p != nil {
					err = fmt.Errorf("panic: %v", p)
				}
			}()
			if letter == restartLetter {
				w.restart()
				if inWindow {
					r.Add("term_restarts@"+heightClass(h), 1)
				}
			}
			obs, err = w.mine(txs, sc.isLate(h), inspect)
		}()
		if err != nil {
			r.Add("term_miner_produced_no_block", 1)
			r.Outcome("T no-block:" + firstWords(err.Error(), 6))
			if strings.Contains(err.Error(), "panic") || strings.Contains(err.Error(), "negative") {
				viol("no-block/"+heightClass(h)+"/"+firstWords(err.Error(), 8), fmt.Sprintf("the miner cannot produce block %d [%s]: %v", h, letter, err))
			} else {
				r.Note("phase T: the miner produced no block (%v) || height %d [%s] in %v", err, h, letter, hist)
			}
			if w.verbose {
				w.trace = append(w.trace, fmt.Sprintf("h=%d [%s] NO BLOCK: %v", h, letter, err))
			}
			return blocks
		}
		blocks++
		r.Add("term_blocks", 1)
		if inWindow {
			r.Add("term_window_blocks", 1)
		}
		w.checkBlock(h, letter, parent, obs, nameByHash, pre, post, addrs, r, viol, inWindow)
		if !obs.accepted {
			// C01 material (the miner's block is not what a validator computes); counted, not asserted here
			r.Add("term_validator_rejected(not asserted)", 1)
			r.Outcome("T validator-rejected:" + firstWords(obs.rejected, 6))
			if r.Counters["term_validator_rejected(not asserted)"] <= 3 {
				r.Note("phase T: the node refused a block of the factory (%s) || block %d [%s] in %v", obs.rejected, h, letter, hist)
			}
			return blocks
		}
	}
	return blocks
}

func (sc *scenario) isLate(h uint32) bool {
	for _, l := range sc.late {
		if uint32(l) == h {
			return true
		}
	}
	return false
}

func firstWords(s string, n int) string {
	f := strings.Fields(s)
	if len(f) > n {
		f = f[:n]
	}
	return strings.Join(f, " ")
}

type termCase struct {
	Hist []string `json:"term_history"`
}

func bigOrZero(b *big.Int) *big.Int {
	if b == nil {
		return new(big.Int)
	}
	return b
}

// refSalaries is the reference division of a term reward (written from the rule, not from DivideSalary).
func refSalaries(total *big.Int, nodes types.DeputyNodes) []*big.Int {
	out := make([]*big.Int, len(nodes))
	sum := new(big.Int)
	for _, n := range nodes {
		sum.Add(sum, bigOrZero(n.Votes))
	}
	precision := node.Lemo(1)
	for i, n := range nodes {
		s := new(big.Int)
		if sum.Sign() == 0 {
			s.Quo(total, big.NewInt(int64(len(nodes))))
		} else {
			s.Mul(total, bigOrZero(n.Votes))
			s.Quo(s, sum)
		}
		s.Sub(s, new(big.Int).Rem(s, precision))
		out[i] = s
	}
	return out
}

func rewardClass(v *big.Int) string {
	switch {
	case v == nil:
		return "unset"
	case v.Sign() == 0:
		return "0"
	case v.Sign() < 0:
		return "negative"
	case v.Cmp(node.Lemo(1)) == 0:
		return "1L"
	case v.Cmp(node.Lemo(3)) == 0:
		return "3L(odd-per-deputy)"
	case v.Cmp(oddReward) == 0:
		return "7L+3mo(not-multiple-of-precision)"
	case v.Cmp(hugeReward) == 0:
		return "huge"
	}
	return "other"
}

func isUnregisterTx(tx *types.Transaction) bool {
	if tx.Type() != params.RegisterTx {
		return false
	}
	p := map[string]string{}
	if json.Unmarshal(tx.Data(), &p) != nil {
		return false
	}
	return p[types.CandidateKeyIsCandidate] == types.NotCandidateNode
}

func addrOfIncome(s string, fallback common.Address) (common.Address, bool) {
	if s == "" {
		return fallback, false
	}
	a, err := common.StringToAddress(s)
	if err != nil {
		return fallback, false
	}
	return a, true
}

func (w *tworld) checkBlock(h uint32, letter string, parent *types.Block, obs *blockObs, nameByHash map[common.Hash]string,
	pre, post map[common.Address]acctView, addrs []common.Address, r *core.Result, viol func(fp, what string), inWindow bool) {
	b := obs.block
	hc := heightClass(h)
	exp := map[common.Address]*big.Int{}
	add := func(a common.Address, v *big.Int) {
		if _, ok := exp[a]; !ok {
			exp[a] = new(big.Int)
		}
		exp[a].Add(exp[a], v)
		if _, ok := post[a]; !ok {
			// an address of the model that neither the block nor the fixture names: nothing changed it
			v0 := w.stateAt(parent.Hash(), []common.Address{a})[a]
			pre[a], post[a] = v0, v0
			w.addrs[a] = true
		}
	}
	sub := func(a common.Address, v *big.Int) { add(a, new(big.Int).Neg(v)) }
	pool := params.DepositPoolAddress

	// ---- transactions: fees, amounts, deposits paid, reward settings
	fees := new(big.Int)
	paid := map[common.Address]*big.Int{}
	candState := map[common.Address]string{} // isCandidate as the block's transactions leave it
	stateOf := func(a common.Address) string {
		if s, ok := candState[a]; ok {
			return s
		}
		if v, ok := pre[a]; ok {
			return v.isCand
		}
		return w.stateAt(parent.Hash(), []common.Address{a})[a].isCand
	}
	var gasSum uint64
	var packaged []string
	hasBox := false
	// one executed (sub-)transaction: its fee is gas x its own price, paid by its own payer
	var account1 func(tx *types.Transaction, name string, gas uint64, failed bool)
	account1 = func(tx *types.Transaction, name string, gas uint64, failed bool) {
		l := tLetters[name]
		fee := new(big.Int).Mul(new(big.Int).SetUint64(gas), tx.GasPrice())
		fees.Add(fees, fee)
		sub(tx.GasPayer(), fee)
		kind := "other"
		switch tx.Type() {
		case params.OrdinaryTx:
			kind = "transfer"
			if !failed && tx.To() != nil && tx.Amount().Sign() > 0 {
				sub(tx.From(), tx.Amount())
				add(*tx.To(), tx.Amount())
			}
			if l != nil && l.reward != nil {
				kind = w.applyRewardCall(h, l.reward, failed, r)
			}
		case params.VoteTx:
			kind = "vote"
		case params.RegisterTx:
			// (a RegisterTx that fails is never packaged: the miner discards it, a validator refuses the block)
			from := tx.From()
			wantsOut := isUnregisterTx(tx)
			payDeposit := func() {
				sub(from, tx.Amount())
				add(pool, tx.Amount())
				if paid[from] == nil {
					paid[from] = new(big.Int)
				}
				paid[from].Add(paid[from], tx.Amount())
			}
			switch st := stateOf(from); {
			case st == "":
				// first registration: the amount is the deposit, whatever isCandidate says
				kind = "register"
				payDeposit()
				if wantsOut {
					candState[from] = types.NotCandidateNode
				} else {
					candState[from] = types.IsCandidateNode
				}
			case st == types.IsCandidateNode && wantsOut:
				kind = "unregister" // the amount of an unregister transaction is not looked at
				candState[from] = types.NotCandidateNode
			case st == types.IsCandidateNode && tx.Amount().Sign() > 0:
				kind = "top-up"
				payDeposit()
			case st == types.IsCandidateNode:
				kind = "profile-update"
			default:
				kind = "register-after-unregister(packaged!)"
			}
		case params.BoxTx:
			kind = "box"
		}
		if inWindow {
			r.Add("term_tx/"+kind+"@"+hc, 1)
		}
	}
	for _, tx := range b.Txs {
		name := nameByHash[tx.Hash()]
		packaged = append(packaged, name)
		if tx.GasUsed() > tx.GasLimit() {
			viol("gas-used-exceeds-limit/"+name, fmt.Sprintf("block %d: %s used %d gas with limit %d", h, name, tx.GasUsed(), tx.GasLimit()))
		}
		gasSum += tx.GasUsed()
		own := tx.GasUsed()
		if tx.Type() == params.BoxTx {
			hasBox = true
			box, err := types.GetBox(tx.Data())
			if err != nil {
				panic(err)
			}
			subNames := strings.Split(strings.TrimPrefix(name, "B:"), ";")
			for i, st := range box.SubTxList {
				// a packaged box is all or nothing: every sub-transaction was executed
				account1(st, subNames[i], st.GasUsed(), hasRunFail(b, st.Hash()))
				own -= st.GasUsed()
			}
		}
		account1(tx, name, own, hasRunFail(b, tx.Hash()))
	}
	if obs.discards > 0 {
		r.Add("term_discarded_txs", int64(obs.discards))
	}
	if gasSum != b.GasUsed() {
		viol("header-gas-used-not-sum", fmt.Sprintf("block %d: header.GasUsed=%d, sum over txs=%d", h, b.GasUsed(), gasSum))
	}

	// ---- deposits: recorded amount before/after, refunds are all or nothing
	refunds := map[common.Address]*big.Int{}
	for _, a := range addrs {
		dPre, dPost := pre[a].deposit, post[a].deposit
		p := bigOrZero(paid[a])
		want := new(big.Int).Add(bigOrZero(dPre), p)
		switch {
		case dPost != nil && dPost.Cmp(want) == 0 && (dPre != nil || p.Sign() > 0):
			// still held, grown by what was paid
		case dPost == nil && dPre == nil && p.Sign() == 0:
			// never had one
		case dPost == nil:
			// the record was cleared: everything held must have been refunded
			refunds[a] = want
		default:
			viol("deposit-record/"+hc, fmt.Sprintf("block %d [%s]: deposit recorded for %s went from %v to %v although %s was paid in this block", h, letter, trole(a), dPre, dPost, p))
		}
	}
	refundNames := make([]string, 0)
	for a, v := range refunds {
		add(a, v)
		sub(pool, v)
		refundNames = append(refundNames, trole(a))
	}
	sort.Strings(refundNames)

	// ---- salaries
	issued := new(big.Int)
	rewardRelated := map[common.Address]bool{}
	setting := "-"
	if isRewardHeight(h) {
		t := termInCharge(h) - 1
		nodes := w.snap[t]
		var total *big.Int
		if e := w.rewards[t]; e != nil {
			total = e.value
		}
		setting = rewardClass(total)
		for _, n := range nodes {
			rewardRelated[n.MinerAddress] = true
			if a, ok := addrOfIncome(pre[n.MinerAddress].income, n.MinerAddress); ok {
				rewardRelated[a] = true
			}
			if a, ok := addrOfIncome(post[n.MinerAddress].income, n.MinerAddress); ok {
				rewardRelated[a] = true
			}
		}
		if total != nil && total.Sign() > 0 {
			for i, s := range refSalaries(total, nodes) {
				to, _ := addrOfIncome(post[nodes[i].MinerAddress].income, nodes[i].MinerAddress)
				add(to, s)
				issued.Add(issued, s)
			}
			if issued.Cmp(total) > 0 {
				panic("harness: reference issues more than the setting")
			}
		}
		if inWindow {
			r.Add("term_reward_block/setting="+setting, 1)
			if issued.Sign() > 0 {
				r.Add("term_reward_block/issued>0", 1)
				votes := new(big.Int)
				for _, n := range nodes {
					votes.Add(votes, bigOrZero(n.Votes))
				}
				if votes.Sign() > 0 {
					r.Add("term_elected_term_paid_by_votes", 1)
				}
			}
			for _, n := range nodes {
				if _, ok := refunds[n.MinerAddress]; ok {
					r.Add("term_deputy_out_of_office_refunded_at_reward", 1)
				}
			}
		}
	}

	// ---- fees to the miner's income address (as recorded after the block's transactions, or before)
	minerAcc := b.MinerAddress()
	incPost, okPost := addrOfIncome(post[minerAcc].income, minerAcc)
	incPre, okPre := addrOfIncome(pre[minerAcc].income, minerAcc)
	_ = okPre
	feeAlternatives := []common.Address{incPost}
	if incPre != incPost {
		feeAlternatives = append(feeAlternatives, incPre)
	}
	if !okPost && fees.Sign() > 0 {
		viol("miner-without-income-address/"+hc, fmt.Sprintf("block %d: the miner %s has no usable income address (%q): %s mo of fees have no receiver", h, trole(minerAcc), post[minerAcc].income, fees))
	}

	// ---- S1, S2
	sum := new(big.Int)
	delta := map[common.Address]*big.Int{}
	for _, a := range w.sortedAddrs() {
		if _, ok := post[a]; !ok {
			continue
		}
		d := new(big.Int).Sub(post[a].bal, pre[a].bal)
		delta[a] = d
		sum.Add(sum, d)
		if post[a].bal.Sign() < 0 {
			viol("negative-balance/"+hc, fmt.Sprintf("block %d [%s]: balance of %s is %s", h, letter, trole(a), post[a].bal))
		}
	}
	if sum.Cmp(issued) != 0 {
		diff := new(big.Int).Sub(sum, issued)
		sign := "created"
		if diff.Sign() < 0 {
			sign = "destroyed"
		}
		viol("lemo-not-conserved/"+sign+"/"+hc+"/setting="+setting+"/refunds="+fmt.Sprint(len(refunds)),
			fmt.Sprintf("block %d (%s) [%s]: sum of balance changes is %s, salaries issued by the rule %s (%s %s mo); fees=%s refunds=%v deltas=%s",
				h, hc, letter, sum, issued, sign, new(big.Int).Abs(diff), fees, refundNames, tfmtDeltas(delta)))
	}

	// ---- S3/S4 per account
	var bad []common.Address
	okWith := func(income common.Address) bool {
		bad = bad[:0]
		for a, d := range delta {
			e := new(big.Int).Set(bigOrZero(exp[a]))
			if a == income {
				e.Add(e, fees)
			}
			if d.Cmp(e) != 0 {
				bad = append(bad, a)
			}
		}
		return len(bad) == 0
	}
	ok := false
	for i, inc := range feeAlternatives {
		if okWith(inc) {
			ok = true
			if i == 1 {
				r.Add("term_fees_to_income_address_before_block(allowed)", 1)
			} else if len(feeAlternatives) > 1 && fees.Sign() > 0 {
				r.Add("term_fees_to_income_address_changed_in_block", 1)
			}
			break
		}
	}
	if !ok && hasBox && incPre != incPost {
		// the fees of a box's sub-transactions are credited when the box is executed, the others at the
		// end of the block: when the miner's income address changes in between, the old and the new
		// address share the fees. The statement does not say which of the two "the" income address is:
		// accept any split between them.
		okWith(incPost)
		if len(bad) <= 2 {
			net := new(big.Int)
			within := true
			for _, a := range bad {
				if a != incPre && a != incPost {
					within = false
				}
				e := new(big.Int).Set(bigOrZero(exp[a]))
				if a == incPost {
					e.Add(e, fees)
				}
				net.Add(net, new(big.Int).Sub(delta[a], e))
			}
			if within && net.Sign() == 0 {
				ok = true
				r.Add("term_fees_split_between_old_and_new_income_address(allowed)", 1)
			}
		}
	}
	if !ok {
		okWith(incPost)
		sort.Slice(bad, func(i, j int) bool { return trole(bad[i]) < trole(bad[j]) })
		// who receives a salary is not fixed by the statement: discrepancies confined to the rewarded
		// term's miner / income addresses that cancel out are only counted
		net := new(big.Int)
		allRelated := isRewardHeight(h)
		var parts []string
		for _, a := range bad {
			e := new(big.Int).Set(bigOrZero(exp[a]))
			if a == incPost {
				e.Add(e, fees)
			}
			net.Add(net, new(big.Int).Sub(delta[a], e))
			if !rewardRelated[a] {
				allRelated = false
			}
			parts = append(parts, fmt.Sprintf("%s: changed by %s, explained %s", trole(a), delta[a], e))
		}
		if allRelated && net.Sign() == 0 && issued.Sign() > 0 {
			r.Add("term_salary_receivers_differ_from_reference(not asserted)", 1)
		} else {
			cls := accountClass(bad, refunds, paid, incPost, rewardRelated)
			viol("account-delta/"+cls+"/"+hc, fmt.Sprintf("block %d (%s) [%s] packaged %v: %s; fees=%s to %s, refunds=%v, issued=%s", h, hc, letter, packaged, strings.Join(parts, "; "), fees, trole(incPost), refundNames, issued))
		}
	}

	// ---- refund timing against the rule (counted only) + coverage
	w.refundTiming(h, b, nameByHash, pre, post, refunds, r, inWindow)
	if inWindow {
		for a := range refunds {
			kind := "at-reward-block"
			if !isRewardHeight(h) {
				kind = "immediate"
			} else if unregisteredInBlock(b, a) {
				kind = "immediate-or-at-reward(unregistered-in-reward-block)"
			}
			r.Add("term_refund/"+kind+"@"+hc, 1)
			if paidFeeInBlock(b, a) {
				r.Add("term_refund_to_gas_payer_of_same_block", 1)
			}
		}
		if len(refunds) > 1 {
			r.Add("term_blocks_with_more_than_one_refund", 1)
		}
		r.Outcome(fmt.Sprintf("T %s txs=%d fees=%s issued=%s refunds=%s paid=%d", hc, len(b.Txs), fees, issued, strings.Join(refundNames, "+"), len(paid)))
	}
	if w.verbose {
		w.trace = append(w.trace, fmt.Sprintf("h=%d %s %-24s [%s] miner=%s packaged=%v discards=%d accepted=%v %s fees=%s issued=%s refunds=%v deputies-next=%s\n      deltas: %s",
			h, b.Hash().Prefix(), hc, letter, trole(b.MinerAddress()), packaged, obs.discards, obs.accepted, obs.rejected, fees, issued, refundNames, depNames(b.DeputyNodes), tfmtDeltas(delta)))
	}
}

func depNames(n types.DeputyNodes) string {
	var l []string
	for _, d := range n {
		l = append(l, fmt.Sprintf("%s(%s)", trole(d.MinerAddress), d.Votes))
	}
	return strings.Join(l, ",")
}

// flatTxs lists the executed transactions of a block, the sub-transactions of boxes included.
func flatTxs(b *types.Block) types.Transactions {
	var out types.Transactions
	for _, tx := range b.Txs {
		if tx.Type() == params.BoxTx {
			if box, err := types.GetBox(tx.Data()); err == nil {
				out = append(out, box.SubTxList...)
			}
		}
		out = append(out, tx)
	}
	return out
}

func unregisteredInBlock(b *types.Block, a common.Address) bool {
	for _, tx := range flatTxs(b) {
		if tx.From() == a && isUnregisterTx(tx) {
			return true
		}
	}
	return false
}

func paidFeeInBlock(b *types.Block, a common.Address) bool {
	for _, tx := range flatTxs(b) {
		if tx.GasPayer() == a && tx.GasUsed() > 0 {
			return true
		}
	}
	return false
}

// accountClass names the kind of account whose balance change is unexplained (for fingerprints).
func accountClass(bad []common.Address, refunds, paid map[common.Address]*big.Int, income common.Address, rewardRelated map[common.Address]bool) string {
	set := map[string]bool{}
	for _, a := range bad {
		switch {
		case a == params.DepositPoolAddress:
			set["pool"] = true
		case refunds[a] != nil:
			set["refunded-candidate"] = true
		case paid[a] != nil:
			set["deposit-payer"] = true
		case a == income:
			set["miner-income"] = true
		case rewardRelated[a]:
			set["salary-receiver"] = true
		default:
			isCand := false
			for _, k := range tCandidates {
				if k.Addr == a {
					isCand = true
				}
			}
			if isCand {
				set["candidate"] = true
			} else {
				set["other"] = true
			}
		}
	}
	l := make([]string, 0, len(set))
	for k := range set {
		l = append(l, k)
	}
	sort.Strings(l)
	return strings.Join(l, "+")
}

// applyRewardCall updates the reference model of the reward settings with a packaged set-reward
// call, whose success is taken from the block (no failure event); the rule's own prediction is
// compared and a difference counted.
func (w *tworld) applyRewardCall(h uint32, c *rewardCall, failed bool, r *core.Result) string {
	predicted := true
	switch {
	case c.from != tFounder:
		predicted = false
	case c.value.Cmp(params.TermRewardPoolTotal) >= 0:
		predicted = false
	case (c.term+1)*termT+termI+1 < h:
		predicted = false // overdue
	case w.rewards[c.term] != nil && w.rewards[c.term].times >= 2:
		predicted = false
	default:
		total := new(big.Int).Set(c.value)
		for t, e := range w.rewards {
			if t != c.term {
				total.Add(total, e.value)
			}
		}
		if total.Cmp(params.TermRewardPoolTotal) > 0 {
			predicted = false
		}
	}
	if predicted == failed {
		r.Add("term_set_reward_outcome_differs_from_rule(not asserted)", 1)
		if r.Counters["term_set_reward_outcome_differs_from_rule(not asserted)"] <= 3 {
			r.Note("phase T: set-reward outcome differs from the rule || term=%d value=%s by %s at height %d: rule predicts success=%v, block says failed=%v", c.term, c.value, trole(c.from.Addr), h, predicted, failed)
		}
	}
	if failed {
		return "set-reward-refused"
	}
	if e := w.rewards[c.term]; e != nil {
		e.value = c.value
		e.times++
	} else {
		w.rewards[c.term] = &rewardEntry{value: c.value, times: 1}
	}
	return "set-reward-ok"
}

// refundTiming compares WHEN refunds happened with the rule (see the model at the top of term.go).
// Not part of the statement: differences are counted and the first few written into the notes.
func (w *tworld) refundTiming(h uint32, b *types.Block, nameByHash map[common.Hash]string, pre, post map[common.Address]acctView, refunds map[common.Address]*big.Int, r *core.Result, inWindow bool) {
	predicted := map[common.Address]bool{}
	// immediate refunds of this block's unregister transactions
	st := map[common.Address]string{}
	for _, tx := range flatTxs(b) {
		if tx.Type() != params.RegisterTx {
			continue
		}
		from := tx.From()
		if _, ok := st[from]; !ok {
			st[from] = pre[from].isCand
		}
		was := st[from]
		if was == "" {
			st[from] = types.IsCandidateNode
			if isUnregisterTx(tx) {
				st[from] = types.NotCandidateNode
			}
			continue
		}
		if was != types.IsCandidateNode || !isUnregisterTx(tx) {
			continue
		}
		st[from] = types.NotCandidateNode
		var k *node.Key
		for _, c := range tCandidates {
			if c.Addr == from {
				k = c
			}
		}
		if k == nil {
			continue
		}
		if !isInterim(h) && !w.isDeputyAt(h, k) {
			predicted[k.Addr] = true
		}
	}
	if isRewardHeight(h) {
		for _, k := range tCandidates {
			v := post[k.Addr]
			pv := pre[k.Addr]
			pending := (v.isCand == types.NotCandidateNode) && (pv.deposit != nil || v.deposit != nil)
			if pending && !w.isDeputyAt(h, k) {
				predicted[k.Addr] = true
			}
		}
	}
	for _, k := range tCandidates {
		_, got := refunds[k.Addr]
		if got != predicted[k.Addr] {
			key := fmt.Sprintf("term_refund_timing_differs_from_rule(not asserted)/%s/predicted=%v", heightClass(h), predicted[k.Addr])
			r.Add(key, 1)
			if r.Counters[key] <= 2 {
				r.Note("phase T: refund timing differs from the rule (%s: predicted=%v observed=%v) || block %d %s in %v", heightClass(h), predicted[k.Addr], got, h, trole(k.Addr), w.hist)
			}
		}
	}
}

func tfmtDeltas(d map[common.Address]*big.Int) string {
	var l []string
	for a, v := range d {
		if v.Sign() != 0 {
			l = append(l, fmt.Sprintf("%s:%s", trole(a), v))
		}
	}
	sort.Strings(l)
	return strings.Join(l, " ")
}

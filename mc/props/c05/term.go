// C05, phase T — conservation across TERM BOUNDARIES: term rewards, candidate deposits and their
// refunds, reward settings (the heights the first phase in main.go leaves out).
//
// ---------------------------------------------------------------------------------------------
// The model, as read from /repo (all heights with TermDuration = T, InterimDuration = I; the run
// uses T = 8, I = 2 — both are configuration values of the product, main/config/config_from_file.go):
//
//   height % T == 0            snapshot block: the miner puts the top DeputyCount candidates of the PARENT
//                              state (store candidate ranking) into the block body; once the block is
//                              stable, deputynode.Manager.SaveSnapshot makes them term h/T
//   T*k .. T*k+I   (k >= 1)    interim period: the OLD term's deputies still sign
//   T*k+I+1        (k >= 1)    reward block = first block signed by term k (deputynode.IsRewardBlock);
//                              BlockAssembler.Finalize, after the block's transactions:
//                                issueTermReward: total := reward map[term k-1] in the storage of the
//                                  precompiled account 0x09 (key = its own address hash, JSON map
//                                  term -> {term,value,times}); if total > 0, for every node i of term
//                                  k-1 (types.DeputyNodes of snapshot block T*(k-1), genesis for k=1):
//                                    salary_i = floor(total * votes_i / sum votes)      (sum votes > 0)
//                                             = floor(total / number of nodes)          (sum votes = 0)
//                                    rounded DOWN to a multiple of params.MinRewardPrecision (1 LEMO);
//                                  salary_i is ADDED to the balance of the income address found in the
//                                  node's miner account profile at that moment (minted: nothing is
//                                  debited; the rounding remainders are simply never issued)
//                                refundCandidateDeposit: every address of the store's all-candidates
//                                  list (it is written when a block becomes STABLE) whose account is
//                                  unregistered (isCandidate=false), still has a deposit recorded
//                                  (profile "depositBalance" != "") and is not a deputy of the term in
//                                  charge at this height gets transaction.Refund
//   set-reward transaction     ordinary tx to 0x09 with data {"term":"t","value":"v"} (chain/vm/contracts.go
//                              setRewardValue): only from the reward manager (the founder); value < 900M
//                              LEMO; refused when (t+1)*T+I+1 < height (so the reward block of term t is
//                              the last chance); a term's value can be set once and updated once more
//                              (times == 2 refuses); the sum of all values must stay <= 900M LEMO. A refused
//                              call is a failed ordinary tx: it is packaged, burns its gas limit, changes nothing.
//   register (RegisterTx)      first time: amount >= params.MinCandidateDeposit (5M LEMO) moves from the
//                              sender to params.DepositPoolAddress (0x1001); the profile records
//                              "depositBalance"; votes := deposit / 100 LEMO
//   top-up                     a registered candidate's RegisterTx with amount > 0: amount moves sender ->
//                              pool, depositBalance += amount (genesis deputies start with "0")
//   profile update             the same tx with amount 0: every key but nodeID / depositBalance is replaced
//                              (e.g. incomeAddress: where fees of blocks mined by the account and its salary go)
//   unregister                 RegisterTx with isCandidate=false: votes := 0, registering again is refused
//                              for ever; refundDeposit(height): if (height % T <= I and height > I) — interim
//                              period — or the account's node id is a deputy of the term in charge at
//                              that height, NOTHING is paid now (the reward block pays); otherwise
//                              transaction.Refund at once
//   transaction.Refund         pool -= depositBalance, candidate += depositBalance, depositBalance := ""
//                              (so a second refund of the same deposit finds nothing to pay)
//   votes                      no LEMO moves; ChangeVotesByBalance at the end of each block re-weights
//   fees                       as in phase 1: buyGas / refundGas on the payer, chargeForGas credits the
//                              income address in the MINER's profile as it is AFTER the block's
//                              transactions (a profile update in the block redirects the whole block's fees)
//
// There is no reward pool ACCOUNT: 900M LEMO is only a cap on the settings. Deposits live in the
// balance of 0x1001, mirrored per candidate in profile["depositBalance"].
// ---------------------------------------------------------------------------------------------
//
// Exploration (engine E2 style: histories of BLOCKS on a real chain, no sampling). One worker process
// owns one real node per history: chain.BlockChain with the real DPoVP engine, store and deputy
// manager, genesis with TWO deputies and DeputyCount = 2. Two, because (a) the division of a reward
// between ranks and its "per deputy" remainder do not exist with one deputy, (b) with one deputy a
// block is stable by its miner's signature alone, so the confirm path that makes blocks stable
// (UpdateStable -> store commit of the all-candidates list -> SaveSnapshot) would never run through
// InsertBlock with confirms, and (c) two is the smallest count for which the elected term can differ
// from the genesis term in membership AND order; a third deputy only adds a rotation step.
// Every block is built by the stand-alone BlockAssembler.MineBlock (block factory, miner path
// ApplyTxs + Finalize + Seal, signed by the deputy whose turn it is) on the node's own database,
// gets the other deputy's confirm signature and goes through the node's real InsertBlock (validator
// path Process + Finalize + root comparison, UpdateStable, saveSnapshot): so each block is executed by
// both paths and is stable before the next one is built, which is what a healthy two-deputy network does.
//
// A history = scenario (a scripted prefix that brings the chain to the block before the window)
// + one block letter for each height of the window. Bound: all histories whose window contains at
// most K non-empty blocks (every choice of positions, every choice of letters, repeats allowed);
// the other blocks are empty. Window A = heights 7..12 (interim-1 / term end, snapshot = interim
// start, interim, reward-1, reward block = first block of the next term, reward+1); window B =
// heights 15..20, the second boundary, where the ELECTED term 1 is paid and deputies leave office.
//
// Oracle after every block, on the miner's post-state, over every address ever named in a change log
// of the history + the fixture accounts + 0x1001, 0x09, 0x00 (see checkBlock):
//   S1  sum of balance changes == (salaries issued at this height by the reference below) and 0 on
//       every block that is not a reward block (no burner in this alphabet)
//   S2  no balance negative
//   S3  deposits: for every account, deposit recorded after = recorded before + paid in this block
//       - refunded, where a refund is all or nothing; a refunded deposit moves pool -> that account
//       exactly; the pool's balance changes by exactly (paid - refunded) + plain transfers to it
//   S4  fees and amounts: every account's balance change is exactly the sum of: - fees it paid
//       (gasUsed x gasPrice) + fees earned as the miner's income address, amounts of the successful
//       transactions, deposits paid / refunded, salaries
// WHEN a refund happens is not part of the statement: it is predicted from the rule above and only
// counted when it differs (r.Extra "refund_timing"). WHO receives a salary is not part of the
// statement either: a reward block whose only discrepancies lie between addresses connected to the
// rewarded term (miner / income addresses) and cancel out is counted, not reported.
package main

import (
	"encoding/json"
	"fmt"
	"math/big"
	"os"
	"path/filepath"
	"sort"
	"strconv"
	"strings"
	"time"

	"verifmc/core"
	"verifmc/node"

	"github.com/LemoFoundationLtd/lemochain-core/chain/account"
	"github.com/LemoFoundationLtd/lemochain-core/chain/consensus"
	"github.com/LemoFoundationLtd/lemochain-core/chain/params"
	"github.com/LemoFoundationLtd/lemochain-core/chain/types"
	"github.com/LemoFoundationLtd/lemochain-core/common"
)

const (
	termT    = uint32(8) // params.TermDuration during phase T
	termI    = uint32(2) // params.InterimDuration during phase T
	termDeps = 2         // genesis deputies = DeputyCount
)

// ---------------------------------------------------------------------------------------------
// fixture accounts

var (
	tD0, tD1      = node.Deputy(0), node.Deputy(1)
	tC1, tC2, tC3 = node.K("c1"), node.K("c2"), node.K("c3")
	tV, tX        = node.User(0), node.User(1)
	tAlt          = node.K("income-alt") // an income address somebody switches to
	tInc0, tInc1  = node.K("income0"), node.K("income1")
	tIncC3        = node.K("income-c3")
	tFounder      = node.Founder()
)

var tRole = map[common.Address]string{}
var tKeyByNodeID = map[string]*node.Key{}
var tCandidates = []*node.Key{tD0, tD1, tC1, tC2, tC3} // every account that is ever a candidate

func init() {
	for n, k := range map[string]*node.Key{"D0": tD0, "D1": tD1, "C1": tC1, "C2": tC2, "C3": tC3, "V": tV, "X": tX, "alt": tAlt, "inc0": tInc0, "inc1": tInc1, "incC3": tIncC3, "founder": tFounder} {
		tRole[k.Addr] = n
		tKeyByNodeID[string(k.NodeID)] = k
	}
	tRole[params.DepositPoolAddress] = "pool"
	tRole[params.TermRewardContract] = "0x09"
	tRole[common.Address{}] = "0x00"
}

func trole(a common.Address) string {
	if r, ok := tRole[a]; ok {
		return r
	}
	return "addr:" + a.Hex()[2:10]
}

// ---------------------------------------------------------------------------------------------
// transaction letters

// flow is what the statement lets a successful transaction move besides the fee.
type flow struct {
	from, to common.Address
	amount   *big.Int
}

type tLetter struct {
	name string
	mk   func(exp uint64) *types.Transaction
	// value moved when the packaged transaction did not fail (deposit payments included)
	flows func() []flow
	// deposit paid by this account into the pool (register / top-up)
	deposit *node.Key
	amount  *big.Int
	// unregisters this account
	unreg *node.Key
	// a set-reward call: term and value (model only; success is predicted by the reference)
	reward *rewardCall
	// changes the income address of this account
	income *node.Key
}

type rewardCall struct {
	from  *node.Key
	term  uint32
	value *big.Int
}

var tLetters = map[string]*tLetter{}
var tLetterOrder []string

func tdef(l *tLetter) {
	tLetters[l.name] = l
	tLetterOrder = append(tLetterOrder, l.name)
}

func tprofile(k *node.Key, isCandidate string, income common.Address) map[string]string {
	p := node.CandidateProfile(k, "7100")
	p[types.CandidateKeyIsCandidate] = isCandidate
	p[types.CandidateKeyIncomeAddress] = income.String()
	return p
}

func defaultIncome(k *node.Key) common.Address {
	switch k {
	case tD0:
		return tInc0.Addr
	case tD1:
		return tInc1.Addr
	case tC3:
		return tIncC3.Addr
	}
	return k.Addr
}

var (
	minDeposit = params.MinCandidateDeposit
	oddReward  = new(big.Int).Add(node.Lemo(7), big.NewInt(3))               // 7 LEMO + 3 mo: neither a multiple of the precision nor of 2 x precision
	hugeReward = new(big.Int).Sub(params.TermRewardPoolTotal, node.Lemo(1)) // the largest value a setting accepts (< pool total), up to the precision
)

func rewardValue(name string) *big.Int {
	switch name {
	case "0":
		return new(big.Int)
	case "1L":
		return node.Lemo(1)
	case "3L":
		return node.Lemo(3)
	case "odd":
		return oddReward
	case "huge":
		return hugeReward
	case "pool":
		return new(big.Int).Set(params.TermRewardPoolTotal) // refused: must be < pool total
	case "neg":
		return new(big.Int).Neg(node.Lemo(5))
	}
	panic("reward value " + name)
}

func init() {
	xfer := func(name string, from *node.Key, to common.Address, lemo int64) {
		tdef(&tLetter{name: name,
			mk:    func(exp uint64) *types.Transaction { return node.Transfer(from, to, node.Lemo(lemo), exp) },
			flows: func() []flow { return []flow{{from.Addr, to, node.Lemo(lemo)}} }})
	}
	vote := func(name string, from, to *node.Key) {
		tdef(&tLetter{name: name, mk: func(exp uint64) *types.Transaction { return node.Vote(from, to.Addr, exp) }})
	}
	reg := func(name string, k *node.Key, amount *big.Int) {
		tdef(&tLetter{name: name, deposit: k, amount: amount,
			mk: func(exp uint64) *types.Transaction {
				return node.Register(k, amount, tprofile(k, "true", defaultIncome(k)), exp)
			},
			flows: func() []flow { return []flow{{k.Addr, params.DepositPoolAddress, amount}} }})
	}
	unreg := func(name string, k *node.Key) {
		tdef(&tLetter{name: name, unreg: k, mk: func(exp uint64) *types.Transaction {
			return node.Register(k, new(big.Int), tprofile(k, "false", defaultIncome(k)), exp)
		}})
	}
	income := func(name string, k *node.Key, to common.Address) {
		tdef(&tLetter{name: name, income: k, mk: func(exp uint64) *types.Transaction {
			return node.Register(k, new(big.Int), tprofile(k, "true", to), exp)
		}})
	}
	setReward := func(name string, from *node.Key, term uint32, val string) {
		v := rewardValue(val)
		data, _ := json.Marshal(map[string]string{"term": strconv.Itoa(int(term)), "value": v.String()})
		to := params.TermRewardContract
		tdef(&tLetter{name: name, reward: &rewardCall{from, term, v}, mk: func(exp uint64) *types.Transaction {
			return node.Tx(node.TxSpec{Type: params.OrdinaryTx, From: from, To: &to, Data: data, Exp: exp, GasLimit: 100000})
		}})
	}
	// transfers to / from candidates, a plain one, one into the deposit pool's own address
	xfer("tXC1", tX, tC1.Addr, 500)
	xfer("tC1X", tC1, tX.Addr, 500)
	xfer("tVX", tV, tX.Addr, 150)
	xfer("tXpool", tX, params.DepositPoolAddress, 7)
	xfer("tXinc0", tX, tInc0.Addr, 3)
	// votes
	vote("vVC1", tV, tC1)
	vote("vVD0", tV, tD0)
	vote("vXC3", tX, tC3)
	// registrations: deposit sizes around the 100-LEMO vote step; one LEMO short is refused (discarded)
	reg("rC2", tC2, minDeposit)
	reg("rC2+99", tC2, new(big.Int).Add(minDeposit, node.Lemo(99)))
	reg("rC2+150", tC2, new(big.Int).Add(minDeposit, node.Lemo(150)))
	reg("rC2-1", tC2, new(big.Int).Sub(minDeposit, node.Lemo(1)))
	// top-ups (a genesis deputy starts from deposit "0")
	reg("uC1+50", tC1, node.Lemo(50))
	reg("uC1+100", tC1, node.Lemo(100))
	reg("uC3+100", tC3, node.Lemo(100))
	reg("uD0+100", tD0, node.Lemo(100))
	reg("uC2+100", tC2, node.Lemo(100))
	// unregister
	unreg("xC1", tC1)
	unreg("xC2", tC2)
	unreg("xC3", tC3)
	unreg("xD0", tD0)
	unreg("xD1", tD1)
	// income address changes
	income("pD0alt", tD0, tAlt.Addr)
	income("pD1alt", tD1, tAlt.Addr)
	income("pC1alt", tC1, tAlt.Addr)
	income("pC3alt", tC3, tAlt.Addr)
	income("pD0zero", tD0, common.Address{}) // "Lemo" decodes to the zero address
	// reward settings by the reward manager (the founder): terms 0, 1, 2, 3; and by somebody else
	for _, term := range []uint32{0, 1, 2, 3} {
		for _, v := range []string{"0", "1L", "3L", "odd", "huge", "pool", "neg"} {
			setReward(fmt.Sprintf("s%d=%s", term, v), tFounder, term, v)
		}
	}
	setReward("sX0=1L", tX, 0, "1L")
	setReward("sX1=1L", tX, 1, "1L")
	// a first registration that says isCandidate=false: the deposit is paid, the account is "unregistered"
	tdef(&tLetter{name: "rC2false", deposit: tC2, amount: minDeposit, mk: func(exp uint64) *types.Transaction {
		return node.Register(tC2, minDeposit, tprofile(tC2, "false", tC2.Addr), exp)
	}})
	// an unregister transaction that carries an amount
	tdef(&tLetter{name: "xC1$5", unreg: tC1, mk: func(exp uint64) *types.Transaction {
		return node.Register(tC1, node.Lemo(5), tprofile(tC1, "false", tC1.Addr), exp)
	}})
	// reward settings that carry LEMO to the precompiled account (accepted / refused)
	for _, term := range []uint32{0, 1} {
		term := term
		for _, who := range []*node.Key{tFounder, tX} {
			who := who
			name := fmt.Sprintf("s%d=1L$2", term)
			if who == tX {
				name = fmt.Sprintf("sX%d=1L$2", term)
			}
			data, _ := json.Marshal(map[string]string{"term": strconv.Itoa(int(term)), "value": node.Lemo(1).String()})
			to := params.TermRewardContract
			tdef(&tLetter{name: name, reward: &rewardCall{who, term, node.Lemo(1)}, mk: func(exp uint64) *types.Transaction {
				return node.Tx(node.TxSpec{Type: params.OrdinaryTx, From: who, To: &to, Amount: node.Lemo(2), Data: data, Exp: exp, GasLimit: 100000})
			}})
		}
	}
}

// paidBy builds a RegisterTx of k whose gas is paid by somebody else (at twice the usual price)
func paidBy(k, payer *node.Key, amount *big.Int, profile map[string]string, exp uint64) *types.Transaction {
	data, _ := json.Marshal(profile)
	tx := types.NewReimbursementContractCreation(k.Addr, payer.Addr, amount, data, params.RegisterTx, node.ChainID, exp, "", "")
	tx, err := types.MakeReimbursementTxSigner().SignTx(tx, k.Priv)
	if err != nil {
		panic(err)
	}
	tx = types.GasPayerSignatureTx(tx, big.NewInt(2000000000), 200000)
	tx, err = types.MakeGasPayerSigner().SignTx(tx, payer.Priv)
	if err != nil {
		panic(err)
	}
	return tx
}

func init() {
	// deposits and refunds of an account whose gas somebody else pays
	tdef(&tLetter{name: "rC2/X", deposit: tC2, amount: minDeposit, mk: func(exp uint64) *types.Transaction {
		return paidBy(tC2, tX, minDeposit, tprofile(tC2, "true", tC2.Addr), exp)
	}})
	tdef(&tLetter{name: "xC1/X", unreg: tC1, mk: func(exp uint64) *types.Transaction {
		return paidBy(tC1, tX, new(big.Int), tprofile(tC1, "false", tC1.Addr), exp)
	}})
	tdef(&tLetter{name: "uC1+50/X", deposit: tC1, amount: node.Lemo(50), mk: func(exp uint64) *types.Transaction {
		return paidBy(tC1, tX, node.Lemo(50), tprofile(tC1, "true", tC1.Addr), exp)
	}})
}

// restartLetter is a block letter, not a transaction: the node is closed and reopened on its data
// directory (a process restart as far as store, deputy manager and engine are concerned), then an
// empty block is mined.
const restartLetter = "~"

func (w *tworld) restart() {
	if !w.f.Quiesce() {
		panic("harness: store does not quiesce")
	}
	dir := w.f.Dir
	w.f.Close()
	w.f = &node.Factory{Node: node.Reopen(dir, termDeps, node.K("factory"))}
	head := w.f.BC.CurrentBlock()
	if head.Hash() != w.head.Hash() {
		panic(fmt.Sprintf("harness: after the restart the head is %d %s, was %d %s", head.Height(), head.Hash().Prefix(), w.head.Height(), w.head.Hash().Prefix()))
	}
	w.head = head
}

// box letters are written "B:a;b": a box signed and paid by X with the sub-transactions a, b (each
// signed and paid by its own sender at its own price)
func boxLetter(name string) *tLetter {
	subs := strings.Split(strings.TrimPrefix(name, "B:"), ";")
	return &tLetter{name: name, mk: func(exp uint64) *types.Transaction {
		var l []*types.Transaction
		for i, sn := range subs {
			sl := tLetters[sn]
			if sl == nil {
				panic("no tx letter " + sn)
			}
			// a sub-transaction must not expire before its box
			l = append(l, sl.mk(exp+8+uint64(i)))
		}
		return node.Box(tX, exp, l...)
	}}
}

func letterOf(name string) *tLetter {
	if l := tLetters[name]; l != nil {
		return l
	}
	if strings.HasPrefix(name, "B:") {
		l := boxLetter(name)
		tLetters[name] = l
		return l
	}
	return nil
}

// a block letter is "-" (empty) or tx letters joined by "+", e.g. "xC1+xC3" ... but "+" also occurs
// inside tx letter names (uC1+50), so blocks are joined by "," instead.
func blockTxNames(letter string) []string {
	if letter == "-" || letter == "" {
		return nil
	}
	return strings.Split(letter, ",")
}

// ---------------------------------------------------------------------------------------------
// scenarios and windows

type scenario struct {
	name   string
	prefix []string // block letters for heights 1 .. len(prefix); the window starts right after
	late   []int    // heights mined one slot late (by the next deputy in the rotation), so that the other deputy mines the following heights / the reward block
	window int      // number of window heights
}

// common funding block: everybody who ever pays gas or a deposit
const fundLetter = "#fund"

func fundTxs(exp uint64) types.Transactions {
	fo := tFounder
	big6 := new(big.Int).Add(minDeposit, node.Lemo(100000))
	return types.Transactions{
		node.Transfer(fo, tV.Addr, node.Lemo(1090), exp),
		node.Transfer(fo, tX.Addr, node.Lemo(20000), exp+1),
		node.Transfer(fo, tC1.Addr, big6, exp+2),
		node.Transfer(fo, tC2.Addr, big6, exp+3),
		node.Transfer(fo, tC3.Addr, big6, exp+4),
		node.Transfer(fo, tD0.Addr, node.Lemo(1000), exp+5),
		node.Transfer(fo, tD1.Addr, node.Lemo(1000), exp+6),
	}
}

var tScenarios = map[string]*scenario{}
var tScenarioOrder []string

func sdef(s *scenario) {
	tScenarios[s.name] = s
	tScenarioOrder = append(tScenarioOrder, s.name)
}

func init() {
	// window A: heights 7..12 (first boundary). C1 (min deposit) and C3 (min+150) are registered
	// candidates; at snapshot 8 they out-vote the genesis deputies (0 votes) unless the history
	// unregisters them first.
	sdef(&scenario{name: "A", prefix: []string{fundLetter, "rC1,rC3", "-", "-", "-", "-"}, window: 6})
	// the same with the rotation shifted by one (the other deputy mines each height)
	sdef(&scenario{name: "A'", prefix: []string{fundLetter, "rC1,rC3", "-", "-", "-", "-"}, window: 6, late: []int{1}})
	// the reward block is mined by the second-ranked deputy of the new term
	sdef(&scenario{name: "A''", prefix: []string{fundLetter, "rC1,rC3", "s0=odd", "-", "-", "-"}, window: 6, late: []int{11}})
	// term 0's reward already set to the odd amount
	sdef(&scenario{name: "Ar", prefix: []string{fundLetter, "rC1,rC3", "s0=odd", "-", "-", "-"}, window: 6})
	// nobody but the genesis deputies is a candidate: they stay in office in term 1
	sdef(&scenario{name: "Ag", prefix: []string{fundLetter, "s0=odd", "-", "-", "-", "-"}, window: 6})
	// window B: heights 15..20 (second boundary): term 1 = {C3, C1} elected at 8, paid at 19; the
	// genesis deputies are out of office since 11
	sdef(&scenario{name: "B", prefix: []string{fundLetter, "rC1,rC3", "s0=odd", "-", "-", "-", "-", "-", "-", "-", "-", "vVC1", "s1=odd", "-"}, window: 6})
	// the same without preset rewards
	sdef(&scenario{name: "B''", prefix: []string{fundLetter, "rC1,rC3", "s0=odd", "-", "-", "-", "-", "-", "-", "-", "-", "vVC1", "s1=odd", "-"}, window: 6, late: []int{19}})
	sdef(&scenario{name: "Bu", prefix: []string{fundLetter, "rC1,rC3", "-", "-", "-", "-", "-", "-", "-", "-", "-", "-", "-", "-"}, window: 6})
}

func init() {
	// registration letters used by prefixes only
	reg := func(name string, k *node.Key, amount *big.Int) {
		tLetters[name] = &tLetter{name: name, deposit: k, amount: amount,
			mk: func(exp uint64) *types.Transaction {
				return node.Register(k, amount, tprofile(k, "true", defaultIncome(k)), exp)
			},
			flows: func() []flow { return []flow{{k.Addr, params.DepositPoolAddress, amount}} }}
	}
	reg("rC1", tC1, minDeposit)
	reg("rC3", tC3, new(big.Int).Add(minDeposit, node.Lemo(150)))
}

// ---------------------------------------------------------------------------------------------
// world

// every block time of a history lies in GenesisTime+1 .. +450; expirations in GenesisTime+640 .. +1260 (see txsOfLetter)
const tExpBase = uint64(node.GenesisTime) + 600

type tworld struct {
	f       *node.Factory
	head    *types.Block
	addrs   map[common.Address]bool
	rewards map[uint32]*rewardEntry // reference model of the reward settings
	snap    map[uint32]types.DeputyNodes
	trace   []string
	verbose bool
	hist    []string
	// heights whose blocks stay unconfirmed until a later block is confirmed (the lagging-confirm
	// variant of runTermShard, and the probe's C05_TERM_HOLD)
	holdConfirms map[uint32]bool
	hashes       map[uint32]common.Hash // block hash per height of this run
}

type rewardEntry struct {
	value *big.Int
	times int
}

func newTWorld() *tworld {
	params.TermDuration = termT
	params.InterimDuration = termI
	params.RewardCheckHeight = 3 // the "is the reward set?" reminder (log only) runs 3 blocks before each reward block
	w := &tworld{addrs: map[common.Address]bool{}, rewards: map[uint32]*rewardEntry{}, snap: map[uint32]types.DeputyNodes{}}
	for a := range tRole {
		w.addrs[a] = true
	}
	w.f = node.NewFactory(core.ScratchDir("c05t"), termDeps)
	w.head = w.f.BC.Genesis()
	w.snap[0] = w.head.DeputyNodes
	return w
}

func (w *tworld) close() { w.f.Destroy() }

func (w *tworld) sortedAddrs() []common.Address {
	l := make(common.AddressSlice, 0, len(w.addrs))
	for a := range w.addrs {
		l = append(l, a)
	}
	sort.Sort(l)
	return l
}

// acctView is what the oracle looks at for one account.
type acctView struct {
	bal     *big.Int
	deposit *big.Int // nil = no deposit recorded ("" or no profile)
	isCand  string
	income  string
	nodeID  string
}

func viewOf(d *types.AccountData) acctView {
	v := acctView{bal: new(big.Int)}
	if d == nil {
		return v
	}
	if d.Balance != nil {
		v.bal = new(big.Int).Set(d.Balance)
	}
	p := d.Candidate.Profile
	if p != nil {
		v.isCand = p[types.CandidateKeyIsCandidate]
		v.income = p[types.CandidateKeyIncomeAddress]
		v.nodeID = p[types.CandidateKeyNodeID]
		if s := p[types.CandidateKeyDepositAmount]; s != "" {
			if n, ok := new(big.Int).SetString(s, 10); ok {
				v.deposit = n
			}
		}
	}
	return v
}

// stateAt reads the accounts through the node's database at a stored block.
func (w *tworld) stateAt(hash common.Hash, addrs []common.Address) map[common.Address]acctView {
	view, err := w.f.DB.GetActDatabase(hash)
	if err != nil {
		panic(err)
	}
	out := map[common.Address]acctView{}
	for _, a := range addrs {
		d, err := view.Get(a)
		if err != nil {
			d = nil
		}
		out[a] = viewOf(d)
	}
	return out
}

// termInCharge is the index of the term whose deputies sign block h (deputynode.GetSignerTermIndexByHeight,
// written again from its comment).
func termInCharge(h uint32) uint32 {
	if h < termT+termI+1 {
		return 0
	}
	return (h - termI - 1) / termT
}

func isRewardHeight(h uint32) bool { return h >= termT+termI+1 && h%termT == termI+1 }
func isInterim(h uint32) bool      { return h%termT <= termI && h > termI }

func (w *tworld) deputiesAt(h uint32) types.DeputyNodes {
	nodes := w.snap[termInCharge(h)]
	if len(nodes) > termDeps {
		nodes = nodes[:termDeps]
	}
	return nodes
}

func (w *tworld) isDeputyAt(h uint32, k *node.Key) bool {
	for _, n := range w.deputiesAt(h) {
		if string(n.NodeID) == string(k.NodeID) {
			return true
		}
	}
	return false
}

// heightClass names the phase of a height relative to the term boundary.
func heightClass(h uint32) string {
	switch {
	case h < termT-1:
		return "genesis-term"
	case isRewardHeight(h):
		return "reward"
	case isRewardHeight(h + 1):
		return "reward-1"
	case isRewardHeight(h - 1):
		return "reward+1"
	case h%termT == 0:
		return "snapshot(interim-start)"
	case h%termT == termT-1:
		return "interim-1(term-end)"
	case isInterim(h):
		return "interim"
	}
	return "ordinary"
}

type blockObs struct {
	block    *types.Block
	discards int
	accepted bool
	rejected string
}

// mine builds the next block with the given transactions, signed by the deputy in turn (one slot
// later when late is set), has it confirmed by the other deputies and inserts it into the node.
// post receives the miner's own post-state before anything is stored.
func (w *tworld) mine(txs types.Transactions, late bool, post func(am *account.Manager, b *types.Block)) (*blockObs, error) {
	h := w.head.Height() + 1
	deps := w.f.DM.GetDeputiesByHeight(h, true)
	if len(deps) == 0 {
		return nil, fmt.Errorf("no deputies known for height %d", h)
	}
	// distance 1 = the deputy whose slot begins with the parent's timestamp; a late block is mined
	// by the next one, one slot later
	d := uint32(1)
	if late && len(deps) > 1 {
		d = 2
	}
	tm := w.head.Time() + (d-1)*uint32(node.MineTimeout/1000) + 1
	addr, err := consensus.GetCorrectMiner(w.head.Header, int64(tm)*1000, int64(node.MineTimeout), w.f.DM)
	if err != nil {
		return nil, fmt.Errorf("no deputy in turn at height %d: %v", h, err)
	}
	var miner *node.Key
	for _, dn := range deps {
		if dn.MinerAddress == addr {
			miner = tKeyByNodeID[string(dn.NodeID)]
		}
	}
	if miner == nil {
		return nil, fmt.Errorf("deputy in turn at height %d (%s) has no key in the fixture", h, addr.Hex())
	}
	obs := &blockObs{}
	b, inv, err := w.f.Make(node.BlockSpec{Parent: w.head, Miner: miner, Time: tm, Txs: txs, Extra: "c05t", NoSave: true, Inspect: post})
	if err != nil {
		return nil, err
	}
	obs.block = b
	obs.discards = len(inv)
	// the other deputies confirm (unless the scenario holds the confirms of this height back)
	for _, dn := range deps {
		k := tKeyByNodeID[string(dn.NodeID)]
		if k != nil && k != miner && !w.holdConfirms[h] {
			b.Confirms = append(b.Confirms, node.SignConfirm(k, b.Hash()))
		}
	}
	wire := node.Wire(b)
	w.f.Use()
	var ierr error
	func() {
		defer func() {
			if p := recover(); p != nil {
				ierr = fmt.Errorf("panic in validator: %v", p)
			}
		}()
		ierr = w.f.BC.InsertBlock(wire)
	}()
	w.f.Quiesce()
	if ierr != nil {
		obs.rejected = ierr.Error()
		return obs, nil
	}
	if w.f.BC.CurrentBlock().Hash() != b.Hash() {
		obs.rejected = "accepted but not the new head"
		return obs, nil
	}
	if w.f.BC.StableBlock().Hash() != b.Hash() && !w.holdConfirms[h] {
		obs.rejected = "accepted but not stable with all deputies' signatures"
		return obs, nil
	}
	obs.accepted = true
	stored, err := w.f.DB.GetBlockByHash(b.Hash())
	if err != nil {
		return nil, err
	}
	w.head = stored
	if w.hashes == nil {
		w.hashes = map[uint32]common.Hash{}
	}
	w.hashes[h] = stored.Hash()
	if h%termT == 0 {
		w.snap[h/termT] = stored.DeputyNodes
	}
	return obs, nil
}

// ---------------------------------------------------------------------------------------------

// tProbe runs one history verbosely (development aid and hand replay):
//   C05_TERM_SCEN=<scenario> C05_TERM_PROBE="<letter> <letter> ..." [C05_TERM_HOLD="<height> ..."] [C05_TERM_TIMING=n] .build/c05
// Other knobs: C05_TERM_COUNT=1 prints the planned histories per plan; C05_ONLY_TERM=1 / C05_SKIP_TERM=1 run one phase only.
func tProbe() {
	w := newTWorld()
	defer w.close()
	w.verbose = true
	sc := tScenarios["A"]
	if s := os.Getenv("C05_TERM_SCEN"); s != "" {
		sc = tScenarios[s]
	}
	r := core.NewResult(prop, "exploration")
	w.holdConfirms = map[uint32]bool{}
	for _, f := range strings.Fields(os.Getenv("C05_TERM_HOLD")) {
		n, _ := strconv.Atoi(f)
		w.holdConfirms[uint32(n)] = true
	}
	hist := append([]string{sc.name}, strings.Fields(os.Getenv("C05_TERM_PROBE"))...)
	if n, _ := strconv.Atoi(os.Getenv("C05_TERM_TIMING")); n > 0 {
		t0 := time.Now()
		for i := 0; i < n; i++ {
			w2 := newTWorld()
			runTermHistory(w2, hist, r)
			w2.close()
		}
		fmt.Printf("%d histories in %v: %v each\n", n, time.Since(t0), time.Since(t0)/time.Duration(n))
		w3 := newTWorld()
		runTermBlocks(w3, sc, hist, 0, len(sc.prefix), r)
		tpl := w3.freeze()
		t0 = time.Now()
		for i := 0; i < n; i++ {
			w2 := tpl.thaw()
			runTermBlocks(w2, sc, hist, len(sc.prefix), len(sc.prefix)+sc.window, r)
			w2.close()
		}
		fmt.Printf("%d histories from the template in %v: %v each\n", n, time.Since(t0), time.Since(t0)/time.Duration(n))
		os.RemoveAll(tpl.dir)
	}
	runTermHistory(w, hist, r)
	for _, l := range w.trace {
		fmt.Println(l)
	}
	for _, v := range r.Violations {
		fmt.Printf("VIOLATION %s\n  %s\n", v.Fingerprint, v.What)
	}
	keys := make([]string, 0)
	for k, v := range r.Counters {
		keys = append(keys, fmt.Sprintf("%s=%d", k, v))
	}
	sort.Strings(keys)
	fmt.Println(strings.Join(keys, " "))
}

// ---------------------------------------------------------------------------------------------
// templates: the scripted prefix of a scenario is executed once per worker; its data directory
// (node closed after the store's writer drained) is copied for every history, which then starts
// by reopening the copy — a process restart as far as the node is concerned — and continues with
// the window blocks.

type tTemplate struct {
	dir     string
	addrs   map[common.Address]bool
	rewards map[uint32]*rewardEntry
	snap    map[uint32]types.DeputyNodes
}

func (w *tworld) freeze() *tTemplate {
	if !w.f.Quiesce() {
		panic("harness: store does not quiesce")
	}
	w.f.Close()
	t := &tTemplate{dir: w.f.Dir, addrs: map[common.Address]bool{}, rewards: map[uint32]*rewardEntry{}, snap: map[uint32]types.DeputyNodes{}}
	for a := range w.addrs {
		t.addrs[a] = true
	}
	for k, e := range w.rewards {
		t.rewards[k] = &rewardEntry{new(big.Int).Set(e.value), e.times}
	}
	for k, n := range w.snap {
		t.snap[k] = n
	}
	return t
}

func (t *tTemplate) thaw() *tworld {
	dir := core.ScratchDir("c05t")
	copyTree(t.dir, dir)
	w := &tworld{addrs: map[common.Address]bool{}, rewards: map[uint32]*rewardEntry{}, snap: map[uint32]types.DeputyNodes{}}
	for a := range t.addrs {
		w.addrs[a] = true
	}
	for k, e := range t.rewards {
		w.rewards[k] = &rewardEntry{new(big.Int).Set(e.value), e.times}
	}
	for k, n := range t.snap {
		w.snap[k] = n
	}
	w.f = &node.Factory{Node: node.Reopen(dir, termDeps, node.K("factory"))}
	w.head = w.f.BC.CurrentBlock()
	return w
}

func copyTree(src, dst string) {
	err := filepath.Walk(src, func(p string, info os.FileInfo, err error) error {
		if err != nil {
			return err
		}
		rel, _ := filepath.Rel(src, p)
		target := filepath.Join(dst, rel)
		if info.IsDir() {
			return os.MkdirAll(target, 0755)
		}
		b, err := os.ReadFile(p)
		if err != nil {
			return err
		}
		return os.WriteFile(target, b, 0644)
	})
	if err != nil {
		panic(fmt.Sprintf("harness: copy template: %v", err))
	}
}

// runx.go — extended execution loop and explorer for engine E1 (additive: nothing in sched.go is
// changed; the shims keep calling Point, threads are still started with (*Sched).Go).
//
// RunX executes one schedule like Run, and on top of it
//
//   - keeps a vector clock per thread (program order, go statement -> thread start, unlock -> lock,
//     write-unlock -> rlock, runlock -> lock, atomic store/rmw -> atomic load/rmw, WaitGroup) and
//     checks every announced access against the last write / the reads since (FastTrack style): two
//     conflicting accesses that are not ordered by happens-before are a data race, whether or not
//     the two threads were ever parked next to each other;
//   - keeps the set of locks every thread holds (with mode) and records, per object, who touched it
//     at which site holding what (for the learned preemption-point set, see XExplorer);
//   - hashes the dependence partial order of the executed prefix (program order, thread start, order
//     of dependent operations on one object): the fingerprint of the state in front of every
//     decision, used by the explorer to not expand the same state twice;
//   - restricts preemptions to the operations the Branch callback admits.
//
// XExplorer enumerates schedules best-first in the number of preemptions.
package sched

import (
	"crypto/sha256"
	"encoding/binary"
	"fmt"
	"sort"
	"strings"
	"time"
)

// XChoice is one deviation from the default schedule: at scheduling step Step take alternative Alt
// (index into the alternatives of that step; 0 is the default).
type XChoice struct {
	Step int `json:"s"`
	Alt  int `json:"a"`
}

// XMode classifies an operation for the dependence relation.
const (
	XWrite = 0 // conflicts with every other operation on the object
	XRead  = 1 // commutes with other XRead operations on the object
)

// XCfg configures one execution.
type XCfg struct {
	Choices  []XChoice
	Watchdog time.Duration
	// Branch reports whether the running thread may be preempted in front of this operation.
	// nil = every operation.
	Branch func(site string, kind OpKind) bool
	// AtomicLoad reports whether the atomic operation at site only loads (nil = none does).
	AtomicLoad func(site string) bool
	// AccessWrite promotes the announced read at site to a write (an announced variable that stands for
	// something behind it, e.g. the pointer to a store: reading the pointer in order to write through it).
	AccessWrite func(site string) bool
	// NoRace: announced accesses at this site take part in the dependence relation and in the lockset
	// records but are not reported as data races (the variable stands for an internally synchronised object).
	NoRace func(site string) bool
	// ReadSection reports whether the exclusive Lock at site opens a critical section that only
	// reads what the mutex protects and contains no other scheduling-relevant operation. Such a
	// section runs atomically (nothing inside is a preemption point) and commutes with the other
	// read sections and read locks of the mutex, so its Lock/Unlock count as XRead operations on the
	// mutex in the dependence relation (not in the happens-before relation used for races, where a
	// mutex is a mutex). XExec.NotReadSection lists the sites for which an execution refutes that.
	ReadSection func(site string) bool
	// Trace asks for the full step list (names, operations) in XExec.Trace.
	Trace bool
	// Learn asks for the per-object touch records (XExec.Touch).
	Learn bool
	// MaxSteps aborts a runaway execution (0 = 1e6).
	MaxSteps int
}

// XNode is a decision node: a step with more than one alternative.
type XNode struct {
	Step    int
	NAlt    int
	Chosen  int
	Preempt bool     // taking an alternative other than 0 costs one preemption
	Cost    int      // preemptions before this step
	FP      [16]byte // state fingerprint in front of the step (includes the running thread)
}

// XRace is a pair of conflicting announced accesses not ordered by happens-before (or co-enabled).
type XRace struct {
	Addr         uintptr
	SiteA, SiteB string
	KindA, KindB string
	ThreadA      string
	ThreadB      string
	Step         int
	CoEnabled    bool
}

// XHeld is one lock a thread holds.
type XHeld struct {
	Addr  uintptr
	Write bool
}

// XTouch is one (thread, site, kind, lockset) combination that touched an object.
type XTouch struct {
	Tid   int
	Site  string
	Kind  OpKind
	Mode  int
	Held  []XHeld // without the object itself
	Count int
}

// XExec is the result of RunX.
type XExec struct {
	S           *Sched
	Nodes       []XNode
	Steps       int
	Preemptions int
	Races       []XRace
	Trace       []string
	Touch       map[xobjKey][]*XTouch
	Kinds       [16]int
	SiteHits    map[string]int // announced accesses per "kind@site"
	Threads     []string       // names in creation order
	RecursiveRL []string       // sites where a thread read-locked an RWMutex it already read-holds
	// NotReadSection: Lock sites that ReadSection admitted but whose section wrote an announced
	// variable, performed another synchronisation operation, or contained a preemption point
	NotReadSection map[string]bool
	Final          [16]byte // fingerprint of the final state
}

type xobjKey struct {
	Class uint8 // 0 lock, 1 atomic, 2 variable, 3 waitgroup
	Addr  uintptr
}

type xthr struct {
	vc       []uint32
	rs       []xrs // open read sections (exclusive locks admitted by ReadSection)
	held     []XHeld
	last     [16]byte
	seq      uint32
	nameHash [16]byte
}

type xrs struct {
	addr uintptr
	site string
}

type xlockClock struct {
	wrel []uint32
	rrel []uint32
}

type xvarShadow struct {
	wTid  int
	wClk  uint32
	wSite string
	wSet  bool
	rClk  map[int]uint32
	rSite map[int]string
}

type xdep struct {
	lastW  [16]byte
	reads  [16]byte
	nreads uint32
}

func vcJoin(a, b []uint32) []uint32 {
	if len(b) > len(a) {
		a = append(a, make([]uint32, len(b)-len(a))...)
	}
	for i, v := range b {
		if v > a[i] {
			a[i] = v
		}
	}
	return a
}

func vcGet(a []uint32, i int) uint32 {
	if i < len(a) {
		return a[i]
	}
	return 0
}

func h16(parts ...[]byte) [16]byte {
	h := sha256.New()
	for _, p := range parts {
		h.Write(p)
	}
	var out [16]byte
	copy(out[:], h.Sum(nil))
	return out
}

func add128(a *[16]byte, b [16]byte) {
	lo := binary.LittleEndian.Uint64(a[:8])
	hi := binary.LittleEndian.Uint64(a[8:])
	blo := binary.LittleEndian.Uint64(b[:8])
	bhi := binary.LittleEndian.Uint64(b[8:])
	nlo := lo + blo
	carry := uint64(0)
	if nlo < lo {
		carry = 1
	}
	binary.LittleEndian.PutUint64(a[:8], nlo)
	binary.LittleEndian.PutUint64(a[8:], hi+bhi+carry)
}

func opClass(k OpKind) (uint8, bool) {
	switch k {
	case OpLock, OpRLock, OpUnlock, OpRUnlock:
		return 0, true
	case OpAtomic:
		return 1, true
	case OpAccessR, OpAccessW:
		return 2, true
	case OpWGAdd, OpWGWait:
		return 3, true
	}
	return 0, false
}

// XKindName is the printable name of an operation kind.
func XKindName(k OpKind) string { return kindName[k] }

// CurrentName returns the name of the controlled thread of the calling goroutine ("" if none).
func (s *Sched) CurrentName() string {
	if t := s.me(); t != nil {
		return t.name
	}
	return ""
}

// NThreads is the number of threads started so far.
func (s *Sched) NThreads() int {
	s.mu.Lock()
	defer s.mu.Unlock()
	return len(s.threads)
}

// RunX executes one schedule. setup starts the initial threads with s.Go.
func RunX(cfg XCfg, setup func(s *Sched)) *XExec {
	s := &Sched{byGoid: map[int64]*thread{}, locks: map[uintptr]*lockState{}, wg: map[uintptr]int{}, parkedCh: make(chan *thread, 64)}
	activeMu.Lock()
	active = s
	activeMu.Unlock()
	defer func() {
		activeMu.Lock()
		active = nil
		activeMu.Unlock()
	}()
	x := &XExec{S: s, SiteHits: map[string]int{}}
	if cfg.Learn {
		x.Touch = map[xobjKey][]*XTouch{}
	}
	if cfg.MaxSteps == 0 {
		cfg.MaxSteps = 1000000
	}
	var (
		xts     []*xthr
		lockClk = map[uintptr]*xlockClock{}
		atomClk = map[uintptr][]uint32{}
		wgClk   = map[uintptr][]uint32{}
		shadow  = map[uintptr]*xvarShadow{}
		deps    = map[xobjKey]*xdep{}
		spawnN  = map[int]int{}
	)
	choice := map[int]int{}
	maxChoiceStep := -1
	for _, c := range cfg.Choices {
		choice[c.Step] = c.Alt
		if c.Step > maxChoiceStep {
			maxChoiceStep = c.Step
		}
	}
	setup(s)
	timer := time.NewTimer(time.Hour)
	defer timer.Stop()
	step := 0
	cost := 0
	var buf8 [8]byte
	for {
		s.mu.Lock()
		ths := append([]*thread{}, s.threads...)
		s.mu.Unlock()
		// threads created since the last step: children of the thread that ran (roots otherwise)
		newKids := len(ths) - len(xts)
		for id := len(xts); id < len(ths); id++ {
			t := ths[id]
			nt := &xthr{}
			nt.nameHash = h16([]byte(t.name))
			if s.current != nil {
				p := xts[s.current.id]
				nt.vc = append([]uint32{}, p.vc...)
				binary.LittleEndian.PutUint32(buf8[:4], uint32(spawnN[s.current.id]))
				spawnN[s.current.id]++
				nt.last = h16([]byte("spawn"), p.last[:], nt.nameHash[:], buf8[:4])
			} else {
				nt.last = h16([]byte("root"), nt.nameHash[:])
			}
			nt.vc = vcJoin(nt.vc, make([]uint32, id+1))
			nt.vc[id] = 1
			xts = append(xts, nt)
			x.Threads = append(x.Threads, t.name)
		}
		if newKids > 0 && s.current != nil {
			// the parent's later events are not before the child's start
			p := xts[s.current.id]
			p.vc = vcJoin(p.vc, make([]uint32, s.current.id+1))
			p.vc[s.current.id]++
		}
		var en []*thread
		curEnabled := false
		if s.current != nil && s.enabled(s.current) {
			en = append(en, s.current)
			curEnabled = true
		}
		unfinished := 0
		for _, t := range ths {
			if !t.done {
				unfinished++
			}
			if t != s.current && s.enabled(t) {
				en = append(en, t)
			}
		}
		if unfinished == 0 {
			break
		}
		if len(en) == 0 {
			var sb strings.Builder
			for _, t := range ths {
				if !t.done {
					fmt.Fprintf(&sb, "thread %s blocked at %s %s; ", t.name, kindName[t.pending.Kind], t.pending.Site)
				}
			}
			s.Deadlock = sb.String()
			break
		}
		// co-enabled conflicting announced accesses
		for i := 0; i < len(en); i++ {
			for j := i + 1; j < len(en); j++ {
				a, b := en[i].pending, en[j].pending
				if cfg.NoRace != nil && (cfg.NoRace(a.Site) || cfg.NoRace(b.Site)) {
					continue
				}
				if (a.Kind == OpAccessR || a.Kind == OpAccessW) && (b.Kind == OpAccessR || b.Kind == OpAccessW) && a.Addr == b.Addr && (a.Kind == OpAccessW || b.Kind == OpAccessW) {
					x.Races = append(x.Races, XRace{Addr: a.Addr, SiteA: a.Site, SiteB: b.Site, KindA: kindName[a.Kind], KindB: kindName[b.Kind], ThreadA: en[i].name, ThreadB: en[j].name, Step: step, CoEnabled: true})
				}
			}
		}
		// alternatives the explorer may take here
		alts := en
		preempt := false
		if curEnabled {
			op := s.current.pending
			if op.Kind == OpAccessR && cfg.AccessWrite != nil && cfg.AccessWrite(op.Site) {
				op.Kind = OpAccessW
			}
			closesRS := false
			if op.Kind == OpUnlock {
				for _, r := range xts[s.current.id].rs {
					if r.addr == op.Addr {
						closesRS = true // a read section is one step: no preemption in front of its end
					}
				}
			}
			if len(en) > 1 && !closesRS && (cfg.Branch == nil || op.Kind == OpYield || cfg.Branch(op.Site, op.Kind)) {
				preempt = true
			} else {
				alts = en[:1]
			}
		}
		c := 0
		if v, ok := choice[step]; ok {
			c = v
			if c >= len(alts) {
				s.Diverged = fmt.Sprintf("step %d: choice %d but only %d alternatives", step, c, len(alts))
				break
			}
		}
		if len(alts) > 1 {
			// state fingerprint: per thread (name, hash of its last event, finished), sorted by name hash; plus the running thread
			type ent struct{ n, l [16]byte }
			es := make([]ent, 0, len(ths))
			for id, t := range ths {
				l := xts[id].last
				if t.done {
					l = h16([]byte("done"), l[:])
				}
				es = append(es, ent{xts[id].nameHash, l})
			}
			sort.Slice(es, func(i, j int) bool { return string(es[i].n[:]) < string(es[j].n[:]) })
			h := sha256.New()
			for _, e := range es {
				h.Write(e.n[:])
				h.Write(e.l[:])
			}
			if curEnabled {
				h.Write([]byte("cur"))
				h.Write(xts[s.current.id].nameHash[:])
			}
			var fp [16]byte
			copy(fp[:], h.Sum(nil))
			x.Nodes = append(x.Nodes, XNode{Step: step, NAlt: len(alts), Chosen: c, Preempt: preempt, Cost: cost, FP: fp})
		}
		if preempt && c != 0 {
			cost++
		}
		t := alts[c]
		op := t.pending
		if op.Kind == OpAccessR && cfg.AccessWrite != nil && cfg.AccessWrite(op.Site) {
			op.Kind = OpAccessW
		}
		xt := xts[t.id]
		x.Kinds[op.Kind]++
		if cfg.Trace {
			x.Trace = append(x.Trace, fmt.Sprintf("%s:%s@%s", t.name, kindName[op.Kind], op.Site))
		}
		// ---- touch record (before the operation changes the lockset)
		class, hasObj := opClass(op.Kind)
		mode := XWrite
		switch op.Kind {
		case OpRLock, OpRUnlock, OpAccessR:
			mode = XRead
		case OpAtomic:
			if cfg.AtomicLoad != nil && cfg.AtomicLoad(op.Site) {
				mode = XRead
			}
		case OpLock:
			if cfg.ReadSection != nil && cfg.ReadSection(op.Site) {
				mode = XRead
				xt.rs = append(xt.rs, xrs{op.Addr, op.Site})
			}
		case OpUnlock:
			for i := len(xt.rs) - 1; i >= 0; i-- {
				if xt.rs[i].addr == op.Addr {
					mode = XRead
					xt.rs = append(xt.rs[:i:i], xt.rs[i+1:]...)
					break
				}
			}
		}
		// anything but a read inside an open read section refutes the section's classification
		if len(xt.rs) > 0 && !(op.Kind == OpLock && mode == XRead && len(xt.rs) == 1) {
			refute := op.Kind != OpAccessR
			if !refute && cfg.Branch != nil && cfg.Branch(op.Site, op.Kind) {
				refute = true
			}
			if refute {
				if x.NotReadSection == nil {
					x.NotReadSection = map[string]bool{}
				}
				for _, r := range xt.rs {
					if !(op.Kind == OpLock && r.addr == op.Addr && r.site == op.Site) {
						x.NotReadSection[r.site] = true
					}
				}
			}
		}
		if hasObj && cfg.Learn {
			key := xobjKey{class, op.Addr}
			var held []XHeld
			for _, h := range xt.held {
				if class == 0 && h.Addr == op.Addr {
					continue
				}
				held = append(held, h)
			}
			found := false
			for _, r := range x.Touch[key] {
				if r.Tid == t.id && r.Site == op.Site && r.Kind == op.Kind && sameHeld(r.Held, held) {
					r.Count++
					found = true
					break
				}
			}
			if !found {
				x.Touch[key] = append(x.Touch[key], &XTouch{Tid: t.id, Site: op.Site, Kind: op.Kind, Mode: mode, Held: held, Count: 1})
			}
		}
		// ---- happens-before
		switch op.Kind {
		case OpLock:
			if lc := lockClk[op.Addr]; lc != nil {
				xt.vc = vcJoin(xt.vc, lc.wrel)
				xt.vc = vcJoin(xt.vc, lc.rrel)
			}
			xt.held = append(xt.held, XHeld{op.Addr, true})
		case OpRLock:
			if lc := lockClk[op.Addr]; lc != nil {
				xt.vc = vcJoin(xt.vc, lc.wrel)
			}
			for _, h := range xt.held {
				if h.Addr == op.Addr && !h.Write {
					x.RecursiveRL = append(x.RecursiveRL, op.Site)
				}
			}
			xt.held = append(xt.held, XHeld{op.Addr, false})
		case OpUnlock:
			lc := lockClk[op.Addr]
			if lc == nil {
				lc = &xlockClock{}
				lockClk[op.Addr] = lc
			}
			lc.wrel = append([]uint32{}, xt.vc...)
			lc.rrel = nil
			xt.vc[t.id]++
			xt.held = dropHeld(xt.held, op.Addr, true)
		case OpRUnlock:
			lc := lockClk[op.Addr]
			if lc == nil {
				lc = &xlockClock{}
				lockClk[op.Addr] = lc
			}
			lc.rrel = vcJoin(lc.rrel, xt.vc)
			xt.vc[t.id]++
			xt.held = dropHeld(xt.held, op.Addr, false)
		case OpAtomic:
			xt.vc = vcJoin(xt.vc, atomClk[op.Addr])
			if mode == XWrite {
				atomClk[op.Addr] = vcJoin(atomClk[op.Addr], xt.vc)
				xt.vc[t.id]++
			}
		case OpWGAdd:
			if op.N < 0 {
				wgClk[op.Addr] = vcJoin(wgClk[op.Addr], xt.vc)
				xt.vc[t.id]++
			}
		case OpWGWait:
			xt.vc = vcJoin(xt.vc, wgClk[op.Addr])
		case OpAccessR, OpAccessW:
			x.SiteHits[kindName[op.Kind]+"@"+op.Site]++
			sh := shadow[op.Addr]
			if sh == nil {
				sh = &xvarShadow{rClk: map[int]uint32{}, rSite: map[int]string{}}
				shadow[op.Addr] = sh
			}
			noRace := cfg.NoRace != nil && cfg.NoRace(op.Site)
			if !noRace && sh.wSet && sh.wTid != t.id && sh.wClk > vcGet(xt.vc, sh.wTid) {
				x.Races = append(x.Races, XRace{Addr: op.Addr, SiteA: sh.wSite, KindA: "write", ThreadA: ths[sh.wTid].name, SiteB: op.Site, KindB: kindName[op.Kind], ThreadB: t.name, Step: step})
			}
			if op.Kind == OpAccessW {
				for u, clk := range sh.rClk {
					if !noRace && u != t.id && clk > vcGet(xt.vc, u) {
						x.Races = append(x.Races, XRace{Addr: op.Addr, SiteA: sh.rSite[u], KindA: "read", ThreadA: ths[u].name, SiteB: op.Site, KindB: "write", ThreadB: t.name, Step: step})
					}
				}
				sh.wSet, sh.wTid, sh.wClk, sh.wSite = true, t.id, xt.vc[t.id], op.Site
				sh.rClk = map[int]uint32{}
				sh.rSite = map[int]string{}
			} else {
				sh.rClk[t.id] = xt.vc[t.id]
				sh.rSite[t.id] = op.Site
			}
		}
		// ---- dependence hash of this event
		xt.seq++
		binary.LittleEndian.PutUint32(buf8[:4], xt.seq)
		buf8[4] = byte(op.Kind)
		var ev [16]byte
		if hasObj {
			key := xobjKey{class, op.Addr}
			d := deps[key]
			if d == nil {
				d = &xdep{}
				deps[key] = d
			}
			if mode == XRead {
				ev = h16(xt.nameHash[:], buf8[:5], []byte(op.Site), xt.last[:], d.lastW[:])
				add128(&d.reads, ev)
				d.nreads++
			} else {
				var nr [4]byte
				binary.LittleEndian.PutUint32(nr[:], d.nreads)
				ev = h16(xt.nameHash[:], buf8[:5], []byte(op.Site), xt.last[:], d.lastW[:], d.reads[:], nr[:])
				d.lastW = ev
				d.reads = [16]byte{}
				d.nreads = 0
			}
		} else {
			ev = h16(xt.nameHash[:], buf8[:5], []byte(op.Site), xt.last[:])
		}
		xt.last = ev
		// ---- go
		s.apply(op)
		s.current = t
		t.parked = false
		t.resume <- struct{}{}
		if !timer.Stop() {
			select {
			case <-timer.C:
			default:
			}
		}
		timer.Reset(cfg.Watchdog)
		select {
		case <-s.parkedCh:
		case <-timer.C:
			s.Stuck = fmt.Sprintf("thread %s did not reach a scheduling point within %v after %s %s (blocked on something the scheduler does not model?)", t.name, cfg.Watchdog, kindName[op.Kind], op.Site)
		}
		step++
		if s.Stuck != "" {
			break
		}
		if step > cfg.MaxSteps {
			s.Stuck = fmt.Sprintf("more than %d scheduling steps", cfg.MaxSteps)
			break
		}
	}
	if maxChoiceStep >= step && s.Diverged == "" && s.Stuck == "" && s.Deadlock == "" {
		s.Diverged = fmt.Sprintf("execution ended after %d steps but a choice was given for step %d", step, maxChoiceStep)
	}
	x.Steps = step
	x.Preemptions = cost
	// final fingerprint
	{
		type ent struct{ n, l [16]byte }
		es := make([]ent, 0, len(xts))
		for _, xt := range xts {
			es = append(es, ent{xt.nameHash, xt.last})
		}
		sort.Slice(es, func(i, j int) bool { return string(es[i].n[:]) < string(es[j].n[:]) })
		h := sha256.New()
		for _, e := range es {
			h.Write(e.n[:])
			h.Write(e.l[:])
		}
		copy(x.Final[:], h.Sum(nil))
	}
	return x
}

func sameHeld(a, b []XHeld) bool {
	if len(a) != len(b) {
		return false
	}
	for i := range a {
		if a[i] != b[i] {
			return false
		}
	}
	return true
}

func dropHeld(h []XHeld, addr uintptr, write bool) []XHeld {
	for i := len(h) - 1; i >= 0; i-- {
		if h[i].Addr == addr && h[i].Write == write {
			return append(append([]XHeld{}, h[:i]...), h[i+1:]...)
		}
	}
	return h
}

// MutuallyExcluded: the two locksets share a lock that at least one side holds exclusively.
func MutuallyExcluded(a, b []XHeld) bool {
	for _, x := range a {
		for _, y := range b {
			if x.Addr == y.Addr && (x.Write || y.Write) {
				return true
			}
		}
	}
	return false
}

// Unprotected returns the "site/kind" keys of operations that some other thread may perform a
// dependent operation against (same object, not both commuting) without a common lock that
// excludes the two. Only in front of these operations does a preemption lead anywhere new.
func (x *XExec) Unprotected(into map[string]bool) (added []string) {
	for _, recs := range x.Touch {
		for i := 0; i < len(recs); i++ {
			for j := i + 1; j < len(recs); j++ {
				a, b := recs[i], recs[j]
				if a.Tid == b.Tid || (a.Mode == XRead && b.Mode == XRead) {
					continue
				}
				if MutuallyExcluded(a.Held, b.Held) {
					continue
				}
				for _, r := range []*XTouch{a, b} {
					k := r.Site + "/" + kindName[r.Kind]
					if !into[k] {
						into[k] = true
						added = append(added, k)
					}
				}
			}
		}
	}
	sort.Strings(added)
	return added
}

// BranchKey is the key Unprotected uses for an operation.
func BranchKey(site string, kind OpKind) string { return site + "/" + kindName[kind] }

// ---------------------------------------------------------------------------------------------

// XExplorer enumerates schedules best-first in the number of preemptions. A node (state
// fingerprint in front of a decision, which includes the running thread) that was already
// expanded with at most as many preemptions is not expanded again, and neither is the rest of the
// default continuation behind it (it is the same continuation).
type XExplorer struct {
	Bound    int
	Cfg      XCfg // Choices is filled per execution
	Setup    func(s *Sched) (check func(x *XExec, dev []XChoice))
	Deadline func() bool
	// Shard/NShards: after the root execution only the root's alternatives with index%NShards==Shard
	// are followed (NShards<=1: all).
	Shard, NShards int
	// Alternate: take work items alternately from the young and the old end of a level's queue
	// (learning passes want early and late deviations soon); default is youngest first.
	Alternate bool
	// AfterExec is called after every execution; returning true stops the exploration (Stopped).
	AfterExec func(x *XExec, dev []XChoice) bool

	Execs      int
	Steps      int64
	Expanded   int64 // distinct decision nodes expanded
	Pruned     int64 // executions cut short at an already expanded node
	MaxPreempt int
	BoundDone  int // largest bound whose schedules were all executed (-1: none)
	Truncated  bool
	Stopped    bool
	Infra      string // scheduler trouble (stuck / diverged): not a verdict
	seen       map[[16]byte]uint8
}

type xitem struct {
	dev  []XChoice
	cost int
}

func (e *XExplorer) Explore() {
	e.seen = map[[16]byte]uint8{}
	e.BoundDone = -1
	queues := make([][]xitem, e.Bound+1)
	queues[0] = []xitem{{nil, 0}}
	rootAlt := 0
	for level := 0; level <= e.Bound; level++ {
		for len(queues[level]) > 0 {
			if e.Deadline != nil && e.Deadline() {
				e.Truncated = true
				return
			}
			q := queues[level]
			var it xitem
			if e.Alternate && e.Execs%2 == 1 {
				it = q[0]
				queues[level] = q[1:]
			} else {
				it = q[len(q)-1]
				queues[level] = q[:len(q)-1]
			}
			cfg := e.Cfg
			cfg.Choices = it.dev
			var check func(x *XExec, dev []XChoice)
			x := RunX(cfg, func(s *Sched) { check = e.Setup(s) })
			e.Execs++
			e.Steps += int64(x.Steps)
			if x.Preemptions > e.MaxPreempt {
				e.MaxPreempt = x.Preemptions
			}
			if check != nil {
				check(x, it.dev)
			}
			if e.AfterExec != nil && e.AfterExec(x, it.dev) {
				e.Stopped = true
				return
			}
			if x.S.Diverged != "" || x.S.Stuck != "" {
				e.Infra = x.S.Diverged + x.S.Stuck
				continue
			}
			from := -1
			if len(it.dev) > 0 {
				from = it.dev[len(it.dev)-1].Step
			}
			for _, n := range x.Nodes {
				if n.Step <= from {
					continue
				}
				if c, ok := e.seen[n.FP]; ok && int(c) <= n.Cost {
					e.Pruned++
					break
				}
				e.seen[n.FP] = uint8(n.Cost)
				e.Expanded++
				nc := n.Cost
				if n.Preempt {
					nc++
				}
				if nc > e.Bound {
					continue
				}
				for alt := 1; alt < n.NAlt; alt++ {
					if len(it.dev) == 0 && e.NShards > 1 {
						rootAlt++
						if rootAlt%e.NShards != e.Shard {
							continue
						}
					}
					nd := append(append(make([]XChoice, 0, len(it.dev)+1), it.dev...), XChoice{n.Step, alt})
					queues[nc] = append(queues[nc], xitem{nd, nc})
				}
			}
		}
		e.BoundDone = level
	}
}

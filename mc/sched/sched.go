// Package sched is engine E1: a cooperative controlled scheduler plus a preemption-bounded
// depth-first explorer, for exhaustive exploration of thread interleavings of the real code.
//
// Controlled threads are real goroutines, but exactly one of them runs at a time. Before every
// synchronisation operation (lock, unlock, atomic, WaitGroup, announced access, spawn, thread end)
// a thread parks in Point and the explorer decides which parked thread proceeds. Lock ownership is
// modelled by address, so a thread whose next operation would block is disabled; "no enabled
// thread but unfinished threads" is a deadlock. Two parked threads that announce conflicting
// accesses to the same address (at least one write) are co-enabled: that is a data race, reported
// with the schedule that reaches it.
package sched

import (
	"bytes"
	"fmt"
	"runtime"
	"strconv"
	"sync"
	"time"
)

type OpKind int

const (
	OpStart OpKind = iota
	OpLock
	OpRLock
	OpUnlock
	OpRUnlock
	OpAtomic
	OpAccessR
	OpAccessW
	OpWGAdd
	OpWGWait
	OpYield
	OpEnd
)

var kindName = map[OpKind]string{OpStart: "start", OpLock: "lock", OpRLock: "rlock", OpUnlock: "unlock", OpRUnlock: "runlock", OpAtomic: "atomic",
	OpAccessR: "read", OpAccessW: "write", OpWGAdd: "wg.add", OpWGWait: "wg.wait", OpYield: "yield", OpEnd: "end"}

type Op struct {
	Kind OpKind
	Addr uintptr
	N    int    // WaitGroup delta
	Site string // file:line of the caller in the code under test
}

type thread struct {
	id      int
	name    string
	pending Op
	resume  chan struct{}
	done    bool
	parked  bool
}

type lockState struct {
	writer  bool
	readers int
}

// Sched is one execution's scheduler.
type Sched struct {
	mu       sync.Mutex
	threads  []*thread
	byGoid   map[int64]*thread
	locks    map[uintptr]*lockState
	wg       map[uintptr]int
	parkedCh chan *thread // a thread announces that it parked (or finished)
	current  *thread

	choices  []int // prefix to replay, then 0s
	Trace    []Step
	Races    []Race
	Deadlock string
	Stuck    string
	Diverged string
	panics   []string
}

// Step is one scheduling decision of an execution.
type Step struct {
	Enabled []int // thread ids, canonical order: running thread first if still enabled, then ascending
	Chosen  int   // index into Enabled
	RunningStillEnabled bool
	Op      string
}

type Race struct {
	Addr   uintptr
	SiteA  string
	SiteB  string
	KindA  string
	KindB  string
	AtStep int
}

var (
	activeMu sync.Mutex
	active   *Sched
)

// Active returns the scheduler of the execution in progress (nil when free-running).
func Active() *Sched {
	activeMu.Lock()
	defer activeMu.Unlock()
	return active
}

func goid() int64 {
	var buf [64]byte
	n := runtime.Stack(buf[:], false)
	// "goroutine 123 ["
	b := buf[len("goroutine "):n]
	i := bytes.IndexByte(b, ' ')
	id, _ := strconv.ParseInt(string(b[:i]), 10, 64)
	return id
}

// Current returns the controlled thread of the calling goroutine, or nil.
func (s *Sched) me() *thread {
	id := goid()
	s.mu.Lock()
	defer s.mu.Unlock()
	return s.byGoid[id]
}

// Controlled reports whether the calling goroutine is a controlled thread of the active execution.
func Controlled() bool {
	s := Active()
	return s != nil && s.me() != nil
}

func site(skip int) string {
	for i := skip; i < skip+8; i++ {
		_, file, line, ok := runtime.Caller(i)
		if !ok {
			break
		}
		if !bytes.Contains([]byte(file), []byte("/verif/mc/v")) && !bytes.Contains([]byte(file), []byte("/verif/mc/sched")) {
			// shorten
			if j := bytes.LastIndex([]byte(file), []byte("lemochain-core/")); j >= 0 {
				file = file[j+len("lemochain-core/"):]
			} else if j := bytes.Index([]byte(file), []byte("/repo/")); j >= 0 {
				file = file[j+len("/repo/"):]
			}
			return fmt.Sprintf("%s:%d", file, line)
		}
	}
	return "?"
}

// Point is called by the shims before a synchronisation operation. It returns true when the
// caller is a controlled thread (the model has been updated and the real operation may now be
// performed without blocking), false when the caller is not controlled (free-running).
func Point(kind OpKind, addr uintptr, n int) bool {
	s := Active()
	if s == nil {
		return false
	}
	t := s.me()
	if t == nil {
		return false
	}
	t.pending = Op{Kind: kind, Addr: addr, N: n, Site: site(3)}
	t.parked = true
	s.parkedCh <- t
	<-t.resume
	return true
}

// Go starts a controlled thread (callable from the harness before Run, or from a controlled
// thread: the `go` statements of instrumented code arrive here through vtask.Spawn).
func (s *Sched) Go(name string, f func()) {
	t := &thread{id: len(s.threads), name: name, resume: make(chan struct{})}
	s.mu.Lock()
	s.threads = append(s.threads, t)
	s.mu.Unlock()
	started := make(chan struct{})
	go func() {
		id := goid()
		s.mu.Lock()
		s.byGoid[id] = t
		s.mu.Unlock()
		t.pending = Op{Kind: OpStart, Site: name}
		t.parked = true
		close(started)
		<-t.resume
		defer func() {
			if p := recover(); p != nil {
				buf := make([]byte, 4096)
				n := runtime.Stack(buf, false)
				s.mu.Lock()
				s.panics = append(s.panics, fmt.Sprintf("thread %s: %v\n%s", name, p, buf[:n]))
				s.mu.Unlock()
			}
			s.mu.Lock()
			delete(s.byGoid, id)
			s.mu.Unlock()
			t.done = true
			t.parked = true
			t.pending = Op{Kind: OpEnd}
			s.parkedCh <- t
		}()
		f()
	}()
	<-started
}

func (s *Sched) enabled(t *thread) bool {
	if t.done || !t.parked {
		return false
	}
	op := t.pending
	switch op.Kind {
	case OpLock:
		l := s.locks[op.Addr]
		return l == nil || (!l.writer && l.readers == 0)
	case OpRLock:
		l := s.locks[op.Addr]
		return l == nil || !l.writer
	case OpWGWait:
		return s.wg[op.Addr] <= 0
	}
	return true
}

func (s *Sched) apply(op Op) {
	switch op.Kind {
	case OpLock:
		l := s.locks[op.Addr]
		if l == nil {
			l = &lockState{}
			s.locks[op.Addr] = l
		}
		l.writer = true
	case OpRLock:
		l := s.locks[op.Addr]
		if l == nil {
			l = &lockState{}
			s.locks[op.Addr] = l
		}
		l.readers++
	case OpUnlock:
		if l := s.locks[op.Addr]; l != nil {
			l.writer = false
		}
	case OpRUnlock:
		if l := s.locks[op.Addr]; l != nil && l.readers > 0 {
			l.readers--
		}
	case OpWGAdd:
		s.wg[op.Addr] += op.N
	}
}

// Panics returns the panics recovered in controlled threads.
func (s *Sched) Panics() []string { return s.panics }

// Run executes body's threads under the schedule prefix `choices` (index into the canonical enabled
// list at each step; beyond the prefix: choice 0 = keep running the current thread when possible).
// setup must start the threads with s.Go. It returns when every thread has finished, or on
// deadlock, or when a thread stays away from the scheduler for longer than the watchdog.
func Run(choices []int, watchdog time.Duration, setup func(s *Sched)) *Sched {
	s := &Sched{byGoid: map[int64]*thread{}, locks: map[uintptr]*lockState{}, wg: map[uintptr]int{}, parkedCh: make(chan *thread, 64), choices: choices}
	activeMu.Lock()
	active = s
	activeMu.Unlock()
	defer func() {
		activeMu.Lock()
		active = nil
		activeMu.Unlock()
	}()
	setup(s)
	step := 0
	for {
		// canonical enabled list
		s.mu.Lock()
		ths := append([]*thread{}, s.threads...)
		s.mu.Unlock()
		var en []*thread
		runningStill := false
		if s.current != nil && s.enabled(s.current) {
			en = append(en, s.current)
			runningStill = true
		}
		unfinished := 0
		for _, t := range ths {
			if !t.done {
				unfinished++
			}
			if t != s.current && s.enabled(t) {
				en = append(en, t)
			}
		}
		if unfinished == 0 {
			return s
		}
		if len(en) == 0 {
			var sb bytes.Buffer
			for _, t := range ths {
				if !t.done {
					fmt.Fprintf(&sb, "thread %s blocked at %s %s; ", t.name, kindName[t.pending.Kind], t.pending.Site)
				}
			}
			s.Deadlock = sb.String()
			return s
		}
		// race check: co-enabled conflicting announced accesses
		for i := 0; i < len(en); i++ {
			for j := i + 1; j < len(en); j++ {
				a, b := en[i].pending, en[j].pending
				if (a.Kind == OpAccessR || a.Kind == OpAccessW) && (b.Kind == OpAccessR || b.Kind == OpAccessW) && a.Addr == b.Addr && (a.Kind == OpAccessW || b.Kind == OpAccessW) {
					s.Races = append(s.Races, Race{Addr: a.Addr, SiteA: a.Site, SiteB: b.Site, KindA: kindName[a.Kind], KindB: kindName[b.Kind], AtStep: step})
				}
			}
		}
		c := 0
		if step < len(s.choices) {
			c = s.choices[step]
			if c >= len(en) {
				s.Diverged = fmt.Sprintf("step %d: choice %d but only %d enabled", step, c, len(en))
				return s
			}
		}
		ids := make([]int, len(en))
		for i, t := range en {
			ids[i] = t.id
		}
		t := en[c]
		s.Trace = append(s.Trace, Step{Enabled: ids, Chosen: c, RunningStillEnabled: runningStill, Op: fmt.Sprintf("%s:%s@%s", t.name, kindName[t.pending.Kind], t.pending.Site)})
		s.apply(t.pending)
		s.current = t
		t.parked = false
		t.resume <- struct{}{}
		// wait until some thread parks again: the one we resumed (at its next point or its end), or a
		// thread it spawned announcing itself is not needed (Go registers synchronously)
		select {
		case <-s.parkedCh:
		case <-time.After(watchdog):
			s.Stuck = fmt.Sprintf("thread %s did not reach a scheduling point within %v after %s %s (blocked on something the scheduler does not model?)", t.name, watchdog, kindName[t.pending.Kind], t.pending.Site)
			return s
		}
		step++
	}
}

// Explorer enumerates schedules depth-first, bounded by the number of preemptions.
type Explorer struct {
	Bound     int
	Watchdog  time.Duration
	Setup     func(s *Sched) (check func(s *Sched))
	OnExec    func(s *Sched, choices []int)
	Deadline  func() bool
	Execs     int
	Truncated bool
}

func preemptionsBefore(tr []Step, i int) int {
	n := 0
	for k := 0; k < i; k++ {
		if tr[k].RunningStillEnabled && tr[k].Chosen != 0 {
			n++
		}
	}
	return n
}

// Explore runs the DFS from the given prefix.
func (e *Explorer) Explore(prefix []int) {
	if e.Deadline != nil && e.Deadline() {
		e.Truncated = true
		return
	}
	var check func(s *Sched)
	s := Run(prefix, e.Watchdog, func(s *Sched) { check = e.Setup(s) })
	e.Execs++
	if check != nil {
		check(s)
	}
	choices := make([]int, len(s.Trace))
	for i, st := range s.Trace {
		choices[i] = st.Chosen
	}
	if e.OnExec != nil {
		e.OnExec(s, choices)
	}
	if s.Diverged != "" || s.Stuck != "" {
		return
	}
	for i := len(prefix); i < len(s.Trace); i++ {
		st := s.Trace[i]
		base := preemptionsBefore(s.Trace, i)
		for alt := 1; alt < len(st.Enabled); alt++ {
			cost := base
			if st.RunningStillEnabled {
				cost++
			}
			if cost > e.Bound {
				continue
			}
			np := append(append([]int{}, choices[:i]...), alt)
			e.Explore(np)
			if e.Truncated {
				return
			}
		}
	}
}

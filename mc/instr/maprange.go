package main

// Pass "maprange": every `for k, v := range X` whose X is a plain identifier / selector chain is
// rewritten so that, when X is a map and a controlled order is selected (vorder.Policy() != 0), the
// loop visits the keys in the harness's order; otherwise the original loop runs unchanged:
//
//	if ks, ok := vorder.Keys(X); ok {
//	L:	for _, w := range ks {
//			for k, v := range X {            // native loop, used as a typed lookup of key w
//				if !vorder.Eq(k, w) { continue }
//				BODY'                        // unlabeled break/continue of this loop -> break/continue L
//				continue L
//			}
//		}
//	} else {
//		for k, v := range X { BODY }         // the original loop
//	}
//
// No type names are printed and no declared type changes, so the rewrite is purely syntactic; whether
// X is a map is decided at run time by reflection. Loops that are labeled, use `=` instead of `:=`,
// range over a call / index expression (X would be evaluated several times), or whose body contains
// labels or goto are left alone.

import (
	"bytes"
	"fmt"
	"go/ast"
	"go/parser"
	"go/printer"
	"go/token"
	"reflect"
)

var mapRangeSeq int

func instrumentMapRange(fset *token.FileSet, f *ast.File, need map[string]bool) bool {
	changed := false
	var doList func(list []ast.Stmt)
	var doStmt func(s ast.Stmt) ast.Stmt
	doBlock := func(b *ast.BlockStmt) {
		if b != nil {
			doList(b.List)
		}
	}
	doList = func(list []ast.Stmt) {
		for i, s := range list {
			list[i] = doStmt(s)
		}
	}
	doStmt = func(s ast.Stmt) ast.Stmt {
		switch x := s.(type) {
		case *ast.BlockStmt:
			doBlock(x)
		case *ast.IfStmt:
			doBlock(x.Body)
			if x.Else != nil {
				x.Else = doStmt(x.Else)
			}
		case *ast.ForStmt:
			doBlock(x.Body)
		case *ast.SwitchStmt:
			doBlock(x.Body)
		case *ast.TypeSwitchStmt:
			doBlock(x.Body)
		case *ast.SelectStmt:
			doBlock(x.Body)
		case *ast.CaseClause:
			doList(x.Body)
		case *ast.CommClause:
			doList(x.Body)
		case *ast.LabeledStmt:
			// a labeled loop keeps its shape (labeled break/continue may refer to it); its body is still visited
			switch y := x.Stmt.(type) {
			case *ast.RangeStmt:
				doBlock(y.Body)
			default:
				x.Stmt = doStmt(x.Stmt)
			}
		case *ast.RangeStmt:
			doBlock(x.Body) // inner loops first
			if n := rewriteRange(fset, x); n != nil {
				changed = true
				need["vorder"] = true
				return n
			}
		}
		// function literals inside expressions
		return s
	}
	// visit every function body, including function literals
	ast.Inspect(f, func(n ast.Node) bool {
		switch x := n.(type) {
		case *ast.FuncDecl:
			doBlock(x.Body)
		case *ast.FuncLit:
			doBlock(x.Body)
		}
		return true
	})
	return changed
}

func plainOperand(e ast.Expr) bool {
	switch x := e.(type) {
	case *ast.Ident:
		return true
	case *ast.SelectorExpr:
		return plainOperand(x.X)
	case *ast.ParenExpr:
		return plainOperand(x.X)
	case *ast.StarExpr:
		return plainOperand(x.X)
	}
	return false
}

func hasLabelsOrGoto(b *ast.BlockStmt) bool {
	bad := false
	ast.Inspect(b, func(n ast.Node) bool {
		switch x := n.(type) {
		case *ast.LabeledStmt:
			bad = true
		case *ast.BranchStmt:
			if x.Tok == token.GOTO {
				bad = true
			}
		case *ast.FuncLit:
			return false
		}
		return !bad
	})
	return bad
}

func rewriteRange(fset *token.FileSet, rs *ast.RangeStmt) ast.Stmt {
	if rs.Tok != token.DEFINE && !(rs.Key == nil && rs.Value == nil) {
		return nil
	}
	if !plainOperand(rs.X) || hasLabelsOrGoto(rs.Body) {
		return nil
	}
	if rs.Key != nil {
		if _, ok := rs.Key.(*ast.Ident); !ok {
			return nil
		}
	}
	if rs.Value != nil {
		if _, ok := rs.Value.(*ast.Ident); !ok {
			return nil
		}
	}
	mapRangeSeq++
	n := mapRangeSeq
	id := func(s string) *ast.Ident { return ast.NewIdent(fmt.Sprintf("%s__%d", s, n)) }
	label := id("L")
	// a deep copy of the body for the controlled variant
	body2 := copyBlock(fset, rs.Body)
	if body2 == nil {
		return nil
	}
	retarget(body2, label)
	key := ast.Expr(id("k"))
	if k, ok := rs.Key.(*ast.Ident); ok && k.Name != "_" {
		key = ast.NewIdent(k.Name)
	}
	var val ast.Expr
	if v, ok := rs.Value.(*ast.Ident); ok && v.Name != "_" {
		val = ast.NewIdent(v.Name)
	}
	xcopy := copyExpr(fset, rs.X)
	xcopy2 := copyExpr(fset, rs.X)
	if xcopy == nil || xcopy2 == nil {
		return nil
	}
	call := func(fn string, args ...ast.Expr) *ast.CallExpr {
		return &ast.CallExpr{Fun: &ast.SelectorExpr{X: ast.NewIdent("vorder"), Sel: ast.NewIdent(fn)}, Args: args}
	}
	inner := &ast.RangeStmt{Key: key, Value: val, Tok: token.DEFINE, X: xcopy2, Body: &ast.BlockStmt{}}
	inner.Body.List = append(inner.Body.List, &ast.IfStmt{
		Cond: &ast.UnaryExpr{Op: token.NOT, X: call("Eq", ast.NewIdent(key.(*ast.Ident).Name), id("w"))},
		Body: &ast.BlockStmt{List: []ast.Stmt{&ast.BranchStmt{Tok: token.CONTINUE}}},
	})
	inner.Body.List = append(inner.Body.List, body2.List...)
	inner.Body.List = append(inner.Body.List, &ast.BranchStmt{Tok: token.CONTINUE, Label: ast.NewIdent(label.Name)})
	outer := &ast.LabeledStmt{Label: label, Stmt: &ast.RangeStmt{Key: ast.NewIdent("_"), Value: id("w"), Tok: token.DEFINE, X: id("ks"),
		Body: &ast.BlockStmt{List: []ast.Stmt{inner}}}}
	return &ast.IfStmt{
		Init: &ast.AssignStmt{Lhs: []ast.Expr{id("ks"), id("ok")}, Tok: token.DEFINE, Rhs: []ast.Expr{call("Keys", xcopy)}},
		Cond: id("ok"),
		Body: &ast.BlockStmt{List: []ast.Stmt{outer}},
		Else: &ast.BlockStmt{List: []ast.Stmt{rs}},
	}
}

// retarget rewrites the unlabeled break / continue statements that bind to the loop whose body b is.
func retarget(b *ast.BlockStmt, label *ast.Ident) {
	var walk func(n ast.Node, inLoop, inBreakable bool)
	walk = func(n ast.Node, inLoop, inBreakable bool) {
		ast.Inspect(n, func(m ast.Node) bool {
			if m == n {
				return true
			}
			switch x := m.(type) {
			case *ast.FuncLit:
				return false
			case *ast.ForStmt:
				walk(x.Body, true, true)
				return false
			case *ast.RangeStmt:
				walk(x.Body, true, true)
				return false
			case *ast.SwitchStmt:
				walk(x.Body, inLoop, true)
				return false
			case *ast.TypeSwitchStmt:
				walk(x.Body, inLoop, true)
				return false
			case *ast.SelectStmt:
				walk(x.Body, inLoop, true)
				return false
			case *ast.BranchStmt:
				if x.Label == nil {
					if x.Tok == token.BREAK && !inBreakable {
						x.Label = ast.NewIdent(label.Name)
					}
					if x.Tok == token.CONTINUE && !inLoop {
						x.Label = ast.NewIdent(label.Name)
					}
				}
			}
			return true
		})
	}
	walk(b, false, false)
}

func zeroPos(n ast.Node) {
	var rec func(v reflect.Value)
	posType := reflect.TypeOf(token.NoPos)
	rec = func(v reflect.Value) {
		switch v.Kind() {
		case reflect.Ptr, reflect.Interface:
			if !v.IsNil() {
				rec(v.Elem())
			}
		case reflect.Struct:
			for i := 0; i < v.NumField(); i++ {
				f := v.Field(i)
				if f.Type() == posType && f.CanSet() {
					if v.Type().Field(i).Name == "Ellipsis" && f.Int() != 0 {
						f.SetInt(1) // CallExpr.Ellipsis: a valid position MEANS "f(x...)"
						continue
					}
					f.SetInt(0)
					continue
				}
				if v.Type().Field(i).Name == "Obj" || v.Type().Field(i).Name == "Scope" {
					continue
				}
				rec(f)
			}
		case reflect.Slice:
			for i := 0; i < v.Len(); i++ {
				rec(v.Index(i))
			}
		}
	}
	rec(reflect.ValueOf(n))
}

func copyBlock(fset *token.FileSet, b *ast.BlockStmt) *ast.BlockStmt {
	var buf bytes.Buffer
	buf.WriteString("package p\nfunc _() ")
	if err := printer.Fprint(&buf, fset, b); err != nil {
		return nil
	}
	f, err := parser.ParseFile(token.NewFileSet(), "", buf.Bytes(), 0)
	if err != nil {
		return nil
	}
	nb := f.Decls[0].(*ast.FuncDecl).Body
	zeroPos(nb)
	return nb
}

func copyExpr(fset *token.FileSet, e ast.Expr) ast.Expr {
	var buf bytes.Buffer
	if err := printer.Fprint(&buf, fset, e); err != nil {
		return nil
	}
	ne, err := parser.ParseExpr(buf.String())
	if err != nil {
		return nil
	}
	zeroPos(ne)
	return ne
}

// Command instr generates a `go build -overlay` file set from /repo's current working tree.
// It rewrites call sites syntactically; /repo itself is never touched.
//
//	instr -out DIR  pkgdir:pass,pass  pkgdir:pass ...
//
// passes:
//
//	time  time.Now / time.Since / time.AfterFunc / time.Sleep  ->  vclock.*   (harness-owned clock)
//	go    `go f(a...)`                                          ->  vtask.GoCall("site", f, a...)
//	                                                               (callee and arguments are evaluated at the
//	                                                               go statement, as Go does; the harness decides
//	                                                               per site: run for real, gate, or drop)
//	import=P=Q  import "P"                                      ->  import P "Q" (a harness package with the
//	                                                               API subset of P the file uses, e.g. os -> verifmc/vfs)
//	maprange  `for k, v := range m` over a map                  ->  keys visited in the order vorder's policy says
//	                                                               (see maprange.go; native loop when the policy is 0)
//	sync  import "sync" / "sync/atomic"                          ->  verifmc/vsync, verifmc/vatomic
//	                                                               (same API; every operation is a scheduling point
//	                                                               under the controlled scheduler, the real primitive
//	                                                               otherwise)
//
// A pkgdir may be followed by /file.go to restrict the rewrite to one file.
package main

import (
	"bytes"
	"encoding/json"
	"flag"
	"fmt"
	"go/ast"
	"go/build"
	"go/parser"
	"go/printer"
	"go/token"
	"os"
	"path/filepath"
	"strconv"
	"strings"
)

const repo = "/repo"

func main() {
	out := flag.String("out", "", "output directory")
	srcOv := flag.String("srcoverlay", "", "overlay JSON whose replacements are the input sources (mutation experiments)")
	flag.Parse()
	if *srcOv != "" {
		b, err := os.ReadFile(*srcOv)
		if err != nil {
			fail(err)
		}
		var ov struct{ Replace map[string]string }
		if err := json.Unmarshal(b, &ov); err != nil {
			fail(err)
		}
		srcOverlay = ov.Replace
	}
	if *out == "" {
		fmt.Fprintln(os.Stderr, "instr: -out required")
		os.Exit(2)
	}
	os.RemoveAll(*out)
	if err := os.MkdirAll(*out, 0755); err != nil {
		fail(err)
	}
	replace := map[string]string{}
	ctx := build.Default
	ctx.BuildTags = append(ctx.BuildTags, "verif")
	for _, spec := range flag.Args() {
		parts := strings.SplitN(spec, ":", 2)
		if len(parts) != 2 {
			fail(fmt.Errorf("bad spec %q", spec))
		}
		passes := map[string]bool{}
		accessNames = map[string]bool{}
		importMap = map[string]string{}
		for _, p := range strings.Split(parts[1], ",") {
			if strings.HasPrefix(p, "import=") {
				// import=os=verifmc/vfs : the package imports verifmc/vfs under the name os
				kv := strings.SplitN(p[len("import="):], "=", 2)
				if len(kv) != 2 {
					fail(fmt.Errorf("bad pass %q", p))
				}
				passes["import"] = true
				importMap[kv[0]] = kv[1]
				continue
			}
			if strings.HasPrefix(p, "access=") {
				passes["access"] = true
				for _, n := range strings.Split(p[len("access="):], "|") {
					accessNames[n] = true
				}
				continue
			}
			passes[p] = true
		}
		dir, only := parts[0], ""
		if strings.HasSuffix(dir, ".go") {
			only = filepath.Base(dir)
			dir = filepath.Dir(dir)
		}
		abs := filepath.Join(repo, dir)
		ents, err := os.ReadDir(abs)
		if err != nil {
			fail(err)
		}
		for _, e := range ents {
			name := e.Name()
			if e.IsDir() || !strings.HasSuffix(name, ".go") || strings.HasSuffix(name, "_test.go") {
				continue
			}
			if only != "" && name != only {
				continue
			}
			if ok, err := ctx.MatchFile(abs, name); err != nil || !ok {
				continue
			}
			src := filepath.Join(abs, name)
			dst := filepath.Join(*out, strings.ReplaceAll(dir, "/", "_")+"__"+name)
			changed, err := rewrite(src, dst, dir, passes)
			if err != nil {
				fail(fmt.Errorf("%s: %v", src, err))
			}
			if changed {
				replace[src] = dst
			}
		}
	}
	// replacements of the source overlay that were not instrumented pass through unchanged
	for k, v := range srcOverlay {
		if _, ok := replace[k]; !ok {
			replace[k] = v
		}
	}
	b, _ := json.MarshalIndent(map[string]interface{}{"Replace": replace}, "", " ")
	if err := os.WriteFile(filepath.Join(*out, "overlay.json"), b, 0644); err != nil {
		fail(err)
	}
}

func fail(err error) {
	fmt.Fprintln(os.Stderr, "instr:", err)
	os.Exit(2)
}

var srcOverlay = map[string]string{}

// accessNames: field names ("lastSig") or qualified names ("sigCache.Hash") whose reads and writes
// are announced to the scheduler (pass "access=a|b|c").
var accessNames = map[string]bool{}

// importMap: import path -> replacement path (pass "import=from=to"); the local name is kept.
var importMap = map[string]string{}

var timeFuncs = map[string]bool{"Now": true, "Since": true, "AfterFunc": true, "Sleep": true}

func rewrite(src, dst, dir string, passes map[string]bool) (bool, error) {
	fset := token.NewFileSet()
	in := src
	if alt, ok := srcOverlay[src]; ok {
		in = alt
	}
	f, err := parser.ParseFile(fset, in, nil, parser.ParseComments)
	if err != nil {
		return false, err
	}
	// local names of the imports we care about
	local := map[string]string{} // import path -> local name
	for _, im := range f.Imports {
		p, _ := strconv.Unquote(im.Path.Value)
		n := filepath.Base(p)
		if im.Name != nil {
			n = im.Name.Name
		}
		local[p] = n
	}
	changed := false
	need := map[string]bool{}

	if passes["sync"] {
		for _, im := range f.Imports {
			p, _ := strconv.Unquote(im.Path.Value)
			switch p {
			case "sync":
				if im.Name == nil {
					im.Name = ast.NewIdent("sync")
				}
				im.Path.Value = strconv.Quote("verifmc/vsync")
				changed = true
			case "sync/atomic":
				if im.Name == nil {
					im.Name = ast.NewIdent("atomic")
				}
				im.Path.Value = strconv.Quote("verifmc/vatomic")
				changed = true
			}
		}
	}

	if passes["import"] {
		for _, im := range f.Imports {
			p, _ := strconv.Unquote(im.Path.Value)
			if to, ok := importMap[p]; ok {
				if im.Name == nil {
					im.Name = ast.NewIdent(filepath.Base(p))
				}
				im.Path.Value = strconv.Quote(to)
				changed = true
			}
		}
	}

	timeName, hasTime := local["time"]
	var rewriteStmts func(list []ast.Stmt)
	site := func(pos token.Pos, call *ast.CallExpr) string {
		var buf bytes.Buffer
		printer.Fprint(&buf, fset, call.Fun)
		s := buf.String()
		if len(s) > 60 {
			s = s[:60]
		}
		s = strings.Join(strings.Fields(s), " ")
		return fmt.Sprintf("%s/%s:%d:%s", dir, filepath.Base(src), fset.Position(pos).Line, s)
	}
	goCall := func(gs *ast.GoStmt) ast.Stmt {
		call := gs.Call
		fn := "GoCall"
		if call.Ellipsis.IsValid() {
			fn = "GoCallSlice"
		}
		args := []ast.Expr{&ast.BasicLit{Kind: token.STRING, Value: strconv.Quote(site(gs.Pos(), call))}, call.Fun}
		args = append(args, call.Args...)
		need["vtask"] = true
		changed = true
		return &ast.ExprStmt{X: &ast.CallExpr{Fun: &ast.SelectorExpr{X: ast.NewIdent("vtask"), Sel: ast.NewIdent(fn)}, Args: args}}
	}
	_ = rewriteStmts

	ast.Inspect(f, func(n ast.Node) bool {
		switch x := n.(type) {
		case *ast.SelectorExpr:
			if passes["time"] && hasTime {
				if id, ok := x.X.(*ast.Ident); ok && id.Name == timeName && id.Obj == nil && timeFuncs[x.Sel.Name] {
					id.Name = "vclock"
					need["vclock"] = true
					changed = true
				}
			}
		case *ast.BlockStmt:
			if passes["go"] {
				for i, s := range x.List {
					if gs, ok := s.(*ast.GoStmt); ok {
						x.List[i] = goCall(gs)
					}
				}
			}
		case *ast.CaseClause:
			if passes["go"] {
				for i, s := range x.Body {
					if gs, ok := s.(*ast.GoStmt); ok {
						x.Body[i] = goCall(gs)
					}
				}
			}
		case *ast.CommClause:
			if passes["go"] {
				for i, s := range x.Body {
					if gs, ok := s.(*ast.GoStmt); ok {
						x.Body[i] = goCall(gs)
					}
				}
			}
		case *ast.LabeledStmt:
			if passes["go"] {
				if gs, ok := x.Stmt.(*ast.GoStmt); ok {
					x.Stmt = goCall(gs)
				}
			}
		case *ast.IfStmt:
			// `if c { } else go f()` does not parse; nothing to do
		}
		return true
	})
	if passes["access"] {
		if instrumentAccess(f, need) {
			changed = true
		}
	}
	if passes["maprange"] {
		if instrumentMapRange(fset, f, need) {
			changed = true
			// the rewrite mixes nodes with and without positions; comments (kept by position) could land
			// inside the new code, so only the ones in front of the package clause (build constraints) stay
			var keep []*ast.CommentGroup
			for _, cg := range f.Comments {
				if cg.End() < f.Package {
					keep = append(keep, cg)
				}
			}
			f.Comments = keep
		}
	}
	if !changed {
		return false, nil
	}
	for pkg := range need {
		if pkg == "unsafe" {
			addImport(f, "unsafe", "unsafe")
			continue
		}
		addImport(f, pkg, "verifmc/"+pkg)
	}
	// the time import may have become unused
	if need["vclock"] && !usesIdent(f, timeName) {
		removeImport(f, "time")
	}
	var buf bytes.Buffer
	// No `//line` header: behind a line directive cmd/compile (go1.22+) no longer finds the file's
	// language version and gives the file per-iteration loop variables although the module says
	// go 1.14 — closures over loop variables in instrumented files would silently behave differently
	// from the real build. Positions still name the /repo path (that is how -overlay works); only the
	// line numbers of runtime.Caller shift by the lines the rewrite adds. Site strings carry the
	// original line.
	cfg := printer.Config{Mode: printer.UseSpaces | printer.TabIndent, Tabwidth: 8}
	if err := cfg.Fprint(&buf, fset, f); err != nil {
		return false, err
	}
	return true, os.WriteFile(dst, buf.Bytes(), 0644)
}

func addImport(f *ast.File, name, path string) {
	spec := &ast.ImportSpec{Name: ast.NewIdent(name), Path: &ast.BasicLit{Kind: token.STRING, Value: strconv.Quote(path)}}
	for _, d := range f.Decls {
		if gd, ok := d.(*ast.GenDecl); ok && gd.Tok == token.IMPORT {
			gd.Specs = append(gd.Specs, spec)
			if !gd.Lparen.IsValid() {
				gd.Lparen = gd.Pos()
				gd.Rparen = gd.End()
			}
			f.Imports = append(f.Imports, spec)
			return
		}
	}
	gd := &ast.GenDecl{Tok: token.IMPORT, Specs: []ast.Spec{spec}}
	f.Decls = append([]ast.Decl{gd}, f.Decls...)
	f.Imports = append(f.Imports, spec)
}

func removeImport(f *ast.File, path string) {
	for _, d := range f.Decls {
		gd, ok := d.(*ast.GenDecl)
		if !ok || gd.Tok != token.IMPORT {
			continue
		}
		for i, s := range gd.Specs {
			is := s.(*ast.ImportSpec)
			if p, _ := strconv.Unquote(is.Path.Value); p == path {
				// keep the import but blank it: simplest way to stay well-formed
				is.Name = ast.NewIdent("_")
				gd.Specs[i] = is
			}
		}
	}
}

func usesIdent(f *ast.File, name string) bool {
	used := false
	ast.Inspect(f, func(n ast.Node) bool {
		if se, ok := n.(*ast.SelectorExpr); ok {
			if id, ok := se.X.(*ast.Ident); ok && id.Name == name && id.Obj == nil {
				used = true
			}
		}
		return !used
	})
	return used
}

// ---------------------------------------------------------------------------------------------
// pass "access": announce reads / writes of configured shared fields in front of the statement

type acc struct {
	expr  ast.Expr // the selector X.Sel
	write bool
}

func simpleBase(e ast.Expr) bool {
	switch x := e.(type) {
	case *ast.Ident:
		return true
	case *ast.SelectorExpr:
		return simpleBase(x.X)
	case *ast.StarExpr:
		return simpleBase(x.X)
	case *ast.ParenExpr:
		return simpleBase(x.X)
	}
	return false
}

func matchAccess(se *ast.SelectorExpr) bool {
	if !simpleBase(se.X) {
		return false
	}
	if accessNames[se.Sel.Name] {
		// a bare field name must not match a package-qualified identifier (pkg.Name): require a
		// lower-case base or a selector chain; good enough for the configured names
		return true
	}
	if id, ok := se.X.(*ast.Ident); ok && accessNames[id.Name+"."+se.Sel.Name] {
		return true
	}
	return false
}

// rootSel finds the matching selector at the root of an l-value expression (x.f, x.f[i], x.f.g, *x.f).
func rootSel(e ast.Expr) *ast.SelectorExpr {
	for {
		switch x := e.(type) {
		case *ast.SelectorExpr:
			if matchAccess(x) {
				return x
			}
			e = x.X
		case *ast.IndexExpr:
			e = x.X
		case *ast.SliceExpr:
			e = x.X
		case *ast.StarExpr:
			e = x.X
		case *ast.ParenExpr:
			e = x.X
		default:
			return nil
		}
	}
}

func collect(n ast.Node, out *[]acc, writes map[*ast.SelectorExpr]bool) {
	if n == nil {
		return
	}
	ast.Inspect(n, func(m ast.Node) bool {
		switch x := m.(type) {
		case *ast.FuncLit:
			return false // its body is instrumented on its own
		case *ast.CallExpr:
			if id, ok := x.Fun.(*ast.Ident); ok && id.Name == "delete" && len(x.Args) > 0 {
				if r := rootSel(x.Args[0]); r != nil {
					writes[r] = true
				}
			}
		case *ast.SelectorExpr:
			if matchAccess(x) {
				*out = append(*out, acc{expr: x, write: writes[x]})
				return false
			}
		}
		return true
	})
}

func stmtAccesses(st ast.Stmt) []acc {
	var out []acc
	writes := map[*ast.SelectorExpr]bool{}
	switch x := st.(type) {
	case *ast.AssignStmt:
		for _, l := range x.Lhs {
			if r := rootSel(l); r != nil {
				writes[r] = true
			}
		}
		collect(x, &out, writes)
	case *ast.IncDecStmt:
		if r := rootSel(x.X); r != nil {
			writes[r] = true
		}
		collect(x, &out, writes)
	case *ast.ExprStmt, *ast.ReturnStmt, *ast.DeclStmt, *ast.SendStmt, *ast.GoStmt, *ast.DeferStmt:
		collect(st, &out, writes)
	case *ast.IfStmt:
		for s := x; s != nil; {
			collect(s.Init, &out, writes)
			collect(s.Cond, &out, writes)
			next, _ := s.Else.(*ast.IfStmt)
			s = next
		}
	case *ast.ForStmt:
		collect(x.Init, &out, writes)
		collect(x.Cond, &out, writes)
	case *ast.RangeStmt:
		collect(x.X, &out, writes)
	case *ast.SwitchStmt:
		collect(x.Init, &out, writes)
		collect(x.Tag, &out, writes)
	}
	// writes flagged after collection (delete) need a second look
	for i := range out {
		if se, ok := out[i].expr.(*ast.SelectorExpr); ok && writes[se] {
			out[i].write = true
		}
	}
	// de-duplicate by printed form, a write wins
	seen := map[string]int{}
	var res []acc
	for _, a := range out {
		var buf bytes.Buffer
		printer.Fprint(&buf, token.NewFileSet(), a.expr)
		k := buf.String()
		if i, ok := seen[k]; ok {
			if a.write {
				res[i].write = true
			}
			continue
		}
		seen[k] = len(res)
		res = append(res, a)
	}
	return res
}

func announce(a acc, syncName string) ast.Stmt {
	w := "false"
	if a.write {
		w = "true"
	}
	return &ast.ExprStmt{X: &ast.CallExpr{
		Fun: &ast.SelectorExpr{X: ast.NewIdent(syncName), Sel: ast.NewIdent("Access")},
		Args: []ast.Expr{
			&ast.CallExpr{Fun: &ast.SelectorExpr{X: ast.NewIdent("unsafe"), Sel: ast.NewIdent("Pointer")}, Args: []ast.Expr{&ast.UnaryExpr{Op: token.AND, X: a.expr}}},
			ast.NewIdent(w),
		},
	}}
}

func instrumentAccess(f *ast.File, need map[string]bool) bool {
	changed := false
	rewriteList := func(list []ast.Stmt) []ast.Stmt {
		var out []ast.Stmt
		for _, st := range list {
			for _, a := range stmtAccesses(st) {
				out = append(out, announce(a, "vsync"))
				changed = true
			}
			out = append(out, st)
		}
		return out
	}
	ast.Inspect(f, func(n ast.Node) bool {
		switch x := n.(type) {
		case *ast.BlockStmt:
			x.List = rewriteList(x.List)
		case *ast.CaseClause:
			x.Body = rewriteList(x.Body)
		case *ast.CommClause:
			x.Body = rewriteList(x.Body)
		}
		return true
	})
	if changed {
		need["vsync"] = true
		need["unsafe"] = true
	}
	return changed
}

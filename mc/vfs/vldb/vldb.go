// Package vldb stands in for github.com/syndtr/goleveldb/leveldb in store/leveldb/database.go
// (instrumenter pass import=github.com/syndtr/goleveldb/leveldb=verifmc/vfs/vldb). It is goleveldb
// itself; Put / Delete / Write / open / close of a database that lives below the root of the
// active vfs session additionally pass the session's gate and are recorded in its log as LOGICAL
// operations. The crash model treats each of them as atomic and ordered (goleveldb appends one
// check-summed journal record per write and flushes it to the file before it returns; a torn
// journal record is dropped when the database is opened again).
package vldb

import (
	"verifmc/vfs"

	"github.com/syndtr/goleveldb/leveldb"
	"github.com/syndtr/goleveldb/leveldb/iterator"
	"github.com/syndtr/goleveldb/leveldb/opt"
	"github.com/syndtr/goleveldb/leveldb/util"
)

var (
	ErrNotFound = leveldb.ErrNotFound
	ErrClosed   = leveldb.ErrClosed
)

type Batch = leveldb.Batch

// DB wraps *leveldb.DB.
type DB struct {
	db   *leveldb.DB
	path string
}

func (d *DB) session() *vfs.Session {
	s, _ := vfs.TrackPath(d.path)
	return s
}

func OpenFile(path string, o *opt.Options) (*DB, error) {
	var db *leveldb.DB
	var err error
	if s, _ := vfs.TrackPath(path); s != nil {
		s.Do(&vfs.Op{Kind: "ldbopen"}, func() bool {
			db, err = leveldb.OpenFile(path, o)
			return err == nil
		})
	} else {
		db, err = leveldb.OpenFile(path, o)
	}
	if err != nil {
		return nil, err
	}
	return &DB{db: db, path: path}, nil
}

func RecoverFile(path string, o *opt.Options) (*DB, error) {
	db, err := leveldb.RecoverFile(path, o)
	if err != nil {
		return nil, err
	}
	return &DB{db: db, path: path}, nil
}

func cp(b []byte) []byte { return append([]byte(nil), b...) }

func (d *DB) Put(key, value []byte, wo *opt.WriteOptions) error {
	if s := d.session(); s != nil {
		var err error
		s.Do(&vfs.Op{Kind: "ldbput", Key: cp(key), Val: cp(value)}, func() bool {
			err = d.db.Put(key, value, wo)
			return err == nil
		})
		return err
	}
	return d.db.Put(key, value, wo)
}

func (d *DB) Delete(key []byte, wo *opt.WriteOptions) error {
	if s := d.session(); s != nil {
		var err error
		s.Do(&vfs.Op{Kind: "ldbdel", Key: cp(key)}, func() bool {
			err = d.db.Delete(key, wo)
			return err == nil
		})
		return err
	}
	return d.db.Delete(key, wo)
}

type collect struct{ kv []vfs.KV }

func (c *collect) Put(key, value []byte) { c.kv = append(c.kv, vfs.KV{Key: cp(key), Val: cp(value)}) }
func (c *collect) Delete(key []byte)     { c.kv = append(c.kv, vfs.KV{Key: cp(key), Del: true}) }

func (d *DB) Write(b *Batch, wo *opt.WriteOptions) error {
	if s := d.session(); s != nil {
		var c collect
		if err := b.Replay(&c); err != nil {
			return err
		}
		var err error
		s.Do(&vfs.Op{Kind: "ldbbatch", Batch: c.kv}, func() bool {
			err = d.db.Write(b, wo)
			return err == nil
		})
		return err
	}
	return d.db.Write(b, wo)
}

func (d *DB) Close() error {
	if s := d.session(); s != nil {
		var err error
		s.Do(&vfs.Op{Kind: "ldbclose"}, func() bool {
			err = d.db.Close()
			return err == nil
		})
		return err
	}
	return d.db.Close()
}

func (d *DB) Get(key []byte, ro *opt.ReadOptions) ([]byte, error) { return d.db.Get(key, ro) }
func (d *DB) Has(key []byte, ro *opt.ReadOptions) (bool, error)   { return d.db.Has(key, ro) }
func (d *DB) GetProperty(name string) (string, error)             { return d.db.GetProperty(name) }
func (d *DB) NewIterator(slice *util.Range, ro *opt.ReadOptions) iterator.Iterator {
	return d.db.NewIterator(slice, ro)
}
func (d *DB) CompactRange(r util.Range) error { return d.db.CompactRange(r) }

// Raw gives the harness the underlying database.
func (d *DB) Raw() *leveldb.DB { return d.db }

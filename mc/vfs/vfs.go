// Package vfs is the I/O seam of the store for engine E3 (crash-point and torn-write enumeration).
//
// Instrumented store files import it under the name `os` (instrumenter pass import=os=verifmc/vfs).
// It offers the subset of package os those files use. Outside a Session, and for paths outside the
// session's root, every call goes straight to package os. Inside a session every MUTATING operation
// on a path below the root
//
//   - is appended to the session's log in execution order (create/truncate, remove, mkdir,
//     write(path, offset, bytes), fsync; LevelDB put / delete / batch come from the sibling package
//     vldb; mutex and pending-index events come from qsync), and
//   - passes the two-party gate first: the goroutine that began the session is the FOREGROUND, every
//     other goroutine that touches the root is the BACKGROUND (the store's asynchronous writer).
//     The background performs operations only while the foreground is parked at one of its own
//     operations, and only as many as the session's schedule allows there; the foreground continues
//     when the background can make no further progress under that allowance (it has nothing left to
//     do, it is parked at the gate, or it waits for a lock the foreground holds). All of that is
//     decided by events, never by the clock (a generous real-time cap only guards against a writer
//     that died or lost a record; hitting it is counted and reported).
//
// The log gives one totally ordered sequence of completed operations per run; the harness cuts it.
package vfs

import (
	"bytes"
	"fmt"
	"os"
	"path/filepath"
	"runtime"
	"strconv"
	"strings"
	"sync"
	"time"
)

// ---------------------------------------------------------------------------------------------
// the os subset

const (
	O_RDONLY = os.O_RDONLY
	O_WRONLY = os.O_WRONLY
	O_RDWR   = os.O_RDWR
	O_APPEND = os.O_APPEND
	O_CREATE = os.O_CREATE
	O_EXCL   = os.O_EXCL
	O_SYNC   = os.O_SYNC
	O_TRUNC  = os.O_TRUNC

	ModePerm = os.ModePerm
)

type (
	FileMode = os.FileMode
	FileInfo = os.FileInfo
)

var ErrInvalid = os.ErrInvalid

func Stat(name string) (FileInfo, error) { return os.Stat(name) }
func IsNotExist(err error) bool          { return os.IsNotExist(err) }
func IsExist(err error) bool             { return os.IsExist(err) }
func RemoveAll(path string) error        { return os.RemoveAll(path) }

// File wraps *os.File. The nil *File behaves like the nil *os.File (the store defers Close before
// it looks at the error of OpenFile).
type File struct {
	f    *os.File
	path string
	s    *Session // non-nil: operations on this file are logged / gated
	rel  string
	pos  int64
	app  bool // opened with O_APPEND: every write goes to the end of the file, whatever Seek said
}

func exists(p string) bool { _, err := os.Lstat(p); return err == nil }

func Create(name string) (*File, error) {
	s, rel := track(name)
	if s == nil {
		f, err := os.Create(name)
		if err != nil {
			return nil, err
		}
		return &File{f: f, path: name}, nil
	}
	var f *os.File
	var err error
	s.do(&Op{Kind: "create", Path: rel}, func() bool {
		f, err = os.Create(name)
		return err == nil
	})
	if err != nil {
		return nil, err
	}
	return &File{f: f, path: name, s: s, rel: rel}, nil
}

func OpenFile(name string, flag int, perm FileMode) (*File, error) {
	s, rel := track(name)
	if s == nil {
		f, err := os.OpenFile(name, flag, perm)
		if err != nil {
			return nil, err
		}
		return &File{f: f, path: name}, nil
	}
	mutates := flag&O_TRUNC != 0 || (flag&O_CREATE != 0 && !exists(name))
	var f *os.File
	var err error
	if mutates {
		s.do(&Op{Kind: "create", Path: rel}, func() bool {
			f, err = os.OpenFile(name, flag, perm)
			return err == nil
		})
	} else {
		f, err = os.OpenFile(name, flag, perm)
	}
	if err != nil {
		return nil, err
	}
	fl := &File{f: f, path: name, s: s, rel: rel, app: flag&O_APPEND != 0}
	return fl, nil
}

func Remove(name string) error {
	s, rel := track(name)
	if s == nil {
		return os.Remove(name)
	}
	var err error
	s.do(&Op{Kind: "remove", Path: rel}, func() bool {
		err = os.Remove(name)
		return err == nil
	})
	return err
}

// Truncate changes the size of the named file.
func Truncate(name string, size int64) error {
	s, rel := track(name)
	if s == nil {
		return os.Truncate(name, size)
	}
	var err error
	s.do(&Op{Kind: "truncate", Path: rel, Off: size}, func() bool {
		err = os.Truncate(name, size)
		return err == nil
	})
	return err
}

// Rename renames (moves) oldpath to newpath, replacing newpath if it exists (atomic).
func Rename(oldpath, newpath string) error {
	s, rel := track(oldpath)
	s2, rel2 := track(newpath)
	if s == nil || s2 == nil {
		return os.Rename(oldpath, newpath)
	}
	var err error
	s.do(&Op{Kind: "rename", Path: rel, Note: rel2}, func() bool {
		err = os.Rename(oldpath, newpath)
		return err == nil
	})
	return err
}

func MkdirAll(path string, perm FileMode) error {
	s, rel := track(path)
	if s == nil || exists(path) {
		return os.MkdirAll(path, perm)
	}
	var err error
	s.do(&Op{Kind: "mkdir", Path: rel}, func() bool {
		err = os.MkdirAll(path, perm)
		return err == nil
	})
	return err
}

func (f *File) Close() error {
	if f == nil {
		return ErrInvalid
	}
	return f.f.Close()
}

func (f *File) Name() string { return f.path }

func (f *File) Stat() (FileInfo, error) {
	if f == nil {
		return nil, ErrInvalid
	}
	return f.f.Stat()
}

func (f *File) Seek(offset int64, whence int) (int64, error) {
	if f == nil {
		return 0, ErrInvalid
	}
	n, err := f.f.Seek(offset, whence)
	if err == nil {
		f.pos = n
	}
	return n, err
}

func (f *File) Read(b []byte) (int, error) {
	if f == nil {
		return 0, ErrInvalid
	}
	if f.s != nil {
		f.s.readPoint(f.rel)
	}
	n, err := f.f.Read(b)
	f.pos += int64(n)
	return n, err
}

func (f *File) Write(b []byte) (int, error) {
	if f == nil {
		return 0, ErrInvalid
	}
	if f.s == nil || !f.s.live() {
		n, err := f.f.Write(b)
		f.pos += int64(n)
		return n, err
	}
	var n int
	var err error
	op := &Op{Kind: "write", Path: f.rel, Off: f.pos, Data: append([]byte(nil), b...)}
	f.s.do(op, func() bool {
		if f.app {
			// the kernel ignores the file position of an O_APPEND descriptor: log where the bytes go
			if st, e := f.f.Stat(); e == nil {
				op.Off = st.Size()
				f.pos = st.Size()
			}
		}
		n, err = f.f.Write(b)
		return err == nil && n == len(b)
	})
	f.pos += int64(n)
	return n, err
}

func (f *File) Sync() error {
	if f == nil {
		return ErrInvalid
	}
	if f.s == nil || !f.s.live() {
		return f.f.Sync()
	}
	// under the process-death model fsync changes nothing about what survives; it is a cut point
	f.s.do(&Op{Kind: "sync", Path: f.rel}, func() bool { return true })
	return nil
}

// ---------------------------------------------------------------------------------------------
// the log

// KV is one element of a LevelDB batch (Val == nil with Del set: a delete).
type KV struct {
	Key []byte
	Val []byte
	Del bool
}

// Op is one completed mutating operation (or a marker the harness put into the log).
type Op struct {
	Class byte   // 'F' foreground, 'B' background, 'M' marker
	Kind  string // create remove mkdir write sync truncate rename(Path -> Note) ldbput ldbdel ldbbatch ldbopen ldbclose mark
	Path  string // relative to the session root ("" for LevelDB operations and markers)
	Off   int64
	Data  []byte
	Key   []byte
	Val   []byte
	Batch []KV
	Note  string // marker text
	FgIdx int    // index of the foreground gate point at or after which the operation ran
}

func (o *Op) String() string {
	switch o.Kind {
	case "write":
		return fmt.Sprintf("%c:write %s @%d +%d", o.Class, o.Path, o.Off, len(o.Data))
	case "ldbput":
		return fmt.Sprintf("%c:ldbput %q (%d bytes)", o.Class, clip(o.Key), len(o.Val))
	case "ldbdel":
		return fmt.Sprintf("%c:ldbdel %q", o.Class, clip(o.Key))
	case "ldbbatch":
		return fmt.Sprintf("%c:ldbbatch %d entries", o.Class, len(o.Batch))
	case "mark":
		return "mark " + o.Note
	case "truncate":
		return fmt.Sprintf("%c:truncate %s to %d", o.Class, o.Path, o.Off)
	case "rename":
		return fmt.Sprintf("%c:rename %s -> %s", o.Class, o.Path, o.Note)
	}
	return fmt.Sprintf("%c:%s %s", o.Class, o.Kind, o.Path)
}

func clip(b []byte) string {
	if len(b) > 24 {
		return string(b[:24]) + "…"
	}
	return string(b)
}

// ---------------------------------------------------------------------------------------------
// sessions and the gate

// Unlimited as a schedule answer: the background may run until it has nothing left to do.
const Unlimited = -1

// Session is one logged / gated run of a store below Root. One session can be active per process.
type Session struct {
	Root string
	Log  []Op

	// Schedule answers, for the i-th foreground gate point (0-based; mutating operations, acquisitions
	// of the write-ahead file's lock reported by qsync, explicit GatePoints; a read — when GateReads
	// is set — is a gate point that carries the index of the next counted point), how many
	// operations the background may perform before the foreground continues. nil = Unlimited always
	// ("the background drains immediately").
	Schedule func(fgIdx int, what string) int
	// GateReads makes the foreground's reads of files below Root gate points as well (they are never
	// logged); used to let the background run while the startup scan is in progress.
	GateReads bool
	// NoGate: log only (operations of all goroutines are serialised, nobody waits for anybody).
	NoGate bool
	// Cap is the real-time guard of one gate wait (default 20 s).
	Cap time.Duration

	mu   sync.Mutex
	cond *sync.Cond
	fg   int64
	on   bool // between Begin and End

	fgIdx       int
	fgWaiting   bool // the foreground is parked at a gate point
	perm        int  // operations the background may still perform at this gate point
	free        bool // the background runs without the foreground being parked (Drain)
	forced      bool // the foreground waits for a lock the background holds: the background runs until it lets go
	bgAtGate    int  // background goroutines parked at the gate
	bgOnLock    int  // background goroutines waiting for a qsync lock the foreground holds
	outstanding int  // records handed to the writer that it has not reported done (from qsync)
	seenBG      map[int64]bool
	dead        map[int64]bool // goroutines of an instance that was shut down (NewInstance): they never run again
	pendingGen  int64          // generation of the pending-record count (one per store instance)

	BgPanic string // a background goroutine of the store panicked (recovered by the harness's spawn hook)
	Broken  string // the gate's real-time cap was hit: from here on nobody waits

	// statistics
	ForcedMoves  int // background operations performed while the foreground was parked
	FreeMoves    int // background operations performed during Drain
	Timeouts     int
	LockWaitsBG  int // times the background waited for a lock held by the foreground
	LockWaitsFG  int // times the foreground waited for a lock held by the background
	Reads        int // foreground reads that were gate points
}

var (
	activeMu sync.Mutex
	active   *Session
)

// Active returns the session in progress, or nil.
func Active() *Session {
	activeMu.Lock()
	s := active
	activeMu.Unlock()
	return s
}

// Begin starts a session rooted at dir; the calling goroutine becomes the foreground.
func Begin(dir string) *Session {
	abs, err := filepath.Abs(dir)
	if err != nil {
		panic(err)
	}
	s := &Session{Root: filepath.Clean(abs), fg: Goid(), on: true, seenBG: map[int64]bool{}, dead: map[int64]bool{}, Cap: 20 * time.Second}
	s.cond = sync.NewCond(&s.mu)
	activeMu.Lock()
	if active != nil {
		activeMu.Unlock()
		panic("vfs: a session is already active")
	}
	active = s
	activeMu.Unlock()
	return s
}

// End stops logging and gating; goroutines parked at the gate continue unobserved.
func (s *Session) End() {
	s.mu.Lock()
	s.on = false
	s.cond.Broadcast()
	s.mu.Unlock()
	activeMu.Lock()
	if active == s {
		active = nil
	}
	activeMu.Unlock()
}

func (s *Session) live() bool {
	s.mu.Lock()
	on := s.on
	s.mu.Unlock()
	return on
}

// IsFG reports whether the calling goroutine is the session's foreground.
func (s *Session) IsFG() bool { return Goid() == s.fg }

// Gating reports whether the session makes goroutines wait for each other.
func (s *Session) Gating() bool { return !s.NoGate }

// track decides whether name is below the active session's root.
func track(name string) (*Session, string) {
	s := Active()
	if s == nil {
		return nil, ""
	}
	abs := name
	if !filepath.IsAbs(abs) {
		a, err := filepath.Abs(name)
		if err != nil {
			return nil, ""
		}
		abs = a
	}
	abs = filepath.Clean(abs)
	if abs == s.Root {
		return s, "."
	}
	if strings.HasPrefix(abs, s.Root+string(filepath.Separator)) {
		return s, abs[len(s.Root)+1:]
	}
	return nil, ""
}

// TrackPath is track for the sibling packages.
func TrackPath(name string) (*Session, string) { return track(name) }

// Mark appends a marker to the log (foreground only; not a gate point).
func (s *Session) Mark(note string) {
	s.mu.Lock()
	if s.on {
		s.Log = append(s.Log, Op{Class: 'M', Kind: "mark", Note: note, FgIdx: s.fgIdx})
	}
	s.mu.Unlock()
}

// Do is the entry point for logged operations of sibling packages (vldb): gate, run, log on success.
func (s *Session) Do(op *Op, run func() bool) { s.do(op, run) }

func (s *Session) do(op *Op, run func() bool) {
	g := Goid()
	s.mu.Lock()
	if !s.on {
		s.mu.Unlock()
		run()
		return
	}
	if g == s.fg {
		op.Class = 'F'
		s.fgGate(op.Kind + " " + op.Path)
	} else {
		s.buryIfDead(g)
		op.Class = 'B'
		s.bgGate(g)
	}
	op.FgIdx = s.fgIdx
	ok := run()
	if ok && s.on {
		s.Log = append(s.Log, *op)
	}
	s.cond.Broadcast()
	s.mu.Unlock()
}

// readPoint is a foreground gate point that logs nothing.
func (s *Session) readPoint(rel string) {
	if !s.GateReads || s.NoGate {
		return
	}
	if Goid() != s.fg {
		return
	}
	s.mu.Lock()
	if s.on {
		s.fgGate("read " + rel)
	}
	s.mu.Unlock()
}

// stable: the background cannot (or may not) make progress any more. Called with s.mu held.
func (s *Session) stable() bool {
	if !s.on || s.BgPanic != "" || s.Broken != "" {
		return true
	}
	if s.outstanding <= 0 && s.bgAtGate == 0 {
		return true
	}
	if s.bgOnLock > 0 {
		return true
	}
	if s.perm == 0 && s.bgAtGate > 0 {
		return true
	}
	return false
}

// fgGate parks the foreground until the background is stable under this point's allowance.
// Called with s.mu held; returns with s.mu held.
func (s *Session) fgGate(what string) {
	idx := s.fgIdx
	if strings.HasPrefix(what, "read ") {
		// reads are gate points but do not count: how many there are depends on whether a record is
		// still served from the pending index, which the bookkeeping goroutine decides on its own time
		s.Reads++
	} else {
		s.fgIdx++
	}
	if s.NoGate {
		return
	}
	perm := Unlimited
	if s.Schedule != nil {
		perm = s.Schedule(idx, what)
	}
	s.park(perm)
}

// park: with s.mu held, let the background perform up to perm operations, return when stable.
func (s *Session) park(perm int) {
	s.perm = perm
	s.fgWaiting = true
	s.cond.Broadcast()
	s.waitStable()
	s.fgWaiting = false
	s.perm = 0
}

func (s *Session) waitStable() {
	if s.stable() {
		return
	}
	deadline := time.Now().Add(s.Cap)
	stop := make(chan struct{})
	go func() {
		t := time.NewTicker(200 * time.Millisecond)
		defer t.Stop()
		for {
			select {
			case <-stop:
				return
			case <-t.C:
				s.mu.Lock()
				s.cond.Broadcast()
				s.mu.Unlock()
			}
		}
	}()
	for !s.stable() {
		if time.Now().After(deadline) {
			s.Timeouts++
			s.Broken = fmt.Sprintf("gate wait exceeded %v (outstanding=%d bgAtGate=%d bgOnLock=%d perm=%d)", s.Cap, s.outstanding, s.bgAtGate, s.bgOnLock, s.perm)
			break
		}
		s.cond.Wait()
	}
	close(stop)
}

// bgGate parks a background goroutine until it may perform one operation. s.mu held.
func (s *Session) bgGate(g int64) {
	if s.NoGate {
		return
	}
	s.seenBG[g] = true
	s.bgAtGate++
	s.cond.Broadcast()
	for s.on && s.Broken == "" && !s.dead[g] && !(s.free || (s.fgWaiting && s.perm != 0)) {
		s.cond.Wait()
	}
	s.bgAtGate--
	if s.dead[g] {
		// its instance was shut down while it was parked here
		s.cond.Broadcast()
		s.mu.Unlock()
		select {}
	}
	if s.free {
		s.FreeMoves++
	} else if s.fgWaiting {
		s.ForcedMoves++
		if s.perm > 0 {
			s.perm--
		}
	}
}

// Drain lets the background run freely until it has nothing left to do (foreground only).
// It returns false when the background panicked or the real-time cap was hit.
func (s *Session) Drain() bool {
	s.mu.Lock()
	defer s.mu.Unlock()
	if s.NoGate {
		// nobody is parked; wait for the pending index to empty
		s.perm = Unlimited
		s.waitStable()
		return s.BgPanic == "" && s.Broken == ""
	}
	s.free = true
	s.perm = Unlimited
	s.cond.Broadcast()
	s.waitStable()
	s.free = false
	s.perm = 0
	return s.BgPanic == "" && s.Broken == ""
}

// NewInstance tells the session that the store instance in use so far has been shut down (a clean
// process exit as far as the store is concerned) and that the foreground is about to open the
// directory again: every background goroutine seen so far belongs to the old process and never runs
// again (it parks forever at its next operation or lock), and the count of pending records starts
// from zero for the new instance.
func (s *Session) NewInstance() {
	s.mu.Lock()
	for g := range s.seenBG {
		s.dead[g] = true
	}
	s.pendingGen++
	s.outstanding = 0
	s.bgOnLock = 0
	s.cond.Broadcast()
	s.mu.Unlock()
}

// PendingGen is the generation a lock of the pending index records when it is first used.
func (s *Session) PendingGen() int64 {
	s.mu.Lock()
	defer s.mu.Unlock()
	return s.pendingGen
}

// buryIfDead parks a goroutine of a shut-down instance forever. Called with s.mu held.
func (s *Session) buryIfDead(g int64) {
	if s.dead[g] {
		s.mu.Unlock()
		select {}
	}
}

// GatePoint is a foreground gate point without an operation (e.g. "the foreground is idle between
// two workload steps"): the background runs as far as the schedule allows here.
func (s *Session) GatePoint(what string) {
	s.mu.Lock()
	if s.on {
		s.fgGate(what)
	}
	s.mu.Unlock()
}

// Pending is the number of records the writer has not reported done (as counted by qsync).
func (s *Session) Pending() int {
	s.mu.Lock()
	defer s.mu.Unlock()
	return s.outstanding
}

// FgPoints is the number of foreground gate points passed so far.
func (s *Session) FgPoints() int {
	s.mu.Lock()
	defer s.mu.Unlock()
	return s.fgIdx
}

// NotePanic records a panic of one of the store's own goroutines (called by the harness's spawn
// hook after recovering it) and wakes everybody up.
func (s *Session) NotePanic(msg string) {
	s.mu.Lock()
	if s.BgPanic == "" {
		s.BgPanic = msg
	}
	s.cond.Broadcast()
	s.mu.Unlock()
}

// ---------------------------------------------------------------------------------------------
// entry points for qsync (locks and the pending index of the write-ahead queue)

// Delivered / Completed: a record entered / left the queue's pending index.
func (s *Session) Delivered(gen int64) {
	s.mu.Lock()
	s.note(Goid())
	if gen == s.pendingGen {
		s.outstanding++
	}
	s.mu.Unlock()
}

func (s *Session) Completed(gen int64) {
	s.mu.Lock()
	s.note(Goid())
	if gen == s.pendingGen {
		s.outstanding--
		s.cond.Broadcast()
	}
	s.mu.Unlock()
}

// note remembers a background goroutine. s.mu held.
func (s *Session) note(g int64) {
	if g != s.fg {
		s.seenBG[g] = true
	}
}

// LockOwner values.
const (
	OwnerNone = 0
	OwnerFG   = 1
	OwnerBG   = 2
)

// LockState is what the gate knows about one lock of the store: which PARTY (foreground or
// background) holds it for writing, and how many read holds the foreground has. Contention inside
// one party is left to the real mutex behind it. The fields only change under the session's lock.
type LockState struct {
	Writer     int32
	FgReaders  int32
	BgWaiters  int32 // background goroutines counted as "waiting for a lock the foreground holds" here
	ReleaseSeq int64 // incremented when the foreground's release uncounts them
}

// Acquire arbitrates a lock between the two parties so that "the background waits for a lock the
// foreground holds" and "the foreground needs a lock the background holds while it is parked at the
// gate" are events the gate reacts to instead of deadlocks. gatePoint makes the foreground's
// acquisition a gate point of its own (used for the lock of the write-ahead file).
func (s *Session) Acquire(l *LockState, write bool, gatePoint bool) {
	g := Goid()
	s.mu.Lock()
	defer s.mu.Unlock()
	if g == s.fg {
		if gatePoint && s.on {
			// whatever the background may do under the schedule happens before the foreground
			// looks at the pending index
			s.fgGate("lock")
		}
		if l.Writer == OwnerBG {
			// the background holds it (parked at the gate in the middle of a record): it must be
			// allowed to run until it lets go — this is what the real lock would make happen
			s.LockWaitsFG++
			for l.Writer == OwnerBG && s.on && s.Broken == "" && s.BgPanic == "" {
				s.perm = Unlimited
				s.fgWaiting = true
				s.forced = true
				s.cond.Broadcast()
				s.cond.Wait()
			}
			s.forced = false
			s.fgWaiting = false
			s.perm = 0
		}
		if write {
			l.Writer = OwnerFG
		} else {
			l.FgReaders++
		}
		return
	}
	if s.dead[g] {
		s.mu.Unlock() // the deferred Unlock never runs: this goroutine never returns
		select {}
	}
	s.note(g)
	blocked := func() bool {
		if write {
			return l.Writer == OwnerFG || l.FgReaders > 0
		}
		return l.Writer == OwnerFG
	}
	if blocked() {
		s.LockWaitsBG++
		counted := false
		var seq int64
		for blocked() && s.on && !s.dead[g] {
			if !counted {
				// (again, if the foreground released the lock — which uncounts its waiters — and took
				// it once more before this goroutine got to run)
				s.bgOnLock++
				l.BgWaiters++
				seq = l.ReleaseSeq
				counted = true
				s.cond.Broadcast()
			}
			s.cond.Wait()
			if l.ReleaseSeq != seq {
				counted = false
			}
		}
		if s.dead[g] {
			// its instance was shut down meanwhile (NewInstance has reset bgOnLock)
			s.mu.Unlock() // the deferred Unlock never runs
			select {}
		}
		if counted && l.ReleaseSeq == seq {
			s.bgOnLock--
			l.BgWaiters--
		}
	}
	if write {
		l.Writer = OwnerBG
	}
}

// Release undoes Acquire.
func (s *Session) Release(l *LockState, write bool) {
	g := Goid()
	s.mu.Lock()
	if g == s.fg {
		if write {
			if l.Writer == OwnerFG {
				l.Writer = OwnerNone
			}
		} else if l.FgReaders > 0 {
			l.FgReaders--
		}
		if l.Writer == OwnerNone && l.FgReaders == 0 && l.BgWaiters > 0 {
			// whoever waited for this lock can run again NOW, not when it happens to wake up: the
			// foreground's next gate point must wait for it
			s.bgOnLock -= int(l.BgWaiters)
			if s.bgOnLock < 0 {
				s.bgOnLock = 0
			}
			l.BgWaiters = 0
			l.ReleaseSeq++
		}
	} else if write && l.Writer == OwnerBG {
		l.Writer = OwnerNone
		if s.forced {
			// the foreground was waiting for a lock of the background: the background's extra
			// allowance ends with the release (the foreground re-arms it if this was another lock)
			s.perm = 0
		}
	}
	s.cond.Broadcast()
	s.mu.Unlock()
}

// ---------------------------------------------------------------------------------------------

// Goid returns the id of the calling goroutine.
func Goid() int64 {
	var buf [64]byte
	n := runtime.Stack(buf[:], false)
	b := buf[:n]
	b = bytes.TrimPrefix(b, []byte("goroutine "))
	if i := bytes.IndexByte(b, ' '); i > 0 {
		b = b[:i]
	}
	id, _ := strconv.ParseInt(string(b), 10, 64)
	return id
}

// Package qsync stands in for package sync in store/file_queue.go and store/bitcask.go
// (instrumenter pass import=sync=verifmc/vfs/qsync). Outside a gating vfs session both types are the
// plain primitives. While one is active, for the locks of the store that was opened inside it,
//
//   - every lock tells the gate which party holds it (the foreground or the store's background
//     goroutines), so that "the background waits for a lock the foreground holds" and "the foreground
//     needs a lock the background holds while it is parked at the gate in the middle of a record"
//     are events the gate reacts to instead of deadlocks;
//   - taking Mutex (FileQueue.PutLock, the lock of tmp.data) is a gate point of the foreground;
//   - RWMutex counts the records that enter (FileQueue.setIndex) and leave (FileQueue.delIndex) the
//     pending index: their difference is the number of records the asynchronous writer still owes,
//     which is how the gate knows — without a clock — that the writer has nothing left to do.
package qsync

import (
	"runtime"
	"strings"
	"sync"
	"sync/atomic"

	"verifmc/vfs"
)

type (
	WaitGroup = sync.WaitGroup
	Once      = sync.Once
	Cond      = sync.Cond
	Map       = sync.Map
	Pool      = sync.Pool
	Locker    = sync.Locker
)

// binding ties a lock to the session in which it was first used: the store under test is opened
// inside its session, so its locks belong to it; locks of instances that were created outside any
// session, or that are left over from an earlier session (an abandoned instance whose goroutines
// are still running), never talk to the gate.
type binding struct {
	bound atomic.Pointer[vfs.Session]
	gen   int64 // the session's pending-count generation when the lock was first used
}

var noSession = new(vfs.Session)

func (b *binding) session() *vfs.Session {
	own := b.bound.Load()
	if own == nil {
		s := vfs.Active()
		if s == nil {
			s = noSession
		}
		if s != noSession {
			atomic.StoreInt64(&b.gen, s.PendingGen())
		}
		b.bound.CompareAndSwap(nil, s)
		own = b.bound.Load()
	}
	if own == noSession || !own.Gating() || vfs.Active() != own {
		return nil
	}
	return own
}

// Mutex is sync.Mutex whose holder the gate can see.
type Mutex struct {
	binding
	mu  sync.Mutex
	st  vfs.LockState
	via *vfs.Session // session through which the current holder came (written under mu)
}

func (m *Mutex) Lock() {
	s := m.session()
	if s != nil {
		s.Acquire(&m.st, true, true)
	}
	m.mu.Lock()
	m.via = s
}

func (m *Mutex) Unlock() {
	s := m.via
	m.via = nil
	m.mu.Unlock()
	if s != nil {
		s.Release(&m.st, true)
	}
}

// RWMutex is sync.RWMutex whose holders the gate can see, and which counts deliveries into and
// completions out of the write-ahead queue's pending index.
type RWMutex struct {
	binding
	rw  sync.RWMutex
	st  vfs.LockState
	via *vfs.Session // for the write lock (written under rw)
}

func (m *RWMutex) Lock() {
	s := m.session()
	if s != nil {
		if callerIs("setIndex") {
			s.Delivered(atomic.LoadInt64(&m.gen))
		}
		s.Acquire(&m.st, true, false)
	}
	m.rw.Lock()
	m.via = s
}

func (m *RWMutex) Unlock() {
	s := m.via
	m.via = nil
	m.rw.Unlock()
	if s != nil {
		s.Release(&m.st, true)
		if callerIs("delIndex") {
			s.Completed(atomic.LoadInt64(&m.gen))
		}
	}
}

func (m *RWMutex) RLock() {
	if s := m.session(); s != nil {
		s.Acquire(&m.st, false, false)
	}
	m.rw.RLock()
}

func (m *RWMutex) RUnlock() {
	m.rw.RUnlock()
	// a read hold taken before the session began is released as a no-op (Release never goes below 0)
	if s := m.session(); s != nil {
		s.Release(&m.st, false)
	}
}

// callerIs reports whether one of the nearest frames above the lock call is the FileQueue method
// with that name (deferred calls run on the deferring function's frame).
func callerIs(method string) bool {
	var pcs [6]uintptr
	n := runtime.Callers(3, pcs[:])
	frames := runtime.CallersFrames(pcs[:n])
	for i := 0; i < 4; i++ {
		f, more := frames.Next()
		if strings.HasSuffix(f.Function, "(*FileQueue)."+method) {
			return true
		}
		if strings.Contains(f.Function, "(*FileQueue).") {
			return false
		}
		if !more {
			break
		}
	}
	return false
}

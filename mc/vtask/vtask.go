// Package vtask is the seam behind every rewritten `go` statement. The harness installs a policy
// per call site: Real (a plain goroutine, the default), Gated (queued; the explorer releases tasks
// one at a time, in any order it wants, and each runs to completion on the releasing goroutine) or
// Drop (never run: plumbing the harness replaces).
package vtask

import (
	"reflect"
	"strings"
	"sync"
)

type Mode int

const (
	Real Mode = iota
	Gated
	Drop
)

type rule struct {
	substr string
	mode   Mode
}

type Task struct {
	Site string
	run  func()
}

var (
	mu      sync.Mutex
	rules   []rule
	deflt   = Real
	pending []*Task
	// Spawn, when non-nil, takes over Real tasks (engine E1 turns them into controlled threads).
	Spawn func(site string, f func())
)

// SetPolicy installs the rules (first matching substring wins) and the default mode.
func SetPolicy(def Mode, pairs ...interface{}) {
	mu.Lock()
	defer mu.Unlock()
	deflt = def
	rules = nil
	for i := 0; i+1 < len(pairs); i += 2 {
		rules = append(rules, rule{pairs[i].(string), pairs[i+1].(Mode)})
	}
}

func Policy(site string) Mode {
	mu.Lock()
	defer mu.Unlock()
	return policyLocked(site)
}

func policyLocked(site string) Mode {
	for _, r := range rules {
		if strings.Contains(site, r.substr) {
			return r.mode
		}
	}
	return deflt
}

func dispatch(site string, f func()) {
	mu.Lock()
	m := policyLocked(site)
	switch m {
	case Gated:
		pending = append(pending, &Task{Site: site, run: f})
		mu.Unlock()
		return
	case Drop:
		mu.Unlock()
		return
	}
	sp := Spawn
	mu.Unlock()
	if sp != nil {
		sp(site, f)
		return
	}
	go f()
}

// GoCall is `go fn(args...)`: fn and args are already evaluated by the caller.
func GoCall(site string, fn interface{}, args ...interface{}) {
	if f, ok := fn.(func()); ok && len(args) == 0 {
		dispatch(site, f)
		return
	}
	fv := reflect.ValueOf(fn)
	ft := fv.Type()
	in := make([]reflect.Value, len(args))
	for i, a := range args {
		var pt reflect.Type
		if ft.IsVariadic() && i >= ft.NumIn()-1 {
			pt = ft.In(ft.NumIn() - 1).Elem()
		} else {
			pt = ft.In(i)
		}
		if a == nil {
			in[i] = reflect.Zero(pt)
		} else {
			in[i] = reflect.ValueOf(a)
			if in[i].Type() != pt && in[i].Type().ConvertibleTo(pt) && pt.Kind() != reflect.Interface {
				in[i] = in[i].Convert(pt) // untyped constants arrive with their default type
			}
		}
	}
	dispatch(site, func() { fv.Call(in) })
}

// GoCallSlice is `go fn(a, b, rest...)`.
func GoCallSlice(site string, fn interface{}, args ...interface{}) {
	fv := reflect.ValueOf(fn)
	ft := fv.Type()
	in := make([]reflect.Value, len(args))
	for i, a := range args {
		if a == nil {
			in[i] = reflect.Zero(ft.In(i))
		} else {
			in[i] = reflect.ValueOf(a)
		}
	}
	dispatch(site, func() { fv.CallSlice(in) })
}

// Pending lists the sites of the queued tasks, oldest first.
func Pending() []string {
	mu.Lock()
	defer mu.Unlock()
	l := make([]string, len(pending))
	for i, t := range pending {
		l[i] = t.Site
	}
	return l
}

// Run releases queued task i and runs it to completion on the calling goroutine.
func Run(i int) {
	mu.Lock()
	t := pending[i]
	pending = append(pending[:i], pending[i+1:]...)
	mu.Unlock()
	t.run()
}

// RunAll drains the queue in FIFO order (tasks may queue further tasks).
func RunAll() int {
	n := 0
	for {
		mu.Lock()
		if len(pending) == 0 {
			mu.Unlock()
			return n
		}
		mu.Unlock()
		Run(0)
		n++
	}
}

// Reset forgets all queued tasks.
func Reset() { mu.Lock(); pending = nil; mu.Unlock() }

module verifmc

go 1.23

require (
	github.com/LemoFoundationLtd/lemochain-core v0.0.0
	github.com/syndtr/goleveldb v0.0.0-20180708030551-c4c61651e9e3
)

require (
	github.com/aristanetworks/goarista v0.0.0-20170210015632-ea17b1a17847 // indirect
	github.com/go-stack/stack v1.7.0 // indirect
	github.com/golang/snappy v0.0.0-20180518054509-2e65f85255db // indirect
	github.com/inconshreveable/log15 v0.0.0-20171019012758-0decfc6c20d9 // indirect
	github.com/mattn/go-colorable v0.1.4 // indirect
	github.com/mattn/go-isatty v0.0.11 // indirect
	github.com/rcrowley/go-metrics v0.0.0-20200313005456-10cdbea86bc0 // indirect
	github.com/rs/cors v1.5.1-0.20180731071213-15587285ef6b // indirect
	golang.org/x/crypto v0.0.0-20200728195943-123391ffb6de // indirect
	golang.org/x/net v0.0.0-20200707034311-ab3426394381 // indirect
	golang.org/x/sys v0.0.0-20200808120158-1030fc2bf1d9 // indirect
	gopkg.in/fatih/set.v0 v0.2.1 // indirect
	gopkg.in/karalabe/cookiejar.v2 v2.0.0-20150724131613-8dcd6a7f4951 // indirect
	gopkg.in/urfave/cli.v1 v1.20.0 // indirect
)

replace github.com/LemoFoundationLtd/lemochain-core => /repo

package core

import (
	"bufio"
	"encoding/json"
	"fmt"
	"io"
	"os"
	"os/exec"
	"runtime/debug"
	"strings"
	"sync"
	"syscall"
	"time"
)

// Engine E2: explicit-state breadth-first search over event histories, executed on the real
// implementation. A state is the history that reaches it; a successor is produced by building a
// fresh instance, replaying the history and applying one more event. States are de-duplicated on
// the canonical key the harness returns.

// Outcome is what the harness observed after replaying one history on a fresh instance.
type Outcome struct {
	Key        string      `json:"k"`           // canonical state key ("" = do not expand, e.g. after a violation)
	Enabled    []string    `json:"e,omitempty"` // events enabled in this state
	Violations []Violation `json:"v,omitempty"`
	Tags       []string    `json:"t,omitempty"` // distinct-outcome tags / coverage marks hit by this history
	Nondet     string      `json:"n,omitempty"` // the replay diverged from what the parent state promised: infrastructure error
	Died       bool        `json:"d,omitempty"` // the worker process died while executing this history
	DiedMsg    string      `json:"m,omitempty"`
}

// RunFunc replays hist on a fresh instance and evaluates the oracles.
type RunFunc func(hist []string) Outcome

// SafeRun wraps a RunFunc so that a panic in the harness goroutine becomes an Outcome carrying a
// violation with fingerprint "panic/<first line>". Harnesses that expect specific panics classify
// them themselves before this wrapper sees them.
func SafeRun(prop string, f RunFunc) RunFunc {
	return func(hist []string) (o Outcome) {
		defer func() {
			if p := recover(); p != nil {
				msg := fmt.Sprint(p)
				st := string(debug.Stack())
				o = Outcome{Violations: []Violation{{
					Fingerprint: prop + "/panic/" + firstLine(msg) + "@" + panicSite(st),
					What:        "panic: " + firstLine(msg) + " at " + panicSite(st),
					Replay:      map[string]interface{}{"history": hist, "stack": st},
				}}}
			}
		}()
		return f(hist)
	}
}

func firstLine(s string) string {
	if i := strings.IndexByte(s, '\n'); i >= 0 {
		s = s[:i]
	}
	if len(s) > 120 {
		s = s[:120]
	}
	return s
}

// panicSite extracts the first lemochain-core function below the panic in a stack trace.
func panicSite(st string) string {
	lines := strings.Split(st, "\n")
	seenPanic := false
	for _, l := range lines {
		if strings.HasPrefix(l, "panic(") {
			seenPanic = true
			continue
		}
		if seenPanic && strings.Contains(l, "lemochain-core/") && !strings.HasPrefix(l, "\t") {
			l = l[strings.Index(l, "lemochain-core/")+len("lemochain-core/"):]
			if i := strings.LastIndex(l, "("); i > 0 {
				l = l[:i]
			}
			return l
		}
	}
	return "?"
}

type BFSConfig struct {
	Prop     string
	Run      RunFunc
	MaxDepth int
	// Subprocess selects worker processes (needed when the code under test has process-global
	// state or may panic in goroutines the harness does not own); otherwise goroutines are used.
	Subprocess bool
	Workers    int
	// DiedFingerprint turns a dead worker into a violation (nil: infrastructure note only).
	DiedFingerprint func(hist []string, stderrTail string) *Violation
	// RecycleEvery restarts a subprocess worker after that many histories (0 = never).
	RecycleEvery int
	PerRunLimit  time.Duration
}

type bfsJob struct {
	hist []string
}

// BFS explores all histories up to MaxDepth (modulo state de-duplication) and fills r.
func BFS(r *Result, cfg BFSConfig) {
	if cfg.Workers == 0 {
		cfg.Workers = Opt.Workers
	}
	if cfg.PerRunLimit == 0 {
		cfg.PerRunLimit = 60 * time.Second
	}
	pool := newPool(cfg)
	defer pool.close()
	// VERIF_BFS_DUMP=<file>: one line per explored history (history, key digest, number of enabled
	// events) in exploration order; two runs of a deterministic harness produce identical files
	var dump *os.File
	if p := os.Getenv("VERIF_BFS_DUMP"); p != "" {
		dump, _ = os.OpenFile(p, os.O_CREATE|os.O_APPEND|os.O_WRONLY, 0644)
		if dump != nil {
			defer dump.Close()
		}
	}

	root := pool.evalOne(nil)
	absorb(r, nil, root)
	seen := map[string]bool{}
	if root.Key == "" {
		r.NotExhaustive("root state not expandable")
		return
	}
	seen[root.Key] = true
	r.Add("states", 1)
	type node struct {
		hist    []string
		enabled []string
	}
	frontier := []node{{nil, root.Enabled}}
	depthDone := 0
	for depth := 1; depth <= cfg.MaxDepth && len(frontier) > 0; depth++ {
		var jobs [][]string
		for _, n := range frontier {
			for _, e := range n.enabled {
				h := append(append([]string{}, n.hist...), e)
				jobs = append(jobs, h)
			}
		}
		outs, complete := pool.evalAll(jobs)
		var next []node
		for i, o := range outs {
			if o == nil {
				continue
			}
			r.Add("transitions", 1)
			absorb(r, jobs[i], *o)
			if dump != nil {
				fmt.Fprintf(dump, "%s\t%s\t%d\t%s\n", strings.Join(jobs[i], " | "), Hash(o.Key), len(o.Enabled), o.Nondet)
			}
			if o.Died {
				if cfg.DiedFingerprint != nil {
					if v := cfg.DiedFingerprint(jobs[i], o.DiedMsg); v != nil {
						r.Violate(v.Fingerprint, v.What, v.Replay)
					}
				} else {
					r.NotExhaustive(fmt.Sprintf("worker died on %v: %s", jobs[i], firstLine(o.DiedMsg)))
				}
				continue
			}
			if o.Nondet != "" {
				r.Add("nondeterministic_replays", 1)
				r.NotExhaustive(fmt.Sprintf("replay of %v diverged: %s", jobs[i], o.Nondet))
				continue
			}
			if o.Key == "" || seen[o.Key] {
				continue
			}
			seen[o.Key] = true
			r.Add("states", 1)
			if len(r.Samples) < 4 && depth >= 2 {
				r.Sample(map[string]interface{}{"history": jobs[i], "key": shorten(o.Key)})
			}
			next = append(next, node{jobs[i], o.Enabled})
		}
		if !complete {
			r.NotExhaustive(fmt.Sprintf("internal deadline reached inside depth %d (depth %d fully explored)", depth, depthDone))
			break
		}
		depthDone = depth
		frontier = next
	}
	r.Extra["max_depth_completed"] = depthDone
	r.Extra["depth_bound"] = cfg.MaxDepth
	if len(r.Samples) == 0 {
		r.Sample(map[string]interface{}{"history": []string{}, "key": shorten(root.Key)})
	}
}

func shorten(s string) string {
	if len(s) > 300 {
		return s[:300] + "…"
	}
	return s
}

func absorb(r *Result, hist []string, o Outcome) {
	for _, v := range o.Violations {
		r.Violate(v.Fingerprint, v.What, v.Replay)
	}
	for _, t := range o.Tags {
		r.Outcome(t)
	}
}

// ---------------------------------------------------------------------------------------------

type pool struct {
	cfg     BFSConfig
	subs    []*subWorker
	scratch string
}

func newPool(cfg BFSConfig) *pool {
	p := &pool{cfg: cfg}
	if cfg.Subprocess {
		// workers create their databases below this directory; it is removed with the pool
		p.scratch = ScratchDir("pool")
		for i := 0; i < cfg.Workers; i++ {
			p.subs = append(p.subs, &subWorker{cfg: cfg, scratch: p.scratch})
		}
	}
	return p
}

func (p *pool) close() {
	for _, s := range p.subs {
		s.stop()
	}
	if p.scratch != "" {
		os.RemoveAll(p.scratch)
	}
}

func (p *pool) evalOne(h []string) Outcome {
	outs, _ := p.evalAll([][]string{h})
	return *outs[0]
}

// evalAll evaluates every history; returns complete=false if the internal deadline stopped it.
func (p *pool) evalAll(jobs [][]string) ([]*Outcome, bool) {
	outs := make([]*Outcome, len(jobs))
	var idx int
	var mu sync.Mutex
	complete := true
	var wg sync.WaitGroup
	n := p.cfg.Workers
	if n > len(jobs) {
		n = len(jobs)
	}
	for w := 0; w < n; w++ {
		wg.Add(1)
		go func(w int) {
			defer wg.Done()
			for {
				mu.Lock()
				if idx >= len(jobs) || (OutOfTime() && idx > 0) {
					if idx < len(jobs) {
						complete = false
					}
					mu.Unlock()
					return
				}
				i := idx
				idx++
				mu.Unlock()
				var o Outcome
				if p.cfg.Subprocess {
					o = p.subs[w].eval(jobs[i], 1)
					if o.Died && strings.HasPrefix(o.DiedMsg, hangMsg) {
						// a busy machine can stretch one run beyond the limit: a hang counts only if
						// the same history hangs again on a fresh worker with three times the limit
						o = p.subs[w].eval(jobs[i], 3)
					}
				} else {
					o = p.cfg.Run(jobs[i])
				}
				outs[i] = &o
			}
		}(w)
	}
	wg.Wait()
	return outs, complete
}

type subWorker struct {
	cfg   BFSConfig
	cmd   *exec.Cmd
	in    io.WriteCloser
	out   *bufio.Reader
	errb    *tailBuf
	count   int
	scratch string
}

func (s *subWorker) start() {
	exe, _ := os.Executable()
	s.cmd = exec.Command(exe, "-tier", Opt.Tier, "-worker", "serve")
	s.cmd.Env = append(os.Environ(), "GOMAXPROCS=2", "VERIF_SCRATCH="+s.scratch)
	s.errb = &tailBuf{}
	s.cmd.Stderr = s.errb
	in, _ := s.cmd.StdinPipe()
	out, _ := s.cmd.StdoutPipe()
	s.in = in
	s.out = bufio.NewReaderSize(out, 1<<20)
	if err := s.cmd.Start(); err != nil {
		panic(err)
	}
	s.count = 0
}

func (s *subWorker) stop() {
	if s.cmd != nil {
		s.in.Close()
		s.cmd.Process.Kill()
		s.cmd.Wait()
		s.cmd = nil
	}
}

const hangMsg = "per-run limit exceeded (hang)"

func (s *subWorker) eval(h []string, limitFactor int) Outcome {
	if s.cmd == nil || (s.cfg.RecycleEvery > 0 && s.count >= s.cfg.RecycleEvery) {
		s.stop()
		s.start()
	}
	s.count++
	b, _ := json.Marshal(h)
	b = append(b, '\n')
	if _, err := s.in.Write(b); err != nil {
		msg := s.errb.String()
		s.stop()
		return Outcome{Died: true, DiedMsg: "write: " + err.Error() + "\n" + msg}
	}
	type res struct {
		line []byte
		err  error
	}
	ch := make(chan res, 1)
	go func() {
		line, err := s.out.ReadBytes('\n')
		ch <- res{line, err}
	}()
	select {
	case rr := <-ch:
		if rr.err != nil {
			werr := s.cmd.Wait()
			msg := fmt.Sprintf("worker exited: %v\n%s", werr, s.errb.String())
			s.cmd = nil
			return Outcome{Died: true, DiedMsg: msg}
		}
		var o Outcome
		if err := json.Unmarshal(rr.line, &o); err != nil {
			s.stop()
			return Outcome{Died: true, DiedMsg: "bad worker reply: " + err.Error()}
		}
		return o
	case <-time.After(time.Duration(limitFactor) * s.cfg.PerRunLimit):
		// ask the Go runtime for a goroutine dump before killing the worker
		s.cmd.Process.Signal(syscall.SIGQUIT)
		time.Sleep(2 * time.Second)
		msg := s.errb.head()
		s.stop()
		return Outcome{Died: true, DiedMsg: hangMsg + "\n" + msg}
	}
}

// ServeIfWorker turns the process into a BFS worker when started with -worker serve: it reads one
// JSON history per line on stdin and answers with one JSON Outcome per line on stdout.
func ServeIfWorker(run RunFunc) {
	if Opt.Worker != "serve" {
		return
	}
	// keep the protocol stream clean: anything the code under test prints goes to stderr
	proto := os.Stdout
	os.Stdout = os.Stderr
	in := bufio.NewReaderSize(os.Stdin, 1<<20)
	w := bufio.NewWriter(proto)
	for {
		line, err := in.ReadBytes('\n')
		if err != nil {
			os.Exit(0)
		}
		var h []string
		if err := json.Unmarshal(line, &h); err != nil {
			fmt.Fprintln(os.Stderr, "bad request:", err)
			os.Exit(2)
		}
		o := run(h)
		b, _ := json.Marshal(o)
		w.Write(b)
		w.WriteByte('\n')
		w.Flush()
	}
}

// Shrink greedily removes events from a failing history while stillFails holds (delta debugging,
// one event at a time, to a fixpoint). stillFails must reject histories that are not executable.
//
// remove (optional) builds the candidate without event i; it lets a harness renumber later events
// that refer to the removed one (nil = plain removal; returning nil skips the candidate).
func Shrink(hist []string, keepPrefix int, remove func(h []string, i int) []string, stillFails func([]string) bool) []string {
	cur := append([]string{}, hist...)
	for changed := true; changed; {
		changed = false
		for i := keepPrefix; i < len(cur); i++ {
			var cand []string
			if remove != nil {
				cand = remove(cur, i)
				if cand == nil {
					continue
				}
			} else {
				cand = append(append([]string{}, cur[:i]...), cur[i+1:]...)
			}
			if stillFails(cand) {
				cur = cand
				changed = true
				i--
			}
		}
	}
	return cur
}

// Package core is the shared runtime of every property harness: command-line/tier handling,
// result aggregation, evidence files, replay artefacts, known-finding classification and the
// subprocess shard runner.
package core

import (
	"crypto/sha256"
	"encoding/hex"
	"encoding/json"
	"flag"
	"fmt"
	"os"
	"os/exec"
	"path/filepath"
	"runtime"
	"sort"
	"strconv"
	"strings"
	"sync"
	"time"
)

const VerifRoot = "/verif"

// Violation is one failure of the property, with everything needed to replay it.
type Violation struct {
	Fingerprint string      `json:"fingerprint"` // normalised failing-trace class, matched against known_findings.json
	What        string      `json:"what"`        // one line, human readable
	Replay      interface{} `json:"replay"`      // history / schedule / input; consumed by --replay
}

// Result is what a harness (or one shard of it) produced.
type Result struct {
	Property   string                 `json:"property_id"`
	Level      string                 `json:"level"`
	Exhaustive bool                   `json:"exhaustive"`
	Counters   map[string]int64       `json:"counters"` // summed across shards
	Distinct   map[string]bool        `json:"distinct"` // set-union across shards (keys of distinct outcomes)
	Samples    []interface{}          `json:"samples"`
	Violations []Violation            `json:"violations"`
	Notes      []string               `json:"notes"`
	Extra      map[string]interface{} `json:"extra"`
	Assume     []string               `json:"assumptions"`
	Rule       string                 `json:"rule"`
	mu         sync.Mutex
}

func NewResult(prop, level string) *Result {
	return &Result{Property: prop, Level: level, Exhaustive: true, Counters: map[string]int64{},
		Distinct: map[string]bool{}, Extra: map[string]interface{}{}}
}

func (r *Result) Add(counter string, n int64) {
	r.mu.Lock()
	r.Counters[counter] += n
	r.mu.Unlock()
}

func (r *Result) Outcome(key string) {
	r.mu.Lock()
	r.Distinct[key] = true
	r.mu.Unlock()
}

func (r *Result) Sample(s interface{}) {
	r.mu.Lock()
	if len(r.Samples) < 6 {
		r.Samples = append(r.Samples, s)
	}
	r.mu.Unlock()
}

func (r *Result) Note(f string, a ...interface{}) {
	r.mu.Lock()
	r.Notes = append(r.Notes, fmt.Sprintf(f, a...))
	r.mu.Unlock()
}

func (r *Result) NotExhaustive(why string) {
	r.mu.Lock()
	r.Exhaustive = false
	r.Notes = append(r.Notes, "not exhaustive: "+why)
	r.mu.Unlock()
}

// Violate records a violation; at most a few per fingerprint are kept (shortest replay first by
// virtue of BFS order).
func (r *Result) Violate(fp, what string, replay interface{}) {
	r.mu.Lock()
	defer r.mu.Unlock()
	r.Counters["violations_raw"]++
	for _, v := range r.Violations {
		if v.Fingerprint == fp {
			return
		}
	}
	r.Violations = append(r.Violations, Violation{fp, what, replay})
}

func (r *Result) Merge(o *Result) {
	r.mu.Lock()
	defer r.mu.Unlock()
	for k, v := range o.Counters {
		r.Counters[k] += v
	}
	for k := range o.Distinct {
		r.Distinct[k] = true
	}
	for _, s := range o.Samples {
		if len(r.Samples) < 6 {
			r.Samples = append(r.Samples, s)
		}
	}
outer:
	for _, v := range o.Violations {
		for _, w := range r.Violations {
			if w.Fingerprint == v.Fingerprint {
				continue outer
			}
		}
		r.Violations = append(r.Violations, v)
	}
	r.Notes = append(r.Notes, o.Notes...)
	if !o.Exhaustive {
		r.Exhaustive = false
	}
	for k, v := range o.Extra {
		if _, ok := r.Extra[k]; !ok {
			r.Extra[k] = v
		}
	}
}

// ---------------------------------------------------------------------------------------------

type Options struct {
	Tier    string
	Replay  string
	Seed    int
	Worker  string // "i/n" when running as a shard worker
	Out     string // worker result file
	Workers int
	Start   time.Time
	Budget  time.Duration // internal deadline; exceeding it ends exploration with exhaustive=false
}

var Opt Options

// ParseFlags reads the common flags and environment. Harness mains call it first.
func ParseFlags() {
	tier := flag.String("tier", os.Getenv("VERIF_TIER"), "quick|thorough")
	replay := flag.String("replay", "", "replay file")
	worker := flag.String("worker", "", "i/n (internal)")
	out := flag.String("out", "", "worker result file (internal)")
	workers := flag.Int("workers", 0, "worker processes")
	budget := flag.Duration("budget", 0, "internal exploration deadline")
	flag.Parse()
	if *tier == "" {
		*tier = "quick"
	}
	if *tier != "quick" && *tier != "thorough" {
		fmt.Fprintln(os.Stderr, "bad tier", *tier)
		os.Exit(2)
	}
	seed, _ := strconv.Atoi(os.Getenv("VERIF_SEED"))
	if *workers == 0 {
		*workers = runtime.NumCPU()
		if *workers > 16 {
			*workers = 16
		}
	}
	Opt = Options{Tier: *tier, Replay: *replay, Seed: seed, Worker: *worker, Out: *out, Workers: *workers, Start: time.Now(), Budget: *budget}
	if Opt.Budget == 0 {
		if Opt.Tier == "quick" {
			Opt.Budget = 4 * time.Minute
		} else {
			Opt.Budget = 40 * time.Minute
		}
	}
}

func Thorough() bool { return Opt.Tier == "thorough" }

// OutOfTime reports whether the internal deadline has passed.
func OutOfTime() bool { return time.Since(Opt.Start) > Opt.Budget }

// IsWorker tells a harness main that it runs as shard i of n.
func IsWorker() (i, n int, ok bool) {
	if Opt.Worker == "" {
		return 0, 1, false
	}
	p := strings.Split(Opt.Worker, "/")
	i, _ = strconv.Atoi(p[0])
	n, _ = strconv.Atoi(p[1])
	return i, n, true
}

// WorkerDone writes the shard result and exits 0.
func WorkerDone(r *Result) {
	b, err := json.Marshal(r)
	if err != nil {
		fmt.Fprintln(os.Stderr, "marshal worker result:", err)
		os.Exit(2)
	}
	if err := os.WriteFile(Opt.Out, b, 0644); err != nil {
		fmt.Fprintln(os.Stderr, "write worker result:", err)
		os.Exit(2)
	}
	os.Exit(0)
}

// ScratchDir returns a fresh directory on /dev/shm (falls back to os.TempDir).
func ScratchDir(prefix string) string {
	base := os.Getenv("VERIF_SCRATCH")
	if base == "" {
		base = "/dev/shm"
	}
	if st, err := os.Stat(base); err != nil || !st.IsDir() {
		base = os.TempDir()
	}
	d, err := os.MkdirTemp(base, "verif-"+prefix+"-")
	if err != nil {
		panic(err)
	}
	return d
}

// RunShards re-executes the current binary n times as workers and merges their results into r.
// A worker that dies (panic in a goroutine the harness does not own, OOM, deadline) is reported
// through onDeath with its stderr tail; the caller decides whether that is a violation.
func RunShards(r *Result, n int, extraArgs []string, perWorkerTimeout time.Duration, onDeath func(i int, stderrTail string, journal string)) {
	exe, err := os.Executable()
	if err != nil {
		panic(err)
	}
	dir := ScratchDir("shards")
	defer os.RemoveAll(dir)
	var wg sync.WaitGroup
	for i := 0; i < n; i++ {
		wg.Add(1)
		go func(i int) {
			defer wg.Done()
			out := filepath.Join(dir, fmt.Sprintf("w%d.json", i))
			journal := filepath.Join(dir, fmt.Sprintf("w%d.journal", i))
			args := []string{"-tier", Opt.Tier, "-worker", fmt.Sprintf("%d/%d", i, n), "-out", out, "-budget", Opt.Budget.String()}
			args = append(args, extraArgs...)
			cmd := exec.Command(exe, args...)
			cmd.Env = append(os.Environ(), "VERIF_JOURNAL="+journal, "GOMAXPROCS=2")
			var eb tailBuf
			cmd.Stderr = &eb
			cmd.Stdout = &eb
			done := make(chan error, 1)
			if err := cmd.Start(); err != nil {
				panic(err)
			}
			go func() { done <- cmd.Wait() }()
			var werr error
			deadline := false
			select {
			case werr = <-done:
			case <-time.After(perWorkerTimeout):
				cmd.Process.Kill()
				<-done
				werr = fmt.Errorf("worker deadline %v exceeded", perWorkerTimeout)
				deadline = true
			}
			b, rerr := os.ReadFile(out)
			if werr != nil || rerr != nil {
				j, _ := os.ReadFile(journal)
				r.NotExhaustive(fmt.Sprintf("worker %d died: %v", i, werr))
				if deadline || (werr != nil && strings.Contains(werr.Error(), "signal: killed")) {
					// stopped from outside (our own deadline on a slow machine, or the kernel's
					// out-of-memory killer): the run is incomplete, nothing is known about the property
					fmt.Fprintf(os.Stderr, "worker %d stopped from outside (%v) near {%s}\n", i, werr, strings.TrimSpace(string(j)))
					return
				}
				if onDeath != nil {
					onDeath(i, eb.String(), string(j))
				} else {
					fmt.Fprintf(os.Stderr, "worker %d died: %v\n%s\n", i, werr, eb.String())
				}
				return
			}
			var wr Result
			if err := json.Unmarshal(b, &wr); err != nil {
				r.NotExhaustive(fmt.Sprintf("worker %d result unreadable: %v", i, err))
				return
			}
			r.Merge(&wr)
		}(i)
	}
	wg.Wait()
}

type tailBuf struct {
	mu    sync.Mutex
	buf   []byte
	first []byte // the first 16 KiB after the last mark (goroutine dumps start with the interesting part)
}

func (t *tailBuf) head() string { t.mu.Lock(); defer t.mu.Unlock(); return string(t.first) }

func (t *tailBuf) Write(p []byte) (int, error) {
	t.mu.Lock()
	if len(t.first) < 1<<14 {
		t.first = append(t.first, p...)
	}
	t.buf = append(t.buf, p...)
	if len(t.buf) > 1<<16 {
		t.buf = t.buf[len(t.buf)-(1<<16):]
	}
	t.mu.Unlock()
	return len(p), nil
}
func (t *tailBuf) String() string { t.mu.Lock(); defer t.mu.Unlock(); return string(t.buf) }

// Journal lets a worker record "about to run case X" so that a crash can be attributed.
func Journal(s string) {
	p := os.Getenv("VERIF_JOURNAL")
	if p == "" {
		return
	}
	os.WriteFile(p, []byte(s), 0644)
}

// ---------------------------------------------------------------------------------------------
// known findings

type KnownFinding struct {
	Property    string      `json:"property"`
	Fingerprint string      `json:"fingerprint"`
	Status      string      `json:"status"` // "open" or "fixed"
	Commit      string      `json:"commit,omitempty"`
	What        string      `json:"what"`
	Example     interface{} `json:"example,omitempty"`
}

func loadKnown() []KnownFinding {
	b, err := os.ReadFile(filepath.Join(VerifRoot, "known_findings.json"))
	if err != nil {
		return nil
	}
	var f struct {
		Findings []KnownFinding `json:"findings"`
	}
	if err := json.Unmarshal(b, &f); err != nil {
		fmt.Fprintln(os.Stderr, "known_findings.json unreadable:", err)
		os.Exit(2)
	}
	return f.Findings
}

// ---------------------------------------------------------------------------------------------

// Finish writes the evidence file and replay artefacts, prints KNOWN-FINDING / VIOLATION lines and
// exits with the contract's status.
func Finish(r *Result) {
	known := loadKnown()
	sort.Slice(r.Violations, func(i, j int) bool { return r.Violations[i].Fingerprint < r.Violations[j].Fingerprint })
	newV := 0
	knownHit := 0
	for _, v := range r.Violations {
		isKnown := false
		for _, k := range known {
			if k.Property == r.Property && k.Fingerprint == v.Fingerprint && k.Status == "open" {
				isKnown = true
				fmt.Printf("KNOWN-FINDING: property=%s %s [%s]\n", r.Property, k.What, k.Fingerprint)
			}
		}
		if isKnown {
			knownHit++
			continue
		}
		newV++
		h := sha256.Sum256([]byte(v.Fingerprint))
		dir := filepath.Join(VerifRoot, "replays", r.Property)
		os.MkdirAll(dir, 0755)
		path := filepath.Join(dir, hex.EncodeToString(h[:6])+".json")
		b, _ := json.MarshalIndent(map[string]interface{}{"property": r.Property, "fingerprint": v.Fingerprint, "what": v.What, "replay": v.Replay}, "", " ")
		os.WriteFile(path, b, 0644)
		fmt.Printf("VIOLATION property=%s replay=%s\n", r.Property, path)
		fmt.Printf("  fingerprint: %s\n  what: %s\n", v.Fingerprint, clip(v.What, 600))
	}
	writeEvidence(r, newV, knownHit)
	keys := make([]string, 0, len(r.Counters))
	for k := range r.Counters {
		keys = append(keys, k)
	}
	sort.Strings(keys)
	var sb strings.Builder
	for _, k := range keys {
		fmt.Fprintf(&sb, " %s=%d", k, r.Counters[k])
	}
	fmt.Printf("%s tier=%s exhaustive=%v distinct_outcomes=%d%s wall=%.1fs\n", r.Property, Opt.Tier, r.Exhaustive, len(r.Distinct), sb.String(), time.Since(Opt.Start).Seconds())
	for _, n := range r.Notes {
		fmt.Println("  note:", n)
	}
	if newV > 0 {
		os.Exit(1)
	}
	os.Exit(0)
}

func writeEvidence(r *Result, newV, knownHit int) {
	cov := map[string]interface{}{}
	for k, v := range r.Counters {
		cov[k] = v
	}
	for k, v := range r.Extra {
		cov[k] = v
	}
	cov["exhaustive"] = r.Exhaustive
	cov["rule"] = r.Rule
	cov["distinct_nontrivial"] = len(r.Distinct)
	if _, ok := cov["evaluations"]; !ok {
		if t, ok := r.Counters["transitions"]; ok {
			cov["evaluations"] = t
		}
	}
	samples := r.Samples
	if len(samples) == 0 {
		samples = []interface{}{"(no sample recorded)"}
	}
	cov["samples"] = samples
	cov["notes"] = r.Notes
	cov["known_findings_observed"] = knownHit
	if r.Level == "model_checking" {
		if _, ok := cov["traces_validated_against_impl"]; !ok {
			// every explored history is executed on the implementation itself
			cov["traces_validated_against_impl"] = cov["transitions"]
		}
	}
	ev := map[string]interface{}{
		"property_id": r.Property,
		"tier":        Opt.Tier,
		"seed":        Opt.Seed,
		"level":       r.Level,
		"coverage":    cov,
		"assumptions": append([]string{}, r.Assume...),
		"wall_s":      time.Since(Opt.Start).Seconds(),
		"violations":  newV,
	}
	b, _ := json.MarshalIndent(ev, "", " ")
	os.MkdirAll(filepath.Join(VerifRoot, "evidence"), 0755)
	if err := os.WriteFile(filepath.Join(VerifRoot, "evidence", r.Property+".json"), b, 0644); err != nil {
		fmt.Fprintln(os.Stderr, "cannot write evidence:", err)
		os.Exit(2)
	}
}

// LoadReplay reads a replay artefact written by Finish and decodes its "replay" member into v.
func LoadReplay(path string, v interface{}) error {
	b, err := os.ReadFile(path)
	if err != nil {
		return err
	}
	var w struct {
		Replay json.RawMessage `json:"replay"`
	}
	if err := json.Unmarshal(b, &w); err != nil {
		return err
	}
	return json.Unmarshal(w.Replay, v)
}

// Hash is a short stable digest for canonical state keys.
func Hash(s string) string {
	h := sha256.Sum256([]byte(s))
	return hex.EncodeToString(h[:12])
}

func clip(s string, n int) string {
	if len(s) > n {
		return s[:n] + " …"
	}
	return s
}

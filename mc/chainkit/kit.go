// Package chainkit is the shared whole-chain alphabet used by the block-level harnesses (C01, C05):
// a single-deputy world with a funded, contract-bearing prefix and a menu of pre-signed
// transactions covering all 11 transaction types (valid, failing, reverting, box-wrapped,
// contract-creating / calling) plus candidates an honest miner discards.
package chainkit

import (
	"encoding/json"
	"fmt"
	"math/big"

	"verifmc/node"

	"github.com/LemoFoundationLtd/lemochain-core/chain/params"
	"github.com/LemoFoundationLtd/lemochain-core/chain/types"
	"github.com/LemoFoundationLtd/lemochain-core/common"
	"github.com/LemoFoundationLtd/lemochain-core/common/crypto"
)

// T0 is the base instant of the world; every menu transaction expires at T0+1500.
const T0 = node.GenesisTime + 100000

var Exp = uint64(T0 + 1500)

// ---------------------------------------------------------------------------------------------
// bytecode

// InitCode wraps runtime code into deployment code that returns it.
func InitCode(runtime []byte) []byte {
	if len(runtime) > 255 {
		panic("runtime too long")
	}
	l := byte(len(runtime))
	return append([]byte{0x60, l, 0x80, 0x60, 0x0b, 0x60, 0x00, 0x39, 0x60, 0x00, 0xf3}, runtime...)
}

func push20(a common.Address) []byte { return append([]byte{0x73}, a.Bytes()...) }

var (
	// storage[0]++ ; LOG0 ; STOP
	RtCounter = []byte{0x60, 0x01, 0x60, 0x00, 0x54, 0x01, 0x60, 0x00, 0x55, 0x60, 0x00, 0x60, 0x00, 0xa0, 0x00}
	// SSTORE then REVERT
	RtRevert = []byte{0x60, 0x01, 0x60, 0x00, 0x55, 0x60, 0x00, 0x60, 0x00, 0xfd}
	// SSTORE then INVALID
	RtInvalid = []byte{0x60, 0x01, 0x60, 0x00, 0x55, 0xfe}
	// SELFDESTRUCT to itself (burns its balance)
	RtBurn = []byte{0x30, 0xff}
	// init code that reverts
	InitRevert = []byte{0x60, 0x00, 0x60, 0x00, 0xfd}
	// called without value: CALLs ITSELF with 7 mo of its own balance (sender == recipient of a value
	// transfer inside the EVM); called with value (the inner call): STOP
	RtSelfPay = []byte{0x34, 0x60, 0x12, 0x57, 0x60, 0x00, 0x60, 0x00, 0x60, 0x00, 0x60, 0x00, 0x60, 0x07, 0x30, 0x5a, 0xf1, 0x00, 0x5b, 0x00}
)

// RtForward forwards the call value to `to`.
func RtForward(to common.Address) []byte {
	c := []byte{0x60, 0x00, 0x60, 0x00, 0x60, 0x00, 0x60, 0x00, 0x34}
	c = append(c, push20(to)...)
	return append(c, 0x5a, 0xf1, 0x00)
}

// RtForwardThenRevert forwards the call value to `to`, then reverts.
func RtForwardThenRevert(to common.Address) []byte {
	c := RtForward(to)
	c = c[:len(c)-1]
	return append(c, 0x60, 0x00, 0x60, 0x00, 0xfd)
}

// RtDestructTo self-destructs to `to`.
func RtDestructTo(to common.Address) []byte { return append(push20(to), 0xff) }

// ---------------------------------------------------------------------------------------------

// World is a factory (single deputy) whose database holds a stabilised prefix chain.
type World struct {
	F         *node.Factory
	Prefix    []*types.Block // blocks above genesis, in order (all honest, all stabilised in the factory)
	Head      *types.Block
	Contracts map[string]common.Address
	AssetCode common.Hash
	txs       map[string]*types.Transaction
}

var (
	U0, U1, U2, U3 = node.User(0), node.User(1), node.User(2), node.User(3)
	Cand1          = node.K("cand1")
	Payer          = node.K("payer")
	Fresh          = node.K("fresh-account")
	Pauper         = node.K("pauper")
)

// Watch is the fixed list of addresses every comparison looks at (besides the touched ones).
func (w *World) Watch() []common.Address {
	l := []common.Address{node.Founder().Addr, node.Deputy(0).Addr, node.K("income0").Addr, U0.Addr, U1.Addr, U2.Addr, U3.Addr, Cand1.Addr, Payer.Addr, Fresh.Addr, Pauper.Addr,
		params.DepositPoolAddress, params.TermRewardContract, {}}
	for _, a := range w.Contracts {
		l = append(l, a)
	}
	return l
}

func addrp(a common.Address) *common.Address { return &a }

// NewWorld builds the prefix: block 1 funds the accounts; block 2 deploys the contracts, registers
// a candidate, creates an asset; block 3 issues the asset and makes U3 a 50/50 multi-signature
// account. Every block is stabilised in the factory (a single deputy stabilises its own blocks).
func NewWorld(dir string) *World {
	w := &World{F: node.NewFactory(dir, 1), Contracts: map[string]common.Address{}, txs: map[string]*types.Transaction{}}
	w.Head = w.F.BC.Genesis()
	pexp := uint64(T0 - 1000 + 1500)
	seq := uint64(0)
	next := func() uint64 { seq++; return pexp + seq }
	step := func(txs types.Transactions, what string) {
		b, inv, err := w.F.Make(node.BlockSpec{Parent: w.Head, Miner: node.Deputy(0), Time: uint32(T0-1000) + uint32(10*len(w.Prefix)), Txs: txs, Extra: what})
		if err != nil || len(inv) > 0 {
			panic(fmt.Sprintf("chainkit: prefix block %q: err=%v invalid=%d", what, err, len(inv)))
		}
		if _, err := w.F.DB.SetStableBlock(b.Hash()); err != nil {
			panic(fmt.Sprintf("chainkit: stabilise %q: %v", what, err))
		}
		w.F.Quiesce()
		w.Prefix = append(w.Prefix, b)
		w.Head = b
	}
	// block 1: funding
	var fund types.Transactions
	for _, k := range []*node.Key{U0, U1, U2, U3, Payer} {
		fund = append(fund, node.Transfer(node.Founder(), k.Addr, node.Lemo(100000), next()))
	}
	fund = append(fund, node.Transfer(node.Founder(), Cand1.Addr, node.Lemo(6000000), next()))
	step(fund, "fund")
	// block 2: contracts, candidate, asset
	deploy := func(name string, runtime []byte) *types.Transaction {
		tx := node.Tx(node.TxSpec{Type: params.CreateContractTx, From: U2, Data: InitCode(runtime), Exp: next(), Amount: node.Lemo(5)})
		w.Contracts[name] = crypto.CreateContractAddress(U2.Addr, tx.Hash())
		return tx
	}
	var b2 types.Transactions
	b2 = append(b2, deploy("counter", RtCounter), deploy("revert", RtRevert), deploy("invalid", RtInvalid), deploy("burn", RtBurn),
		deploy("forward", RtForward(U1.Addr)), deploy("fwdrevert", RtForwardThenRevert(U1.Addr)), deploy("destruct", RtDestructTo(U1.Addr)), deploy("selfpay", RtSelfPay))
	b2 = append(b2, node.Register(Cand1, params.MinCandidateDeposit, node.CandidateProfile(Cand1, "7100"), next()))
	asset := map[string]interface{}{"category": 1, "isDivisible": true, "decimal": 2, "isReplenishable": true, "profile": map[string]string{"name": "tok", "symbol": "TK", "description": "d", "suggestedGasLimit": "60000"}}
	ad, _ := json.Marshal(asset)
	createAsset := node.Tx(node.TxSpec{Type: params.CreateAssetTx, From: U0, Data: ad, Exp: next()})
	w.AssetCode = createAsset.Hash()
	b2 = append(b2, createAsset)
	step(b2, "deploy")
	// block 3: issue the asset to U1, make U3 multi-signature (U0:50, U1:50)
	issue, _ := json.Marshal(map[string]interface{}{"assetCode": w.AssetCode, "metaData": "m", "supplyAmount": "1000"})
	signers, _ := json.Marshal(map[string]interface{}{"signers": []map[string]interface{}{{"address": U0.Addr, "weight": 50}, {"address": U1.Addr, "weight": 50}}})
	step(types.Transactions{
		node.Tx(node.TxSpec{Type: params.IssueAssetTx, From: U0, To: addrp(U1.Addr), Data: issue, Exp: next()}),
		node.Tx(node.TxSpec{Type: params.ModifySignersTx, From: U3, To: addrp(U3.Addr), Data: signers, Exp: next()}),
	}, "issue")
	w.mkMenu()
	return w
}

// Menu is the ordered alphabet of transaction names (simplest first).
var Menu = []string{
	"xfer", "xfer-new", "xfer-self", "call-selfpay", "call-counter", "call-revert", "call-invalid", "call-forward", "call-fwdrevert", "call-destruct", "call-burn",
	"create-ok", "create-revert", "create-oog", "create-oog-deposit", "vote-d0", "vote-c1", "register-u1-poor", "topup-c1", "unregister-c1",
	"asset-issue", "asset-replenish", "asset-freeze", "asset-transfer", "multisig-xfer", "multisig-reset", "payer-xfer", "box-ok", "box-failing-sub",
}

// Discards are candidates an honest miner tries and discards (they never enter a block).
var Discards = []string{"bad-signature", "unaffordable-gas", "amount-too-much", "multisig-one-signer"}

func (w *World) mkMenu() {
	c := w.Contracts
	call := func(name string, from *node.Key, amount *big.Int) *types.Transaction {
		return node.Tx(node.TxSpec{Type: params.OrdinaryTx, From: from, To: addrp(c[name]), Amount: amount, Exp: Exp, GasLimit: 300000})
	}
	t := w.txs
	t["xfer"] = node.Transfer(U0, U1.Addr, node.Lemo(250), Exp)
	t["xfer-new"] = node.Transfer(U0, Fresh.Addr, node.Lemo(1), Exp)
	t["xfer-self"] = node.Transfer(U0, U0.Addr, node.Lemo(5), Exp) // sender == recipient
	t["call-selfpay"] = call("selfpay", U0, nil)
	t["call-counter"] = call("counter", U0, nil)
	t["call-revert"] = call("revert", U0, nil)
	t["call-invalid"] = call("invalid", U0, node.Lemo(1))
	t["call-forward"] = call("forward", U0, node.Lemo(3))
	t["call-fwdrevert"] = call("fwdrevert", U0, node.Lemo(3))
	t["call-destruct"] = call("destruct", U0, node.Lemo(2))
	t["call-burn"] = call("burn", U0, node.Lemo(2))
	t["create-ok"] = node.Tx(node.TxSpec{Type: params.CreateContractTx, From: U1, Data: InitCode(RtCounter), Exp: Exp, Amount: node.Lemo(1)})
	t["create-revert"] = node.Tx(node.TxSpec{Type: params.CreateContractTx, From: U1, Data: InitRevert, Exp: Exp, Amount: node.Lemo(1)})
	t["create-oog"] = node.Tx(node.TxSpec{Type: params.CreateContractTx, From: U1, Data: InitCode(RtCounter), Exp: Exp, GasLimit: 54000})
	// value-carrying creation whose constructor succeeds but whose gas limit cannot pay the code deposit
	// (intrinsic 54320 + constructor < 55400 < + 15 bytes x 200): fails with the value back at the sender
	t["create-oog-deposit"] = node.Tx(node.TxSpec{Type: params.CreateContractTx, From: U1, Data: InitCode(RtCounter), Exp: Exp, Amount: node.Lemo(1), GasLimit: 55400})
	t["vote-d0"] = node.Vote(U0, node.Deputy(0).Addr, Exp)
	t["vote-c1"] = node.Vote(U0, Cand1.Addr, Exp)
	t["register-u1-poor"] = node.Register(U1, params.MinCandidateDeposit, node.CandidateProfile(U1, "7101"), Exp) // cannot afford the deposit
	t["topup-c1"] = node.Register(Cand1, node.Lemo(150), node.CandidateProfile(Cand1, "7100"), Exp)
	unreg := node.CandidateProfile(Cand1, "7100")
	unreg[types.CandidateKeyIsCandidate] = "false"
	t["unregister-c1"] = node.Register(Cand1, new(big.Int), unreg, Exp)
	issue, _ := json.Marshal(map[string]interface{}{"assetCode": w.AssetCode, "metaData": "m2", "supplyAmount": "7"})
	t["asset-issue"] = node.Tx(node.TxSpec{Type: params.IssueAssetTx, From: U0, To: addrp(U2.Addr), Data: issue, Exp: Exp})
	repl, _ := json.Marshal(map[string]interface{}{"assetCode": w.AssetCode, "assetId": w.AssetCode, "replenishAmount": "9"})
	t["asset-replenish"] = node.Tx(node.TxSpec{Type: params.ReplenishAssetTx, From: U0, To: addrp(U1.Addr), Data: repl, Exp: Exp})
	frz, _ := json.Marshal(map[string]interface{}{"assetCode": w.AssetCode, "updateProfile": map[string]string{"freeze": "true"}})
	t["asset-freeze"] = node.Tx(node.TxSpec{Type: params.ModifyAssetTx, From: U0, Data: frz, Exp: Exp})
	xa, _ := json.Marshal(map[string]interface{}{"assetId": w.AssetCode, "transferAmount": "30"})
	t["asset-transfer"] = node.Tx(node.TxSpec{Type: params.TransferAssetTx, From: U1, To: addrp(U2.Addr), Data: xa, Exp: Exp})
	// multi-signature account U3 (U0:50 + U1:50)
	ms := node.Unsigned(node.TxSpec{Type: params.OrdinaryTx, From: U3, To: addrp(U2.Addr), Amount: node.Lemo(4), Exp: Exp})
	t["multisig-xfer"] = node.SignWith(node.SignWith(ms, U0.Priv), U1.Priv)
	t["multisig-one-signer"] = node.SignWith(ms, U0.Priv)
	// the multi-signature account replaces its signers (U0:50 + U1:50 -> U1:50 + U2:50): afterwards
	// multisig-xfer, signed by U0 + U1, no longer reaches the threshold
	reset, _ := json.Marshal(map[string]interface{}{"signers": []map[string]interface{}{{"address": U1.Addr, "weight": 50}, {"address": U2.Addr, "weight": 50}}})
	mr := node.Unsigned(node.TxSpec{Type: params.ModifySignersTx, From: U3, To: addrp(U3.Addr), Data: reset, Exp: Exp})
	t["multisig-reset"] = node.SignWith(node.SignWith(mr, U0.Priv), U1.Priv)
	// gas paid by somebody else
	pt := types.NewReimbursementTransaction(U0.Addr, U1.Addr, Payer.Addr, node.Lemo(2), nil, params.OrdinaryTx, node.ChainID, Exp, "", "")
	pt, _ = types.MakeReimbursementTxSigner().SignTx(pt, U0.Priv)
	pt = types.GasPayerSignatureTx(pt, big.NewInt(2000000000), 100000)
	pt, _ = types.MakeGasPayerSigner().SignTx(pt, Payer.Priv)
	t["payer-xfer"] = pt
	// boxes: sub-transactions with a gas price different from the box's
	sub1 := node.Tx(node.TxSpec{Type: params.OrdinaryTx, From: U1, To: addrp(U2.Addr), Amount: node.Lemo(6), Exp: Exp, GasPrice: big.NewInt(3000000000)})
	sub2 := node.Tx(node.TxSpec{Type: params.VoteTx, From: U1, To: addrp(Cand1.Addr), Exp: Exp})
	t["box-ok"] = node.Box(U2, Exp, sub1, sub2)
	subBad := node.Transfer(Pauper, U2.Addr, node.Lemo(1), Exp) // cannot pay
	sub3 := node.Tx(node.TxSpec{Type: params.OrdinaryTx, From: U1, To: addrp(U2.Addr), Amount: node.Lemo(7), Exp: Exp})
	t["box-failing-sub"] = node.Box(U2, Exp, sub3, subBad)
	// discard-only candidates
	un := node.Unsigned(node.TxSpec{Type: params.OrdinaryTx, From: U0, To: addrp(U1.Addr), Amount: node.Lemo(1), Exp: Exp})
	t["bad-signature"] = node.SignWith(un, node.K("outsider").Priv)
	t["unaffordable-gas"] = node.Transfer(Pauper, U1.Addr, node.Lemo(1), Exp)
	t["amount-too-much"] = node.Transfer(U0, U1.Addr, node.Lemo(100000000), Exp)
}

// Tx returns a fresh copy of the named menu transaction.
func (w *World) Tx(name string) *types.Transaction {
	tx, ok := w.txs[name]
	if !ok {
		panic("chainkit: no tx " + name)
	}
	return tx.Clone()
}

// Txs maps names to transactions.
func (w *World) Txs(names []string) types.Transactions {
	l := make(types.Transactions, len(names))
	for i, n := range names {
		l[i] = w.Tx(n)
	}
	return l
}

// NameOf finds the menu name of a transaction by hash.
func (w *World) NameOf(tx *types.Transaction) string {
	for n, t := range w.txs {
		if t.Hash() == tx.Hash() {
			return n
		}
	}
	return "?"
}

// Validator creates a fresh single-deputy observer node that has accepted the prefix.
func (w *World) Validator(dir string) *node.Node {
	n := node.NewNode(dir, 1, node.K("observer"))
	for _, b := range w.Prefix {
		if err := n.InsertQuiet(node.Wire(b)); err != nil {
			panic(fmt.Sprintf("chainkit: validator rejects prefix block h=%d: %v", b.Height(), err))
		}
	}
	return n
}

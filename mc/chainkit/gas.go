package chainkit

import (
	"sort"

	"github.com/LemoFoundationLtd/lemochain-core/chain/params"
	"github.com/LemoFoundationLtd/lemochain-core/chain/types"
)

// GasBoundaries returns the block gas limits at which the gas pool of a miner that packages the
// transactions of blk in this order runs dry exactly at one of them: one unit short of what
// transaction i needs when its turn comes and, inside a box, one unit short of what
// sub-transaction j needs after the box itself and the sub-transactions before it were paid for.
// blk is the block mined from the same list without a binding limit (its transactions carry the
// gas they used). The header's gas limit is a miner's free choice, so each of these limits is a
// block an honest miner can produce; what does not fit is dropped by the miner ("block is full").
func GasBoundaries(blk *types.Block) []uint64 {
	set := map[uint64]bool{}
	consumed := uint64(0)
	for _, tx := range blk.Txs {
		if tx.GasLimit() > 0 {
			set[consumed+tx.GasLimit()-1] = true
		}
		if tx.Type() == params.BoxTx {
			if box, err := types.GetBox(tx.Data()); err == nil {
				c := consumed + tx.GasLimit()
				for _, s := range box.SubTxList {
					if s.GasLimit() > 0 {
						set[c+s.GasLimit()-1] = true
					}
					c += s.GasUsed()
				}
			}
		}
		consumed += tx.GasUsed()
	}
	out := make([]uint64, 0, len(set))
	for l := range set {
		if l > 0 {
			out = append(out, l)
		}
	}
	sort.Slice(out, func(i, j int) bool { return out[i] < out[j] })
	return out
}

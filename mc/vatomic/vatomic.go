// Package vatomic replaces sync/atomic in instrumented files: every operation is a scheduling
// point for controlled threads, then the real atomic operation.
package vatomic

import (
	"sync/atomic"
	"unsafe"

	"verifmc/sched"
)

type Value struct{ v atomic.Value }

func (v *Value) Load() interface{} {
	sched.Point(sched.OpAtomic, uintptr(unsafe.Pointer(v)), 0)
	return v.v.Load()
}
func (v *Value) Store(x interface{}) {
	sched.Point(sched.OpAtomic, uintptr(unsafe.Pointer(v)), 0)
	v.v.Store(x)
}

func p(addr unsafe.Pointer) { sched.Point(sched.OpAtomic, uintptr(addr), 0) }

func LoadInt32(a *int32) int32             { p(unsafe.Pointer(a)); return atomic.LoadInt32(a) }
func LoadInt64(a *int64) int64             { p(unsafe.Pointer(a)); return atomic.LoadInt64(a) }
func LoadUint32(a *uint32) uint32          { p(unsafe.Pointer(a)); return atomic.LoadUint32(a) }
func LoadUint64(a *uint64) uint64          { p(unsafe.Pointer(a)); return atomic.LoadUint64(a) }
func StoreInt32(a *int32, v int32)         { p(unsafe.Pointer(a)); atomic.StoreInt32(a, v) }
func StoreInt64(a *int64, v int64)         { p(unsafe.Pointer(a)); atomic.StoreInt64(a, v) }
func StoreUint32(a *uint32, v uint32)      { p(unsafe.Pointer(a)); atomic.StoreUint32(a, v) }
func StoreUint64(a *uint64, v uint64)      { p(unsafe.Pointer(a)); atomic.StoreUint64(a, v) }
func AddInt32(a *int32, d int32) int32     { p(unsafe.Pointer(a)); return atomic.AddInt32(a, d) }
func AddInt64(a *int64, d int64) int64     { p(unsafe.Pointer(a)); return atomic.AddInt64(a, d) }
func AddUint32(a *uint32, d uint32) uint32 { p(unsafe.Pointer(a)); return atomic.AddUint32(a, d) }
func AddUint64(a *uint64, d uint64) uint64 { p(unsafe.Pointer(a)); return atomic.AddUint64(a, d) }
func CompareAndSwapInt32(a *int32, o, n int32) bool {
	p(unsafe.Pointer(a))
	return atomic.CompareAndSwapInt32(a, o, n)
}
func CompareAndSwapInt64(a *int64, o, n int64) bool {
	p(unsafe.Pointer(a))
	return atomic.CompareAndSwapInt64(a, o, n)
}
func CompareAndSwapUint32(a *uint32, o, n uint32) bool {
	p(unsafe.Pointer(a))
	return atomic.CompareAndSwapUint32(a, o, n)
}
func CompareAndSwapUint64(a *uint64, o, n uint64) bool {
	p(unsafe.Pointer(a))
	return atomic.CompareAndSwapUint64(a, o, n)
}
func SwapInt32(a *int32, n int32) int32 { p(unsafe.Pointer(a)); return atomic.SwapInt32(a, n) }

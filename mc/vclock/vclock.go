// Package vclock is the clock seam that instrumented lemochain-core files call instead of package
// time. With no virtual time set it is the wall clock.
package vclock

import (
	"sync"
	"time"

	"verifmc/vtask"
)

var (
	mu      sync.Mutex
	virtual bool
	now     time.Time
)

// Set switches to virtual time t (and keeps it until Set again or Reset).
func Set(t time.Time) { mu.Lock(); virtual, now = true, t; mu.Unlock() }

// SetUnix is Set(time.Unix(sec, 0)).
func SetUnix(sec int64) { Set(time.Unix(sec, 0)) }

// SetUnixMilli sets the virtual time in milliseconds.
func SetUnixMilli(ms int64) { Set(time.Unix(ms/1000, (ms%1000)*1e6)) }

// Reset returns to the wall clock.
func Reset() { mu.Lock(); virtual = false; mu.Unlock() }

func Now() time.Time {
	mu.Lock()
	defer mu.Unlock()
	if virtual {
		return now
	}
	return time.Now()
}

func Since(t time.Time) time.Duration { return Now().Sub(t) }

// Sleep advances nothing under virtual time (the harness owns time); real sleep otherwise.
func Sleep(d time.Duration) {
	mu.Lock()
	v := virtual
	mu.Unlock()
	if !v {
		time.Sleep(d)
	}
}

// AfterFunc hands the callback to vtask as a gated-capable task with site "timer:<d>"; when tasks
// are not gated it is a real timer.
func AfterFunc(d time.Duration, f func()) *time.Timer {
	if vtask.Policy("timer:"+d.String()) == vtask.Real {
		return time.AfterFunc(d, f)
	}
	vtask.GoCall("timer:"+d.String(), f)
	t := time.NewTimer(time.Hour)
	t.Stop()
	return t
}

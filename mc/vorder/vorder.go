// Package vorder is the seam behind every rewritten `for k, v := range m` over a map (instrumenter
// pass "maprange"): the harness chooses the iteration order instead of the Go runtime.
//
// Policy 0 (the default) leaves the native loop alone. Policy p >= 1 makes every instrumented map
// loop visit the keys in a fixed permutation of their canonical (sorted) order:
//
//	n <= 3 keys: p = 1..6 are the n! permutations in lexicographic order (p wraps around), i.e.
//	             ALL iteration orders of maps with up to three keys;
//	n  > 3 keys: 1 sorted, 2 reversed, 3 rotated left by one, 4 rotated right by one,
//	             5 the two halves swapped, 6 reversed and rotated by one.
package vorder

import (
	"fmt"
	"reflect"
	"sort"
	"sync/atomic"
)

var policy int32

// Policies is the number of controlled orders (1..Policies).
const Policies = 6

func SetPolicy(p int) { atomic.StoreInt32(&policy, int32(p)) }
func Policy() int     { return int(atomic.LoadInt32(&policy)) }

// Loops counts the map loops executed under a controlled order, by number of keys (capped at 4).
var Loops [5]int64

// Keys returns the keys of m in the order of the current policy; ok is false when m is not a map
// or the policy is 0 (the caller then runs the native loop).
func Keys(m interface{}) (keys []interface{}, ok bool) {
	p := Policy()
	if p == 0 {
		return nil, false
	}
	v := reflect.ValueOf(m)
	if !v.IsValid() || v.Kind() != reflect.Map {
		return nil, false
	}
	ks := v.MapKeys()
	type ent struct {
		s string
		k interface{}
	}
	es := make([]ent, len(ks))
	for i, k := range ks {
		es[i] = ent{fmt.Sprintf("%#v", k.Interface()), k.Interface()}
	}
	sort.Slice(es, func(i, j int) bool { return es[i].s < es[j].s })
	n := len(es)
	c := n
	if c > 4 {
		c = 4
	}
	atomic.AddInt64(&Loops[c], 1)
	idx := make([]int, n)
	for i := range idx {
		idx[i] = i
	}
	switch {
	case n <= 1:
	case n <= 3:
		// (p-1)-th permutation in lexicographic order, factorial number system
		f := 1
		for i := 2; i <= n; i++ {
			f *= i
		}
		r := (p - 1) % f
		avail := append([]int{}, idx...)
		for i := 0; i < n; i++ {
			f /= n - i
			j := r / f
			r %= f
			idx[i] = avail[j]
			avail = append(avail[:j], avail[j+1:]...)
		}
	default:
		rot := func(by int) {
			t := append([]int{}, idx...)
			for i := range idx {
				idx[i] = t[((i+by)%n+n)%n]
			}
		}
		rev := func() {
			for i, j := 0, n-1; i < j; i, j = i+1, j-1 {
				idx[i], idx[j] = idx[j], idx[i]
			}
		}
		switch (p - 1) % Policies {
		case 1:
			rev()
		case 2:
			rot(1)
		case 3:
			rot(-1)
		case 4:
			rot(n / 2)
		case 5:
			rev()
			rot(1)
		}
	}
	keys = make([]interface{}, n)
	for i, j := range idx {
		keys[i] = es[j].k
	}
	return keys, true
}

// Eq reports whether the loop key k is the wanted key w.
func Eq(k, w interface{}) bool { return k == w }

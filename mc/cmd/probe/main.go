package main

import (
	"fmt"
	"os"
	"os/exec"

	"verifmc/chainkit"
	"verifmc/core"
	"verifmc/node"
)

func main() {
	node.Quiet()
	w := chainkit.NewWorld(core.ScratchDir("probew"))
	v := w.Validator(core.ScratchDir("probev"))
	fmt.Println("quiesce:", v.Quiesce())
	st, _ := os.Stat(v.Dir + "/tmp.data")
	fmt.Println("tmp.data size", st.Size(), "offset", v.DB.Beansdb.Queue.Offset)
	v.Close()
	dir := core.ScratchDir("probecopy")
	if out, err := exec.Command("cp", "-r", v.Dir+"/.", dir).CombinedOutput(); err != nil {
		panic(string(out))
	}
	func() {
		defer func() {
			if p := recover(); p != nil {
				fmt.Println("REOPEN PANIC:", p)
			}
		}()
		v2 := node.Reopen(dir, 1, node.K("observer"))
		fmt.Println("reopened; stable", v2.BC.StableBlock().Height())
		v2.Quiesce()
		v2.Close()
	}()
	fmt.Println(dir)
}
